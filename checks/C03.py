"""C03 - A Range header resolves to the canonical set of satisfiable byte ranges."""
from __future__ import annotations

import itertools

from hypothesis import strategies as st

from baize.exceptions import HTTPException, MalformedRangeHeader, RangeNotSatisfiable
from baize.responses import FileResponseMixin

from harness import core
from harness.core import Result
from harness.refs import ranges as ref

LEVEL = "exploration"
RULES = {
    "atheris": "thorough tier: Atheris/libFuzzer coverage-guided campaign; bytes are decoded into the same structured case and judged by the same oracle inside the target (half of the jobs start from an empty corpus, half from two small valid inputs)",
    "exh": "exhaustive: sizes 0..7 x every range set of 1..k specs (first-last, first-, -suffix over 0..8), "
    "joined with ',' and with ' , '; non-trivial = two specs overlap/touch/nest/are out of order, or a spec "
    "sits exactly on a rejection edge (first=size, first=last+1, suffix in {0,size,size+1})",
    "long": "enumerated: headers with 12..5000 specs (disjoint single bytes in both orders, with an invalid / unsatisfiable spec at the "
    "very end, in the middle and in front, a byte-adding spec at the very end) and chains of 5..300 overlapping / adjacent / nested / "
    "grouped specs in ascending, descending and strided order; non-trivial as in exh",
    "tuples": "enumerated: every triple over a 36-spec universe (size 5; thorough: sizes 4, 6) and every quadruple over a 12-spec universe (size 4; "
    "thorough: 19 specs, sizes 3, 5, 6), separators alternating; same non-trivial rule",
    "big": "enumerated: positions and suffix lengths of 10..4000 digits (around 2^31, 2^32, 2^53, 2^63, 2^64, 10^18..10^21, 10^40, 10^100, 10^1000, "
    "10^3999, some with low digits that are a position inside the file) x sizes 0..10^30 (around the same powers), alone and next to a valid spec; "
    "size-relative specs (size-1, size, size+1) for the huge sizes; same non-trivial rule",
    "scale": "enumerated: sizes at digit-count boundaries (8..12, 19..21, 99..101, 999..1001) and at 4096..10^12 x every single spec and every pair of "
    "well-formed specs over size-relative anchors (0, 1, 2, 9, 10, 11, size/2, size-2, size-1, size, size+1, 10*size ...); "
    "numbers 0..999 spelled with 0, 1 and 3 leading zeros on either side of the dash (sizes 7, 10, 100, 1000); same non-trivial rule",
    "ows": "enumerated: 2- and 3-spec headers whose commas are surrounded by 0..3 blanks (SP / HTAB), a different separator at each comma; "
    "each spec set is chosen so that losing or misreading one spec changes the outcome; same non-trivial rule",
    "units": "enumerated: a satisfiable range set behind something that is not 'bytes=' (other units, 'bytes' with decoration, no '='), and "
    "'bytes=' followed by text without any digit (no spec at all): must be 400; "
    "non-trivial = header contains a digit-dash pattern (as in text)",
    "rand": "Hypothesis: sizes up to 10^12, 1..12 specs (occasionally 40..200) biased to the file end and powers of ten, permuted "
    "overlapping/adjacent/nested sets, one position in six sets replaced by a 20..400-digit number, 0..3 blanks (SP / HTAB) around the commas, "
    "one set in four with two different separators; same non-trivial rule",
    "text": "arbitrary text after/instead of 'bytes=': structural clause + exception class only; "
    "non-trivial = header contains a digit-dash pattern",
}
ASSUMPTIONS = [
    "denotation clause applied only to grammar-clean headers (bytes=spec(,spec)* with optional blanks around commas); "
    "lenient extraction from other text is judged structurally (tests pin 'bytes=0-10,hello')",
    "a header that is both malformed and unsatisfiable may be rejected either way",
]

parse_range = FileResponseMixin.parse_range


def _relation_labels(specs, n):
    labs = []
    nontrivial = False
    edges = False
    for a, b in specs:
        if a is None:
            if b in (0, n, n + 1):
                edges = True
        else:
            if a == n or (b is not None and a == b + 1) or (b is not None and b == n - 1) or a == n - 1:
                edges = True
    if edges:
        labs.append("edge")
        nontrivial = True
    if len(specs) > 48 and not ref.verdicts(specs, n):
        # long lists: the same relations, found with one sorted sweep instead of all pairs (labels are statistics,
        # the verdict does not depend on them): each interval is compared with the one that reaches furthest so far
        iv = ref.intervals(specs, n)
        rel = set()
        if any(x[0] > y[0] for x, y in zip(iv, iv[1:])):
            rel.add("out-of-order")
        far = None
        for y in sorted(iv):
            if far is not None:
                if y[0] < far[1]:
                    rel.add("nested" if y[1] <= far[1] or y[0] == far[0] else "overlap")
                elif y[0] == far[1]:
                    rel.add("adjacent")
            if far is None or y[1] > far[1]:
                far = y
        if rel:
            nontrivial = True
            labs.extend(sorted(rel))
    elif len(specs) >= 2 and not ref.verdicts(specs, n):
        iv = ref.intervals(specs, n)
        rel = set()
        for (i, x), (j, y) in itertools.combinations(enumerate(iv), 2):
            if x[0] > y[0]:
                rel.add("out-of-order")
            lo, hi = max(x[0], y[0]), min(x[1], y[1])
            if lo < hi:
                if (x[0] <= y[0] and y[1] <= x[1]) or (y[0] <= x[0] and x[1] <= y[1]):
                    rel.add("nested")
                else:
                    rel.add("overlap")
            elif lo == hi:
                rel.add("adjacent")
        if rel:
            nontrivial = True
            labs.extend(sorted(rel))
    return labs, nontrivial


def oracle(case) -> Result:
    h, n = case["h"], case["n"]
    r = Result()
    r.key = (h, n)
    try:
        got = parse_range(h, n)
        outcome = "ok"
    except MalformedRangeHeader as exc:
        outcome = 400
        if exc.status_code != 400:
            r.fail("C03:status-of-malformed", f"MalformedRangeHeader has status {exc.status_code}")
    except RangeNotSatisfiable as exc:
        outcome = 416
        hdrs = {k.lower(): v for k, v in (exc.headers or {}).items()}
        if exc.status_code != 416 or hdrs.get("content-range") != f"*/{n}":
            r.fail("C03:416-content-range", f"416 carries {exc.status_code} {exc.headers!r}, expected */{n}")
    except HTTPException as exc:
        outcome = exc.status_code
        r.fail("C03:wrong-exception:HTTPException", f"{h!r} size {n}: other HTTPException {exc!r}")
    except Exception as exc:  # noqa: BLE001
        r.fail(f"C03:wrong-exception:{type(exc).__name__}", f"{h[:80]!r} size {n}: {type(exc).__name__}: {str(exc)[:200]}")
        r.label("outcome=exception")
        return r
    r.label(f"outcome={outcome}")
    r.note = {"outcome": outcome if outcome != "ok" else [list(x) for x in got]}

    if outcome == "ok":
        probs = ref.structural_problems(got, n)
        for p in probs:
            if "0 <= start < end" in p:
                r.fail("C03:empty-or-out-of-file-range", f"{h!r} size {n} -> {got!r}: {p}")
            elif "strictly after" in p:
                r.fail("C03:not-canonical", f"{h!r} size {n} -> {got!r}: {p}")
            else:
                r.fail("C03:bad-structure", f"{h!r} size {n} -> {got!r}: {p}")

    specs = ref.parse_clean(h)
    if specs is not None:
        r.label(f"specs={min(len(specs), 6)}")
        labs, nt = _relation_labels(specs, n)
        r.label(*labs)
        r.nontrivial = nt
        allowed = ref.verdicts(specs, n)
        if allowed:
            if outcome not in allowed:
                r.fail(
                    f"C03:verdict:expected-{'/'.join(map(str, sorted(allowed)))}-got-{outcome}",
                    f"{h!r} size {n}: statement demands rejection {sorted(allowed)}, got {r.note}",
                )
        else:
            if outcome != "ok":
                r.fail(f"C03:rejected-valid:{outcome}", f"{h!r} size {n}: satisfiable well-formed set rejected with {outcome}")
            else:
                want = ref.runs_by_sweep(specs, n)
                if n <= 64:
                    want2 = ref.runs_by_sets(specs, n)
                    if want != want2:
                        raise core.HarnessError(f"reference resolvers disagree on {h!r} {n}: {want} {want2}")
                if [tuple(x) for x in got] != want:
                    r.fail("C03:wrong-union", f"{h!r} size {n}: got {list(got)!r}, expected {want!r}")
    else:
        r.label("free-text")
        import re as _re

        r.nontrivial = bool(_re.search(r"[0-9]-|-[0-9]", h))
        if not h.startswith("bytes=") and outcome != 400:
            r.fail("C03:unit-not-rejected", f"{h!r}: not a bytes range set but outcome {outcome}")
        elif h.startswith("bytes=") and ("-" not in h or not _re.search(r"\d", h)) and outcome != 400:
            # without a dash, or without any digit (of any script), there is no first-last, first- or -suffix in the text
            r.fail("C03:no-spec-not-rejected", f"{h!r}: no spec at all but outcome {outcome}")
    return r


SUBS = {"exh": oracle, "rand": oracle, "text": oracle, "long": oracle}

# ---------------------------------------------------------------------------------------
# exhaustive small domain


def _universe(maxnum: int):
    nums = range(maxnum + 1)
    u = [f"{a}-{b}" for a in nums for b in nums]
    u += [f"{a}-" for a in nums]
    u += [f"-{s}" for s in nums]
    return u


def exh_shard(rec, k, nshards, maxspecs, maxsize, maxnum):
    u = _universe(maxnum)
    if maxspecs <= 2:
        # zero-padded spellings of the same numbers (single-spec level only, to keep the product small)
        u = u + [f"0{a}-00{b}" for a in range(maxnum + 1) for b in range(maxnum + 1)] + [f"-00{s}" for s in range(maxnum + 1)] + [f"00{a}-" for a in range(maxnum + 1)]
    g = core.guarded(oracle)
    i = 0
    for nspec in range(1, maxspecs + 1):
        for combo in itertools.product(u, repeat=nspec):
            i += 1
            if i % nshards != k:
                continue
            for sep in (",", " , "):
                if nspec == 1 and sep != ",":
                    continue
                h = "bytes=" + sep.join(combo)
                for n in range(maxsize + 1):
                    case = {"h": h, "n": n}
                    res = g(case)
                    rec.count("exh", case, res)
                    new, old = rec.split(res)
                    rec.note_known(old)
                    for f in new:
                        rec.add_violation("exh", f, case)
                        rec.skip.add(f.bucket)


# ---------------------------------------------------------------------------------------
# Hypothesis generators


@st.composite
def rand_case(draw):
    n = draw(
        st.one_of(
            st.integers(0, 20),
            st.sampled_from([99, 100, 101, 999, 1000, 1001, 4623, 65536, 10**6, 10**9 + 7, 10**12]),
            st.integers(0, 10**12),
        )
    )
    anchors = sorted({0, 1, 2, max(n - 2, 0), max(n - 1, 0), n, n + 1, n // 2, n // 2 + 1, 9, 10, 11, 99, 100})
    num = st.one_of(st.sampled_from(anchors), st.integers(0, max(n + 2, 3)), st.integers(0, 30))
    nspec = draw(st.integers(1, 12)) if draw(st.integers(0, 14)) else draw(st.integers(40, 200))
    specs = []
    base = draw(st.lists(num, min_size=2, max_size=6))  # a small pool => overlaps and touches are frequent
    pool = st.one_of(st.sampled_from(base), num, st.sampled_from(base).map(lambda x: x + 1))
    for _ in range(nspec):
        kind = draw(st.sampled_from(["ab", "ab", "ab", "a-", "-s"]))
        if kind == "ab":
            a, b = draw(pool), draw(pool)
            if a > b and draw(st.integers(0, 9)) > 0:
                a, b = b, a
            specs.append(f"{a}-{b}")
        elif kind == "a-":
            specs.append(f"{draw(pool)}-")
        else:
            specs.append(f"-{draw(st.one_of(st.integers(0, 5), pool))}")
    if draw(st.integers(0, 3)) == 0:
        # numbers may be written with leading zeros (1*DIGIT)
        def pad(m):
            return "0" * draw(st.integers(1, 4)) + m.group(0) if draw(st.booleans()) else m.group(0)

        import re as _re

        specs = [_re.sub(r"[0-9]+", pad, sp) for sp in specs]
    if draw(st.integers(0, 5)) == 0:
        # a position far beyond any file (20..400 digits) in one of the specs: first => 416, last => clipped, suffix => 416
        i = draw(st.integers(0, len(specs) - 1))
        huge = str(draw(st.sampled_from([2**63, 2**64, 10**19, 10**20, 10**21, 10**30, 10**400])) + draw(st.integers(0, 20)))
        first = specs[i].partition("-")[0] or "0"
        specs[i] = draw(st.sampled_from([f"{first}-{huge}", f"{first}-{huge}", f"{huge}-", f"{huge}-{huge}", f"-{huge}"]))
    seps = [",", ", ", " ,", " , ", ",\t", ",  ", "  ,", "\t,", " \t, \t", "   ,   "]
    sep = draw(st.sampled_from(seps))
    if len(specs) > 2 and draw(st.integers(0, 3)) == 0:
        # a different separator at every comma (the pattern repeats after 24 specs)
        sep2 = draw(st.sampled_from(seps))
        bits = draw(st.integers(1, 2**24 - 2))
        h = specs[0] + "".join((sep2 if (bits >> (i % 24)) & 1 else sep) + sp for i, sp in enumerate(specs[1:]))
    else:
        h = sep.join(specs)
    return {"h": "bytes=" + h, "n": n}


_frag = st.one_of(
    st.sampled_from(
        ["bytes", "=", "-", ",", " ", "0", "1", "5", "10", "9" * 30, "bytes=", "byte=", "Bytes=", "items=", "--", "-,", ",,", ";", "\t",
         "٣", "３", "a", "=-", "0-0", "1-", "-1", "hello", "\x00", "\n", "e", "+", ".", "9" * 5000]
    ),
    st.text(max_size=3),
)


@st.composite
def text_case(draw):
    n = draw(st.one_of(st.integers(0, 12), st.sampled_from([4623, 10**6])))
    parts = draw(st.lists(_frag, min_size=0, max_size=8))
    h = "".join(parts)
    if draw(st.booleans()):
        h = "bytes=" + h
    return {"h": h, "n": n}



def oracle_atheris(case) -> Result:
    """Replay / triage oracle for inputs found by the Atheris campaign: decode the bytes like the fuzz target does."""
    from fuzz import targets

    inner = targets.CASES["C03"](case["data"])
    res = oracle(inner)
    res.label("atheris")
    return res


SUBS["atheris"] = oracle_atheris

def _orders(specs):
    """The same spec list ascending, descending and in a strided (interleaved) order."""
    k = len(specs)
    yield specs
    yield specs[::-1]
    step = next(st_ for st_ in (7, 11, 13, 17, 19, 23) if k % st_)
    yield [specs[(i * step) % k] for i in range(k)]


def long_cases(quick=True):
    """Headers with many specs (a server-side cap on the number of specs or on the header length must not
    silently drop the tail, reject the set or answer with the whole file; the merge must not depend on the
    interpreter's recursion limit): k disjoint single-byte ranges, the same with an invalid or an unsatisfiable
    spec at the very end / in the middle / in front, and a long redundant prefix followed by one spec that adds
    bytes.  Then chains: many specs that overlap, touch, nest or form groups with gaps, in three orders."""
    for k in (12, 33, 63, 64, 65, 66, 100, 129, 257, 600, 1000, 1023, 1024, 1025, 2000, 2001, 2049, 3000, 4097, 5000):
        n = 4 * k + 10
        specs = [f"{2 * i}-{2 * i}" for i in range(k)]
        yield {"h": "bytes=" + ",".join(specs), "n": n}
        yield {"h": "bytes=" + ", ".join(reversed(specs)), "n": n}
        yield {"h": "bytes=" + ",".join(specs + ["9-3"]), "n": n}
        yield {"h": "bytes=" + ",".join(specs + [f"{n}-"]), "n": n}
        yield {"h": "bytes=" + ",".join(["0-1"] * k + [f"{n - 2}-"]), "n": n}
        yield {"h": "bytes=" + ",".join(["0-1"] * k + ["-1"]), "n": n}
        for bad in ("9-3", f"{n}-", f"{n + 5}-{n + 6}", "-0", f"-{n + 1}"):
            yield {"h": "bytes=" + ",".join(specs[: k // 2] + [bad] + specs[k // 2:]), "n": n}
            yield {"h": "bytes=" + ",".join([bad] + specs), "n": n}
        # the file ends inside the list: every spec from there on is unsatisfiable
        yield {"h": "bytes=" + ",".join(specs), "n": 2 * k - 2}
        yield {"h": "bytes=" + ",".join(specs), "n": 2 * k - 1}
        yield {"h": "bytes=" + ",".join(specs), "n": 0}
    for k in (5, 6, 8, 9, 10, 12, 13, 16, 17, 31, 32, 33, 40, 64, 65, 70, 128, 130, 300):
        shapes = {
            "stairs": [f"{3 * i}-{3 * i + 4}" for i in range(k)],  # each overlaps the next by two bytes: one run
            "touch": [f"{2 * i}-{2 * i + 1}" for i in range(k)],  # each abuts the next: one run
            "gap1": [f"{3 * i}-{3 * i + 1}" for i in range(k)],  # one byte between neighbours: k runs
            "groups": [f"{10 * (i // 5) + (i % 5)}-{10 * (i // 5) + (i % 5) + 2}" for i in range(k)],  # runs of 7 bytes, gaps of 3
            "nested": [f"0-{4 * k}"] + [f"{4 * i + 1}-{4 * i + 2}" for i in range(k - 1)],  # all inside the first
            "nest+": [f"5-{2 * k}"] + [f"{3 * i}-{3 * i + 1}" for i in range(k - 1)],  # a long one over the first two thirds of a gap1 list
            "onion": [f"{i}-{4 * k - i}" for i in range(k)],  # each inside the previous
            "tails": [f"{5 * i}-{5 * i + 1}" for i in range(k - 2)] + [f"{5 * k}-", "-3"],
        }
        for name, specs in shapes.items():
            last = max(int(x) for sp in specs for x in sp.split("-") if x)
            for order in _orders(specs):
                yield {"h": "bytes=" + ",".join(order), "n": last + 7}
            yield {"h": "bytes=" + ", ".join(specs), "n": last + 1}
            # the file ends inside the last specs' first positions: clipped ends
            first_of_last = max(int(sp.split("-")[0]) for sp in specs if sp.split("-")[0])
            yield {"h": "bytes=" + ",".join(specs), "n": first_of_last + 1}


# ---------------------------------------------------------------------------------------
# enumerated companions of the random sub-checks (one sharded pass)


def _u_wellformed(mx, extra=()):
    u = [f"{a}-{b}" for a in range(mx + 1) for b in range(a, mx + 1)]
    return u + list(extra)


def tuples_cases(quick=True):
    """Bugs that need three or four specs to show (merge against the previous spec instead of the accumulated
    range, pairwise single-pass merging, a validity test that looks at the first and last spec only)."""
    u3 = _u_wellformed(5, [f"{a}-" for a in range(6)] + [f"-{s}" for s in range(7)] + ["3-1", "1-0"])
    seps = (",", ", ", " , ", ",\t")
    i = 0
    for n in (5,) if quick else (4, 6):
        for combo in itertools.product(u3, repeat=3):
            i += 1
            yield {"h": "bytes=" + seps[i % 4].join(combo), "n": n}
    if quick:
        u4, sizes = _u_wellformed(3, ["2-", "-2"]), (4,)
    else:
        u4, sizes = _u_wellformed(4, ["1-", "3-", "-1", "-3"]), (3, 5, 6)
    for n in sizes:
        for combo in itertools.product(u4, repeat=4):
            i += 1
            yield {"h": "bytes=" + seps[i % 4].join(combo), "n": n}


_BIG = [
    2**31 - 1, 2**31, 2**32 - 1, 2**32, 2**53 + 1, 2**63 - 1, 2**63, 2**63 + 5, 2**64 - 1, 2**64, 2**64 + 3,
    10**9, 10**10, 10**17 + 1, 10**18, 10**18 + 2, 10**19, 10**20, 10**21, 10**21 + 5, 10**40 + 3, 10**100, 10**1000 + 1, 10**3999,
]
_BIG_SIZES = [0, 1, 7, 1000, 4623, 2**31 - 1, 2**31, 2**32 + 1, 10**12, 10**18 + 3, 2**63 - 1, 2**63, 2**63 + 6, 2**64 + 5, 10**21 + 6, 10**30]


def big_cases(quick=True):
    """Numbers far beyond the file size (a digit-count guard, a digit cap in the pattern, a 32/64-bit mask or clamp
    must not change the verdict: a huge first-byte-pos is 416, a huge last-byte-pos is clipped, a huge suffix is 416)
    and sizes far beyond 10^12."""
    for n in _BIG_SIZES:
        mid = n // 2
        for b in _BIG:
            for sp in (f"{b}-", f"{b}-{b}", f"{b}-{b + 1}", f"0-{b}", f"{mid}-{b}", f"{max(n - 1, 0)}-{b}", f"-{b}", f"{b + 1}-{b}", f"00{b}-", f"0-0{b}"):
                yield {"h": "bytes=" + sp, "n": n}
            yield {"h": f"bytes=0-0,{b}-", "n": n}
            yield {"h": f"bytes={b}-{b + 9}, 0-0", "n": n}
            yield {"h": f"bytes=0-0,2-{b}", "n": n}
            yield {"h": f"bytes={mid}-{b},0-0", "n": n}
            yield {"h": f"bytes=-1,-{b}", "n": n}
            yield {"h": f"bytes=0-{b},{b}-", "n": n}
        if n >= 1000:
            for sp in (
                f"{n - 1}-", f"{n}-", f"{n + 1}-", f"-{n - 1}", f"-{n}", f"-{n + 1}", f"0-{n - 2}", f"0-{n - 1}", f"0-{n}",
                f"{n - 1}-{n - 1}", f"{n - 1}-{n}", f"{n}-{n}", f"{n - 1}-{n - 2}", f"{mid}-{mid}",
                f"{n - 4}-{n - 3},{n - 2}-", f"{n - 5}-{n - 4},{n - 2}-", f"-2,{n - 4}-{n - 3}", f"-2,{n - 5}-{n - 4}",
                f"{mid}-{mid + 1},{mid + 2}-{mid + 3},0-0", f"{mid + 3}-{mid + 5},{mid}-{mid + 1},-1", f"0-{mid},{mid}-", f"{mid}-,0-{mid - 2}",
            ):
                yield {"h": "bytes=" + sp, "n": n}


_SCALE_SIZES = [8, 9, 10, 11, 12, 19, 20, 21, 99, 100, 101, 110, 999, 1000, 1001, 4096, 4623, 65535, 65536, 10**6, 2**31 - 1, 2**31, 2**32, 10**12 + 1]


def scale_cases(quick=True):
    """Sizes and numbers whose decimal spellings differ in length or compare differently as text than as numbers,
    and large sizes with specs a few bytes apart (a tolerance that scales with the size must not coalesce them)."""
    for n in _SCALE_SIZES:
        nums = sorted({0, 1, 2, 3, 8, 9, 10, 11, 19, 20, 99, 100, 101, n // 10, n // 2 - 1, n // 2, n // 2 + 1, n - 3, n - 2, n - 1, n, n + 1, n + 2, 10 * n, 10 * n + 9})
        for a in nums:
            yield {"h": f"bytes={a}-", "n": n}
            yield {"h": f"bytes=-{a}", "n": n}
            for b in nums:
                yield {"h": f"bytes={a}-{b}", "n": n}
        small = sorted({0, 1, 9, 10, n // 2, n - 2, n - 1} if quick else {0, 1, 2, 9, 10, n // 2, n // 2 + 2, n - 3, n - 2, n - 1})
        u = [f"{a}-{b}" for a in small for b in small + [n, 10 * n] if a <= b]
        u += [f"{a}-" for a in small] + [f"-{s}" for s in (1, 2, 10, n - 1, n)]
        for x in u:
            for y in u:
                yield {"h": f"bytes={x},{y}", "n": n}
    # the same number spelled with and without leading zeros, on either side (a comparison of spellings, of digit
    # counts or of stripped text instead of numbers shows here)
    pads = ("", "0", "000")
    for n in (7, 10, 100, 1000):
        nums = (0, 1, 5, 6, 9, 10, 11, 99, 100, 101, 999)
        for a in nums:
            for pa in pads:
                yield {"h": f"bytes={pa}{a}-", "n": n}
                yield {"h": f"bytes=-{pa}{a}", "n": n}
                for b in nums:
                    for pb in pads:
                        yield {"h": f"bytes={pa}{a}-{pb}{b}", "n": n}
                        yield {"h": f"bytes=0-0,{pa}{a}-{pb}{b}", "n": n}


_OWS = ["", " ", "\t", "  ", " \t", "\t ", "\t\t", "   "]
_OWS_SETS = [
    (7, ("0-0", "2-2", "4-4")), (7, ("4-4", "0-0", "2-2")), (7, ("0-1", "2-3", "5-")), (7, ("-1", "0-0", "3-4")), (7, ("1-", "0-0", "-7")),
    (7, ("0-0", "7-", "2-2")), (7, ("7-7", "0-0", "2-2")), (7, ("0-0", "2-2", "9-")), (7, ("0-0", "3-1", "2-2")), (7, ("3-1", "0-0", "2-2")),
    (7, ("0-0", "2-2", "3-1")), (7, ("0-0", "-0", "2-2")), (7, ("0-0", "2-2", "-8")), (7, ("-8", "0-0", "2-2")),
    (1000, ("0-9", "500-509", "990-")), (1000, ("10-19", "20-29", "-10")), (1000, ("0-9", "1000-", "20-29")), (1000, ("0-9", "20-10", "30-39")),
    (7, ("0-0", "2-2")), (7, ("0-1", "2-")), (7, ("2-2", "7-")), (7, ("7-", "2-2")), (7, ("2-2", "3-1")), (7, ("3-1", "2-2")), (7, ("-2", "-0")),
]


def ows_cases(quick=True):
    """Optional whitespace of the list syntax: 0..3 blanks (SP / HTAB in any mix) on either side of every comma,
    and a different separator at each comma of one header."""
    seps = [left + "," + right for left in _OWS for right in _OWS]
    for n, specs in _OWS_SETS:
        if len(specs) == 2:
            for s1 in seps:
                yield {"h": "bytes=" + specs[0] + s1 + specs[1], "n": n}
        else:
            for i, s1 in enumerate(seps):
                # every separator in front, paired with 9 different ones behind (all 64 x 64 pairs in the thorough tier)
                for s2 in (seps if not quick else [seps[(i * 5 + j * 7 + 1) % 64] for j in range(9)]):
                    yield {"h": "bytes=" + specs[0] + s1 + specs[1] + s2 + specs[2], "n": n}


_UNIT_PREFIXES = [
    "", "=", "bytes", "bytes ", "byte=", "bytes =", " bytes=", "bytes\t=", "\tbytes=", "bytes  =", "bytes2=", "bytesx=", "bytes-=", "bytes-range=",
    "kilobytes=", "xbytes=", "0bytes=", "bytes,=", "bytes;=", "bytes.=", "bytes:", "bytes: ", "items=", "none=", "seconds=", "bits=", "octets=",
    "byte-ranges=", "b=", "bytes\x00=", "bytes/=", "\"bytes\"=", "unit=bytes;", "bytes\n=",
]


def units_cases(quick=True):
    """Something that is not 'bytes=' in front of a range set that would be fine for the file: not a bytes range set, 400."""
    for pre in _UNIT_PREFIXES:
        for body in ("0-1", "0-", "-1", "0-0,2-2", "1-1, 3-", "0-99", "5-5", ""):
            for n in (0, 1, 5, 1000):
                yield {"h": pre + body, "n": n}
    for body in ("", "-", "--", "---", "-,-", " - ", "\t-\t", "a-b", ",", ",,", "-,", ",-", "hello", "=", "bytes=-", "- -", "x", "-x", "x-", " ", "*", "-*", "*-"):
        for n in (0, 1, 5, 1000):
            yield {"h": "bytes=" + body, "n": n}


ENUMS = {"tuples": tuples_cases, "big": big_cases, "scale": scale_cases, "ows": ows_cases, "units": units_cases}
for _name in ENUMS:
    SUBS[_name] = oracle


def enum_shard(rec, k, nshards, names):
    quick = rec.tier == "quick"
    g = core.guarded(oracle)
    i = 0
    for name in names:
        for case in ENUMS[name](quick):
            i += 1
            if i % nshards != k:
                continue
            res = g(case)
            rec.count(name, case, res)
            new, old = rec.split(res)
            rec.note_known(old)
            for f in new:
                rec.add_violation(name, f, case)
                rec.skip.add(f.bucket)


def run(rec, only=None):
    quick = rec.tier == "quick"
    core.drive_cases(rec, "long", long_cases(quick), oracle)
    rec.exhaustive["long"] = True
    names = [name for name in ENUMS if only is None or name in only]
    if names:
        core.run_sharded(rec, enum_shard, 16, core.ncpu(), (names,))
    for name in names:
        rec.exhaustive[name] = True
    if only is None or "exh" in only:
        if quick:
            core.run_sharded(rec, exh_shard, 8, min(8, core.ncpu()), (2, 7, 8))
        else:
            core.run_sharded(rec, exh_shard, 64, core.ncpu(), (3, 7, 8))
        rec.exhaustive["exh"] = True
    core.drive_hypothesis(rec, "rand", rand_case(), oracle, 3000 if quick else 60000)
    core.drive_hypothesis(rec, "text", text_case(), oracle, 2000 if quick else 40000, seed_offset=1)
    rec.exhaustive["rand"] = False
    rec.exhaustive["text"] = False
    if (only is None or "atheris" in only) and not quick:
        # coverage-guided second engine (Atheris / libFuzzer), same oracle inside the target
        from fuzz import driver

        driver.campaign(rec, "C03", oracle_atheris, runs=300000, seeds=[b'\x05\x02\x00\x01\x04\x00\x00', b'\x02\x00'], max_total_time=240, jobs=4)
