"""C05 - Every response obeys the server-gateway protocol."""
from __future__ import annotations

import asyncio
import os
import re
import threading

from hypothesis import strategies as st

from harness import core, gateways as gw, gen, recipes
from harness.core import Result
from harness.recipes import ProducerError

LEVEL = "fault_enumeration"
RULES = {
    "responses": "Hypothesis: response recipes (all 8 response classes; status codes incl. unassigned ones; header sets, header operations, "
    "cookies; str/bytes/JSON content; iterables with empty chunks; files with non-ASCII paths and download names, also names composed of non-ASCII text, ASCII control characters and header "
    "syntax characters; Range requests incl. rejected ones; GET/HEAD; wsgi.file_wrapper offered in the environ for one request in three, whatever the response class) x ENUMERATED fault points: ASGI - client disconnect after the k-th send for every k up to the length of "
    "the fault-free run, with send() swallowing or raising OSError afterwards; WSGI - the server closes the iterable after k items for "
    "every k (quick tier: a run longer than 48 events keeps its first 17, last 16 and every 8th fault point in between); streaming producers raising at a generated step. evaluations counts gateway runs; non-trivial = a fault point strictly "
    "inside the event sequence, or a fault-free run of a streaming/file/error-path recipe",
    "filegrid": "enumerated product for FileResponse: (size, chunk) pairs x every Range shape (single, suffix, open, multi, unsatisfiable, malformed, empty, positions of more than "
    "4300 digits) x GET/HEAD x If-Range absent/stale x the server's optional file handling (ASGI: zero-copy extension, WSGI: wsgi.file_wrapper in the environ) offered / not offered / "
    "other extensions offered without it, each with every close/disconnect prefix as above; "
    "hostile download names; files whose name ON DISK holds control characters, quotes or blanks (served as octet-stream without download name); names that hold BOTH text outside "
    "ASCII (Latin-1, CJK, combining mark, compatibility characters that NFKD folds to ASCII, NEL / LS) AND an ASCII control character: each of 0x01-0x1f and 0x7f x 4 positions "
    "(before / between / away from / after the non-ASCII text) x 6 texts x Range answered 200 / 206 / 416, as download_name argument and as name on disk (quick tier: every control "
    "character x every position, texts and Range rotating)",
    "offers": "enumerated: the environ holds wsgi.file_wrapper (wsgiref.util.FileWrapper; PEP 3333 optional file handling, offered by every production server) and the scope the zero-copy "
    "extension, for EVERY response class (they must use the offer correctly or ignore it) x GET/HEAD, directly / behind baize's middleware / returned by a view under request_response; "
    "files of 0 / 2 / 1 / 4 / 3 blocks x Range (none, single, suffix, multi, unsatisfiable, malformed) x If-Range (none, stale ETag, stale date) x GET/HEAD; all close/disconnect "
    "prefixes.  Violation = an ITEM of the iterable that is not bytes (an application that RETURNS the wrapper as its iterable is iterated like any other: the wrapper's blocks are bytes)",
    "statuses": "exhaustive: every three-digit status code 100..999 (every 7th plus class edges in the quick tier) through the empty, plain (with and without content), html, json, redirect, stream and "
    "event-stream response on both interfaces; the codes that never carry a body (1xx, 204, 205, 304) are always included",
    "sse_idle": "enumerated: event streams whose producer stays silent for several ping intervals (before / between / after events) x 4 charsets, all close and disconnect prefixes",
    "sse_fields": "enumerated: event streams with events that have no data field (event / id / retry only, no key at all, mixed with ordinary events) x charsets, all prefixes",
    "iterables": "enumerated: StreamResponse and SendEventResponse over producers that are NOT generators - a list (WSGI), an iterator object without close()/aclose(), "
    "an object whose __iter__/__aiter__ makes a fresh generator - x chunk lists x every producer raise point, each with all close/disconnect prefixes; plus ASGI streams whose "
    "producer is suspended (sleeping) when the disconnect arrives",
    "redirects": "enumerated: redirect targets that contain each C0 control character, DEL, C1 controls, blank, quote, backslash and angle brackets (in the path and in query/fragment), "
    "handed over as str and as URL object, on both interfaces with all prefixes",
    "cookie_attrs": "enumerated: cookie attributes with control characters - CR, LF, CRLF + 'Set-Cookie: evil=1', NUL, TAB, VT, ESC, DEL at the start / in the middle / at the end of "
    "path, domain and samesite - through set_cookie and delete_cookie on each of the 8 response classes: either the call raises ValueError (nothing emitted; labelled) or the "
    "response is emitted and every header pair passes the control-character clauses of both gateways, with all close/disconnect prefixes; benign attributes (path '/a b', "
    "domain 'example.com', samesite strict/none/lax, secure, httponly) must be accepted and go through the whole oracle",
    "sizes": "enumerated: large bodies around every power-of-two block size a maintainer might slice by - k*B+d for B in {4096, 8192, 16384, 65536, 262144}, k in {1,2,3}, d in {-1,0,+1} - "
    "for every response class that takes content: plain and html (str and bytes content), json, stream (one chunk), event stream (one event of that many bytes), file (default and 64 KiB chunk "
    "size) x GET/HEAD on both interfaces (quick tier: HEAD only for file and plain); the usual oracle with all close/disconnect prefixes, and on the fault-free GET run a Content-Length header, "
    "if present, must equal the number of body bytes emitted",
    "filefaults": "enumerated fault injection for FileResponse: the file is removed / truncated to nothing / truncated to half / extended AFTER the response object was built and "
    "before it is called x Range shape (none, single, multi) x GET/HEAD x zero-copy extension / wsgi.file_wrapper offered; the emitted events must be a legal prefix (an exception may escape)",
    "reuse": "enumerated: ONE response object (it is an application) serves two requests one after the other.  First request: fault-free, or client disconnect after the k-th send "
    "(every k, send() swallowing / raising afterwards), or the server closing the WSGI iterable after k items (every k), or the producer raising at a scripted step.  Second request to the "
    "SAME object: client stays connected, producer does not raise -> its events must be a complete legal sequence (ASGI: start, >= 1 body events, only the last with more_body false, "
    "nothing afterwards; WSGI: start_response exactly once before the first body bytes, only bytes), judged by the same gateway models; bodies are NOT compared (a one-shot generator is "
    "exhausted by then).  Recipes: all 8 response classes x second request same / other method; stream and event stream over one-shot generators, lists, iterator objects and objects "
    "whose __iter__/__aiter__ makes a fresh generator (scripted failure in the first iteration only) x item lists x raise points; a producer suspended at the disconnect; an idle event "
    "stream; files x Range / HEAD / zero-copy for first and second request; responses behind baize's middleware.  non-trivial = at least one second request after a first one that "
    "ended by disconnect / early close",
    "reuse_mix": "Hypothesis: the recipes and requests of [responses] through the two-request oracle of [reuse], the second request sometimes with another method / Range",
}
ASSUMPTIONS = [
    "constructor arguments that cannot be rendered at all (NaN in JSON, text the chosen charset cannot encode, header text above U+00FF) are caller errors and not generated",
    "a user who asks for a hop-by-hop header gets it; generated header names are non-hop-by-hop tokens",
    "under an injected fault only the emitted prefix is judged; an exception may escape",
    "a file whose name on disk is not valid UTF-8 (surrogate escapes in the str path) is not generated: FileResponse refuses it at construction with UnicodeEncodeError; nothing is "
    "emitted, so that is not a violation of the statement (observation only)",
    "a cookie attribute (path, domain, samesite) with a control character may be refused at the set_cookie / delete_cookie call with ValueError; if it is accepted the emitted header is judged",
]

_POISONED = {"wsgi-stream": False}


def with_watchdog(fn, timeout=20.0):
    """Run fn() in a daemon thread; ('ok', value) | ('exc', e) | ('hang', None)."""
    box = {}

    def target():
        try:
            box["v"] = fn()
        except BaseException as exc:  # noqa: BLE001
            box["e"] = exc

    t = threading.Thread(target=target, daemon=True)
    t.start()
    t.join(timeout)
    if t.is_alive():
        return "hang", None
    if "e" in box:
        return "exc", box["e"]
    return "ok", box["v"]


# ------------------------------------------------------------------------------------------
# producers that are not generators (recipe key "iterable"): what an application may hand to StreamResponse /
# SendEventResponse according to their signatures (Iterable / AsyncIterable), e.g. a list of chunks, a cursor
# object, a class with `async def __aiter__`


def _item(it):
    return dict(it) if isinstance(it, dict) else it  # the event-stream encoder pops keys from the event


class _Steps:
    """Shared step logic, same semantics as recipes._sync_producer: raise at step raise_at (or at the end)."""

    def __init__(self, items, raise_at):
        self.items = list(items)
        self.raise_at = raise_at
        self.i = 0
        self.dead = False

    def step(self):
        """-> ('item', x) | ('stop', None); raises ProducerError at the scripted step (once)."""
        if self.dead:
            return "stop", None
        i = self.i
        if i < len(self.items):
            if self.raise_at is not None and i == self.raise_at:
                self.dead = True
                raise ProducerError(f"producer failed at step {i}")
            self.i += 1
            return "item", _item(self.items[i])
        self.dead = True
        if self.raise_at is not None and self.raise_at >= len(self.items):
            raise ProducerError("producer failed at the end")
        return "stop", None


class SyncIterator(_Steps):
    """An iterator object: __iter__/__next__ only - no close(), send() or throw()."""

    def __iter__(self):
        return self

    def __next__(self):
        what, x = self.step()
        if what == "stop":
            raise StopIteration
        return x


class AsyncIterator(_Steps):
    """An asynchronous iterator object: __aiter__/__anext__ only - no aclose(), asend() or athrow()."""

    def __aiter__(self):
        return self

    async def __anext__(self):
        await asyncio.sleep(0)
        what, x = self.step()
        if what == "stop":
            raise StopAsyncIteration
        return x


class _Reiterable:
    """raise_runs=n: the scripted failure happens in the first n iterations only (recipe key "raise_runs"; a source that is
    iterated once per request and fails for one request, not for the next); None: in every iteration."""

    def __init__(self, items, raise_at, raise_runs=None):
        self.items, self.raise_at, self.raise_runs = list(items), raise_at, raise_runs
        self.runs = 0

    def _raise_at(self):
        self.runs += 1
        return self.raise_at if self.raise_runs is None or self.runs <= self.raise_runs else None


class SyncReiterable(_Reiterable):
    """An object whose __iter__ is a generator function (the object itself has no close())."""

    def __iter__(self):
        return recipes._sync_producer(self.items, self._raise_at(), None)


class AsyncReiterable(_Reiterable):
    """An object with `async def __aiter__`-style iteration (the object itself has no aclose())."""

    def __aiter__(self):
        return recipes._async_producer(self.items, self._raise_at(), None)


def make_iterable(kind, side, items, raise_at, raise_runs=None):
    if kind == "list" and side == "wsgi" and raise_at is None:
        return [_item(it) for it in items]
    if kind == "reiterable":
        return (SyncReiterable if side == "wsgi" else AsyncReiterable)(items, raise_at, raise_runs)
    if kind in ("list", "iterator"):  # there is no asynchronous list: the ASGI side of "list" is an iterator object
        return (SyncIterator if side == "wsgi" else AsyncIterator)(items, raise_at)
    raise core.HarnessError(f"iterable kind {kind!r}")


class _Built:
    def __init__(self, app):
        self.app = app


class CookieRejected(Exception):
    """set_cookie / delete_cookie refused its arguments with ValueError (nothing of that cookie is ever emitted)."""


_ATTR_CTL = re.compile(r"[\x00-\x1f\x7f]")  # the harness's own notion of a hostile attribute (C0 controls and DEL)
_COOKIE_ATTRS = ("path", "domain", "samesite", "secure", "httponly")


def cookie_ops_hostile(ops):
    return any(isinstance(c.get(k), str) and _ATTR_CTL.search(c[k]) for c in ops for k in ("path", "domain", "samesite"))


def _apply_cookie_ops(resp, ops):
    """recipe key "cookie_ops": cookies with attributes, through set_cookie AND delete_cookie (the shared recipe
    interpreter calls delete_cookie with the name only)."""
    for c in ops:
        kw = {k: c[k] for k in _COOKIE_ATTRS if k in c}
        try:
            if c.get("op") == "delete":
                resp.delete_cookie(c["name"], **kw)
            else:
                resp.set_cookie(c["name"], c.get("value", ""), **kw)
        except ValueError as exc:
            raise CookieRejected(f"{c!r}: {exc}") from exc


def expand_big(recipe):
    """recipe key "big" = {"size": n, "as": "str" | "bytes"}: a body of exactly n bytes, kept symbolic in the case (replay files
    and evidence samples stay small) and written out here."""
    big = recipe.get("big")
    if not big:
        return recipe
    n, r = big["size"], dict(recipe)
    kind = r["kind"]
    if kind in ("plain", "html"):
        r["content"] = "a" * n if big.get("as", "str") == "str" else b"\xe9" * n
    elif kind == "json":
        r["content"] = "a" * max(0, n - 2)  # rendered with its two quotes
    elif kind == "stream":
        r["chunks"] = [b"\x00" * n]
    elif kind == "sse":
        r["events"] = [{"data": "a" * max(0, n - 8)}]  # b"data: " + data + b"\n\n"
    elif kind == "file":
        r["size"] = n
    else:
        raise core.HarnessError(f"big content for kind {kind!r}")
    return r


_BIGFILES = {}


def big_file(n):
    """One file of n bytes per process (the shared recipe interpreter re-derives and re-hashes the content of its file on
    every build, which is fine for 200 bytes and takes seconds per case for 768 KiB)."""
    key = (os.getpid(), n)
    if key not in _BIGFILES:
        from harness import tmpfiles

        path = os.path.join(tmpfiles.workdir("verif_c05_big_"), f"big{n}.bin")
        with open(path, "wb") as fh:
            fh.write((bytes(range(256)) * (n // 256 + 1))[:n])
        _BIGFILES[key] = path
    return _BIGFILES[key]


def build_big_file(recipe, side):
    M = recipes.W if side == "wsgi" else recipes.A
    kw = {}
    if recipe.get("chunk"):
        kw["chunk_size"] = recipe["chunk"]
    if recipe.get("headers"):
        kw["headers"] = dict(recipe["headers"])
    for k in ("content_type", "download_name"):
        if recipe.get(k):
            kw[k] = recipe[k]
    return recipes._apply_common(M.FileResponse(big_file(recipe["size"]), **kw), recipe)


def build(recipe, side):
    recipe = expand_big(recipe)
    if recipe.get("bigfile"):
        resp = build_big_file(recipe, side)
        _apply_cookie_ops(resp, recipe.get("cookie_ops", ()))
        return _Built(resp)
    if recipe.get("iterable") or recipe.get("cookie_ops"):
        resp = recipes.build_response(recipe, side)  # response objects are applications themselves
        if recipe.get("iterable"):
            items = recipe["chunks"] if recipe["kind"] == "stream" else recipe["events"]
            resp.iterable = make_iterable(recipe["iterable"], side, items, recipe.get("raise_at"), recipe.get("raise_runs"))
        _apply_cookie_ops(resp, recipe.get("cookie_ops", ()))
        return _Built(resp)
    if recipe.get("kind") == "raw":
        app = dict(recipe["raw"], app="raw")
    elif recipe.get("via_view"):  # a view function under request_response returns the response
        app = {"app": "view", "response": {k: v for k, v in recipe.items() if k not in ("wrap", "via_view")}}
    else:
        app = {"app": "response", "response": {k: v for k, v in recipe.items() if k != "wrap"}}
    for kind in recipe.get("wrap", []):  # the answer travels through baize's own middleware layer(s): NextResponse is a response class too
        app = {"app": "middleware", "kind": kind, "inner": app}
    return recipes.build_app(app, side)


async def _settle():
    for _ in range(5):
        await asyncio.sleep(0)


def request_for(case):
    rq = case.get("request", {})
    headers = []
    if rq.get("range") is not None:
        headers.append(["Range", rq["range"]])
    if rq.get("if_range") is not None:
        headers.append(["If-Range", rq["if_range"]])
    ext = {}
    if rq.get("zerocopy"):
        ext["http.response.zerocopysend"] = {}
    for name in rq.get("extensions", ()):  # what servers offer besides (or instead of) zero-copy send
        ext[name] = {}
    out = gw.areq(method=rq.get("method", "GET"), path="/r", headers=headers, extensions=ext or None)
    if rq.get("file_wrapper"):
        out["file_wrapper"] = True  # the environ offers the optional wsgi.file_wrapper of PEP 3333 (the WSGI counterpart of zero-copy send)
    if rq.get("protocol"):
        out["protocol"] = rq["protocol"]  # SERVER_PROTOCOL of the environ / http_version of the scope
    return out


def wsgi_run(case, recipe, close_after=None):
    b = build(recipe, "wsgi")
    streaming = recipe["kind"] in ("sse",)
    if streaming:
        if _POISONED["wsgi-stream"]:
            return None
        kind, val = with_watchdog(lambda: gw.call_wsgi(b.app, request_for(case), close_after=close_after))
        if kind == "hang":
            _POISONED["wsgi-stream"] = True
            return "hang"
        if kind == "exc":
            raise val
        return val
    return gw.call_wsgi(b.app, request_for(case), close_after=close_after)


def asgi_run(case, recipe, **kw):
    b = build(recipe, "asgi")
    return gw.call_asgi(b.app, request_for(case), **kw)


_THIN = {"on": False}  # set by run() in the quick tier; replays and the thorough tier enumerate every prefix


def fault_points(n):
    """Prefix lengths 0..n at which the server closes / the client disconnects.  Every one of them - except that the quick
    tier thins out the middle of a long run (a 200-byte file sent in 1-byte chunks is 200 equal steps; with two ASGI runs
    per point that one case costs 80 000 events): the first 17, the last 16 and every 8th point in between remain."""
    if not _THIN["on"] or n <= 48:
        return list(range(0, n + 1))
    return sorted(set(range(0, 17)) | set(range(17, n - 15, 8)) | set(range(n - 15, n + 1)))


def oracle(case) -> Result:
    r = Result()
    recipe = case["response"]
    kind = recipe["kind"]
    ctx = f"recipe {recipe!r} request {case.get('request')!r}"
    runs = 0
    inner_fault = False
    # ---------------- WSGI ----------------
    base = dict(recipe)
    base.pop("raise_at", None)
    if recipe.get("hostile_ctor"):
        # an argument that cannot be sent (CR/LF/NUL in a download name): refusing it at construction is
        # fine; if it is accepted, everything below applies to what gets emitted
        probe = {k: v for k, v in base.items() if k != "cookie_ops"}  # the cookie calls are judged on their own below
        try:
            build(probe, "wsgi")
            build(probe, "asgi")
        except ValueError:
            r.label("rejected-at-construction", f"kind={kind}")
            r.nontrivial = True
            return r
    rejected = set()
    if recipe.get("cookie_ops"):
        # cookie attributes (path, domain, samesite) are copied into the header line as they are.  Two outcomes are
        # legal for a hostile one: the call refuses it with ValueError (nothing is emitted), or the response goes out and
        # then the clauses below apply to every header pair.  A benign attribute must be accepted.
        hostile = cookie_ops_hostile(recipe["cookie_ops"])
        for side in ("wsgi", "asgi"):
            try:
                build(base, side)
            except CookieRejected as exc:
                rejected.add(side)
                if not hostile:
                    r.fail(f"C05:{side}:benign-cookie-attribute-rejected", f"{ctx}: {exc}")
        r.label("cookie-attributes=" + ("hostile" if hostile else "benign"))
        r.label("cookie-call=" + ("raised-ValueError" if len(rejected) == 2 else "accepted" if not rejected else "raised-on-" + min(rejected)))
        if len(rejected) == 2:
            r.nontrivial = hostile
            return r
    run = None if "wsgi" in rejected else wsgi_run(case, base)
    runs += 1
    if run == "hang":
        r.fail("C05:wsgi:hang", f"{ctx}: fault-free WSGI run did not return within 20 s")
        run = None
    n_items = 0
    if run is not None:
        n_items = run.items
        if run.exc is not None:
            r.fail(f"C05:wsgi:fault-free-raised:{type(run.exc).__name__}", f"{ctx}: {run.exc!r}")
        for code, text in run.errors:
            r.fail(f"C05:wsgi:{code}", f"{ctx}: {text}")
        if run.exc is None and run.start_calls != 1:
            r.fail("C05:wsgi:start-count", f"{ctx}: start_response called {run.start_calls} times")
        r.label(f"wsgi-status={run.status_code}")
        # server closes the iterable after k items
        for k in fault_points(n_items):
            fr = wsgi_run(case, base, close_after=k)
            runs += 1
            if fr == "hang":
                r.fail("C05:wsgi:hang", f"{ctx}: close after {k} items did not return within 20 s")
                break
            if fr is None:
                break
            if 0 < k < n_items:
                inner_fault = True
            for code, text in fr.errors:
                r.fail(f"C05:wsgi:prefix:{code}", f"{ctx}: closed after {k} items: {text}")
            if fr.exc is not None and not isinstance(fr.exc, ProducerError):
                r.fail(f"C05:wsgi:close-raised:{type(fr.exc).__name__}", f"{ctx}: closed after {k} items: {fr.exc!r}")
    if "raise_at" in recipe and "wsgi" not in rejected:
        fr = wsgi_run(case, recipe)
        runs += 1
        inner_fault = True
        if fr == "hang":
            r.fail("C05:wsgi:hang", f"{ctx}: producer raising at {recipe['raise_at']}: no return within 20 s")
        elif fr is not None:
            for code, text in fr.errors:
                if code != "no-start":
                    r.fail(f"C05:wsgi:prefix:{code}", f"{ctx}: producer raised at step {recipe['raise_at']}: {text}")
            if fr.exc is not None and not isinstance(fr.exc, ProducerError):
                r.fail(f"C05:wsgi:producer-fault-raised:{type(fr.exc).__name__}", f"{ctx}: {fr.exc!r}")
    # ---------------- ASGI ----------------
    if "asgi" not in rejected:
        arun = asgi_run(case, base)
        runs += 1
        if arun.exc is not None:
            r.fail(f"C05:asgi:fault-free-raised:{type(arun.exc).__name__}", f"{ctx}: {arun.exc!r}; events so far {[e.get('type') for e in arun.events]}")
        for code, text in arun.errors:
            r.fail(f"C05:asgi:{code}", f"{ctx}: {text}")
        if arun.exc is None and not arun.complete:
            r.fail("C05:asgi:incomplete", f"{ctx}: events {[(e.get('type'), e.get('more_body')) for e in arun.events]}")
        if arun.exc is None and arun.complete:
            bodies = [e for e in arun.events if e.get("type") != "http.response.start"]
            if not bodies:
                r.fail("C05:asgi:no-body-event", ctx)
        r.label(f"asgi-status={arun.status_code}", f"kind={kind}")
        n_sends = arun.sends
        for k in fault_points(n_sends):
            for raising in (False, True):
                fr = asgi_run(case, base, disconnect_after_sends=k, send_raises_after_disconnect=raising)
                runs += 1
                if 0 < k < n_sends:
                    inner_fault = True
                for code, text in fr.errors:
                    r.fail(f"C05:asgi:prefix:{code}", f"{ctx}: disconnect after {k} sends (send {'raises' if raising else 'swallows'}): {text}")
                if fr.exc is not None and not (raising and isinstance(fr.exc, OSError)):
                    r.fail(
                        f"C05:asgi:disconnect-raised:{type(fr.exc).__name__}",
                        f"{ctx}: disconnect after {k} sends (send {'raises' if raising else 'swallows'}): {fr.exc!r}",
                    )
        if "raise_at" in recipe:
            fr = asgi_run(case, recipe)
            runs += 1
            for code, text in fr.errors:
                r.fail(f"C05:asgi:prefix:{code}", f"{ctx}: producer raised at step {recipe['raise_at']}: {text}")
            if fr.exc is not None and not isinstance(fr.exc, ProducerError):
                r.fail(f"C05:asgi:producer-fault-raised:{type(fr.exc).__name__}", f"{ctx}: {fr.exc!r}")
    if recipe.get("iterable"):
        # a generator made by the producer object's own __aiter__ is not baize's to close; when it is dropped the event
        # loop's asynchronous-generator finaliser closes it in a task of its own: let that task run
        gw.run_sync(_settle())
    left = gw.leftover_tasks()
    if left:
        r.fail("C05:asgi:task-left", f"{ctx}: {left[:2]!r}")
    r.weight = runs
    r.nontrivial = inner_fault or kind in ("stream", "sse", "file") or bool(recipe.get("cookie_ops"))
    if recipe.get("iterable"):
        r.label(f"producer={recipe['iterable']}")
    if case.get("request", {}).get("extensions"):
        r.label("other-extensions-offered")
    if case.get("request", {}).get("file_wrapper"):
        r.label("wsgi.file_wrapper-offered")
    if kind == "file":
        shown = recipe.get("download_name") or recipe.get("name") or ""
        ctl, wide = bool(_ATTR_CTL.search(shown)), not shown.isascii()
        if ctl or wide:
            r.label("file-name=" + ("non-ASCII+control" if ctl and wide else "control" if ctl else "non-ASCII"))
    if inner_fault:
        r.label("fault-inside-sequence")
    if "raise_at" in recipe:
        r.label("producer-raises")
    if case.get("request", {}).get("range") is not None:
        r.label("range-request")
    return r


def oracle_status(case) -> Result:
    r = Result()
    status = case["status"]
    kinds = (
        ("empty", {"kind": "empty", "status": status}),
        ("plain", {"kind": "plain", "content": "x", "status": status}),
        ("plain-empty", {"kind": "plain", "content": "", "status": status}),
        ("redirect", {"kind": "redirect", "url": "/n", "status": status}),
        ("html", {"kind": "html", "content": "<p>x</p>", "status": status}),
        ("json", {"kind": "json", "content": {"a": 1}, "status": status}),
        ("stream", {"kind": "stream", "chunks": [b"x"], "status": status}),
        ("sse", {"kind": "sse", "events": [{"data": "x"}], "status": status}),
    )
    for kind, recipe in kinds:
        w = wsgi_run({}, recipe)
        if w == "hang":
            r.fail("C05:wsgi:hang", f"status {status} {kind}: no return within 20 s")
            w = None
        a = gw.call_asgi(build(recipe, "asgi").app, gw.areq())
        for side, run in (("wsgi", w), ("asgi", a)):
            if run is None:
                continue
            if run.exc is not None:
                r.fail(f"C05:{side}:status-raised:{type(run.exc).__name__}", f"status {status} {kind}: {run.exc!r}")
            for code, text in run.errors:
                r.fail(f"C05:{side}:{code}", f"status {status} {kind}: {text}")
            if run.status_code != status:
                r.fail(f"C05:{side}:status-value", f"status {status} {kind}: emitted {run.status_code}")
            if run.exc is None and side == "asgi" and not run.complete:
                r.fail("C05:asgi:incomplete", f"status {status} {kind}: events {[(e.get('type'), e.get('more_body')) for e in run.events]}")
            if run.exc is None and side == "wsgi" and run.start_calls != 1:
                r.fail("C05:wsgi:start-count", f"status {status} {kind}: start_response called {run.start_calls} times")
    r.weight = 2 * len(kinds)
    from http import HTTPStatus

    r.nontrivial = status not in {int(s) for s in HTTPStatus}
    r.label("unassigned" if r.nontrivial else "assigned")
    return r


def _apply_file_fault(path, fault, size):
    if fault == "vanish":
        os.unlink(path)
    elif fault == "truncate0":
        os.truncate(path, 0)
    elif fault == "truncate-half":
        os.truncate(path, size // 2)
    elif fault == "grow":
        with open(path, "ab") as fh:
            fh.write(b"+" * (size + 3))
    else:
        raise core.HarnessError(f"file fault {fault!r}")


def _faulted_file_run(case, side, **kw):
    """Build the FileResponse (it stats the file), then damage the file, then call the response; the file is restored."""
    recipe = case["response"]
    resp = recipes.build_response(recipe, side)
    path = resp.filepath
    try:
        _apply_file_fault(path, case["fault"], recipe["size"])
        if side == "wsgi":
            return gw.call_wsgi(resp, request_for(case), **kw)
        return gw.call_asgi(resp, request_for(case), **kw)
    finally:
        with open(path, "wb") as fh:
            fh.write(recipes.pattern(recipe["size"]))


def oracle_filefault(case) -> Result:
    """The body producer of a file response is the file: it fails (or runs dry) after the response object was built.
    Whatever is emitted must be a legal prefix; without an exception it must be a complete legal sequence."""
    r = Result()
    ctx = f"file {case['fault']} after construction, recipe {case['response']!r} request {case['request']!r}"
    runs = 0
    w = _faulted_file_run(case, "wsgi")
    runs += 1
    for code, text in w.errors:
        r.fail(f"C05:wsgi:filefault:{code}", f"{ctx}: {text}")
    if w.exc is None and w.start_calls != 1:
        r.fail("C05:wsgi:filefault:start-count", f"{ctx}: start_response called {w.start_calls} times")
    r.label(f"wsgi-outcome={'raised:' + type(w.exc).__name__ if w.exc is not None else w.status_code}")
    for k in range(0, w.items + 1):
        fr = _faulted_file_run(case, "wsgi", close_after=k)
        runs += 1
        for code, text in fr.errors:
            r.fail(f"C05:wsgi:filefault:prefix:{code}", f"{ctx}: closed after {k} items: {text}")
    a = _faulted_file_run(case, "asgi")
    runs += 1
    for code, text in a.errors:
        r.fail(f"C05:asgi:filefault:{code}", f"{ctx}: {text}")
    if a.exc is None and not a.complete:
        r.fail("C05:asgi:filefault:incomplete", f"{ctx}: events {[(e.get('type'), e.get('more_body')) for e in a.events]}")
    r.label(f"asgi-outcome={'raised:' + type(a.exc).__name__ if a.exc is not None else a.status_code}")
    for k in range(0, a.sends + 1):
        for raising in (False, True):
            fr = _faulted_file_run(case, "asgi", disconnect_after_sends=k, send_raises_after_disconnect=raising)
            runs += 1
            for code, text in fr.errors:
                r.fail(f"C05:asgi:filefault:prefix:{code}", f"{ctx}: disconnect after {k} sends (send {'raises' if raising else 'swallows'}): {text}")
    left = gw.leftover_tasks()
    if left:
        r.fail("C05:asgi:task-left", f"{ctx}: {left[:2]!r}")
    r.weight = runs
    r.nontrivial = True
    r.label(f"file-fault={case['fault']}")
    return r


def oracle_sizes(case) -> Result:
    """The usual oracle, plus: on the fault-free GET run a Content-Length header, if present, equals the body bytes emitted."""
    r = oracle(case)
    recipe = case["response"]
    ctx = f"recipe {recipe!r} request {case.get('request')!r}"
    if case.get("request", {}).get("method", "GET") != "HEAD":
        w = wsgi_run(case, recipe)
        a = asgi_run(case, recipe)
        r.weight += 2
        for side, run in (("wsgi", w), ("asgi", a)):
            if run is None or run == "hang" or run.exc is not None:
                continue  # reported by the usual oracle
            declared = run.get("content-length")
            sent = sum(len(c) for c in run.chunks)
            if declared is not None and declared.strip() != str(sent):
                r.fail(f"C05:{side}:content-length-vs-body", f"{ctx}: Content-Length {declared!r}, {sent} body bytes in {len(run.chunks)} pieces")
    r.nontrivial = True
    r.label(f"body-size={recipe['big']['size'] if 'big' in recipe else recipe.get('size')}")
    return r


# ------------------------------------------------------------------------------------------
# one response object, two requests.  A response object IS an application (callable with (environ, start_response) /
# (scope, receive, send)); nothing in the statement limits it to one call: "for every response type, constructor
# arguments and request".  The first request runs with a fault (client gone after k events / iterable closed after k
# items / producer raising) or without; the SECOND request to the same object has a connected client, and whatever the
# first one left behind on the object, what the second one gets must be a complete legal sequence.  Bodies are not
# compared: a one-shot producer is exhausted by then and an empty body is as legal as any other.


def _second_request(case):
    return request_for({"request": case.get("request2", case.get("request", {}))})


def asgi_pair(case, recipe, **first_kw):
    app = build(recipe, "asgi").app
    first = gw.call_asgi(app, request_for(case), **first_kw)
    return first, gw.call_asgi(app, _second_request(case))


def wsgi_pair(case, recipe, close_after=None):
    """(first run, second run) on one object | 'hang' | None (event streams are skipped once one of them hung)."""
    app = build(recipe, "wsgi").app

    def both():
        first = gw.call_wsgi(app, request_for(case), close_after=close_after)
        return first, gw.call_wsgi(app, _second_request(case))

    if recipe["kind"] != "sse":
        return both()
    if _POISONED["wsgi-stream"]:
        return None
    kind, val = with_watchdog(both)
    if kind == "hang":
        _POISONED["wsgi-stream"] = True
        return "hang"
    if kind == "exc":
        raise val
    return val


def _judge_second(r, side, run, ctx):
    """The second call had no fault of its own: complete and legal.  (Should the producer raise in this call as well - an
    iterator object that reaches its scripted failure only now - the prefix clause is all there is.)"""
    for code, text in run.errors:
        r.fail(f"C05:{side}:reuse:{code}", f"{ctx}: {text}")
    if run.exc is not None:
        if isinstance(run.exc, ProducerError):
            r.label("second-call=producer-raised")
        else:
            r.fail(f"C05:{side}:reuse:raised:{type(run.exc).__name__}", f"{ctx}: {run.exc!r}")
        return
    if side == "wsgi":
        if run.start_calls != 1:
            r.fail("C05:wsgi:reuse:start-count", f"{ctx}: start_response called {run.start_calls} times")
        r.label(f"second-body={'empty' if not run.body else 'non-empty'}")
        return
    shape = [(e.get("type"), e.get("more_body")) for e in run.events]
    if not run.complete:
        r.fail("C05:asgi:reuse:incomplete", f"{ctx}: events {shape}")
    elif not [e for e in run.events if e.get("type") != "http.response.start"]:
        r.fail("C05:asgi:reuse:no-body-event", f"{ctx}: events {shape}")
    r.label(f"second-body={'empty' if not run.body else 'non-empty'}")


def oracle_reuse(case) -> Result:
    r = Result()
    recipe = case["response"]
    kind = recipe["kind"]
    ctx = f"ONE response object, two requests: recipe {recipe!r} request {case.get('request')!r} second request {case.get('request2', 'the same')!r}"
    base = dict(recipe)
    base.pop("raise_at", None)
    for side in ("wsgi", "asgi"):
        try:
            build({k: v for k, v in base.items()}, side)
        except (ValueError, CookieRejected):
            # refused at construction / at the cookie call: there is no object to call (judged by the other sub-checks)
            r.label("rejected-at-construction")
            return r
    runs = 0
    after_disconnect = 0
    # ---------------- WSGI ----------------
    pair = wsgi_pair(case, base)
    runs += 2
    if pair == "hang":
        r.fail("C05:wsgi:hang", f"{ctx}: two fault-free WSGI runs did not return within 20 s")
        pair = None
    if pair is not None:
        first, second = pair
        _judge_second(r, "wsgi", second, f"{ctx}: after a fault-free first request")
        n_items = first.items
        for k in fault_points(n_items):
            pair = wsgi_pair(case, base, close_after=k)
            runs += 2
            if pair == "hang":
                r.fail("C05:wsgi:hang", f"{ctx}: first request closed after {k} items: no return within 20 s")
                break
            if pair is None:
                break
            if k < n_items:
                after_disconnect += 1
            _judge_second(r, "wsgi", pair[1], f"{ctx}: after a first request that the server closed after {k} of {n_items} items")
        if "raise_at" in recipe:
            pair = wsgi_pair(case, recipe)
            runs += 2
            if pair == "hang":
                r.fail("C05:wsgi:hang", f"{ctx}: producer raising at {recipe['raise_at']} in the first request: no return within 20 s")
            elif pair is not None:
                _judge_second(r, "wsgi", pair[1], f"{ctx}: after a first request whose producer raised at step {recipe['raise_at']} ({pair[0].exc!r})")
    # ---------------- ASGI ----------------
    first, second = asgi_pair(case, base)
    runs += 2
    _judge_second(r, "asgi", second, f"{ctx}: after a fault-free first request")
    n_sends = first.sends
    for k in fault_points(n_sends):
        for raising in (False, True):
            first, second = asgi_pair(case, base, disconnect_after_sends=k, send_raises_after_disconnect=raising)
            runs += 2
            if k < n_sends:
                after_disconnect += 1
            _judge_second(
                r, "asgi", second,
                f"{ctx}: after a first request whose client disconnected after {k} of {n_sends} sends (send {'raised' if raising else 'swallowed'} afterwards; "
                f"first request emitted {[(e.get('type'), e.get('more_body')) for e in first.events]}, raised {first.exc!r})",
            )
    if "raise_at" in recipe:
        first, second = asgi_pair(case, recipe)
        runs += 2
        _judge_second(r, "asgi", second, f"{ctx}: after a first request whose producer raised at step {recipe['raise_at']} ({first.exc!r})")
    if recipe.get("iterable"):
        gw.run_sync(_settle())
    left = gw.leftover_tasks()
    if left:
        r.fail("C05:asgi:task-left", f"{ctx}: {left[:2]!r}")
    r.weight = runs
    r.nontrivial = after_disconnect > 0
    r.label(f"kind={kind}", f"producer={recipe.get('iterable') or ('generator' if kind in ('stream', 'sse') else 'none')}")
    if after_disconnect:
        r.label("second-request-after-disconnect")
    if "raise_at" in recipe:
        r.label("second-request-after-producer-failure")
    if "request2" in case:
        r.label("second-request-differs")
    if recipe.get("wrap"):
        r.label("behind-middleware")
    return r


def reuse_cases(quick):
    chunk_lists = ([], [b"a"], [b"a", b"", b"bc"])
    event_lists = ([], [{"data": "x"}], [{"data": "a\nb", "id": "1"}, {"event": "e"}, {"data": "é"}])
    get, head = {"method": "GET"}, {"method": "HEAD"}
    # every response class, the second request like the first and with the other method
    for recipe in _KIND_RECIPES + ({"kind": "plain", "content": ""}, {"kind": "empty", "status": 204}, {"kind": "redirect", "url": "/n", "status": 301}):
        if recipe["kind"] == "file":
            continue
        for rq, rq2 in ((get, None), (get, head), (head, get)):
            case = {"response": dict(recipe), "request": dict(rq)}
            if rq2 is not None:
                case["request2"] = dict(rq2)
            yield case
    # streaming responses over one-shot generators (exhausted or closed by the first request) ...
    for kind, key, lists in (("stream", "chunks", chunk_lists), ("sse", "events", event_lists)):
        for items in lists:
            for raise_at in [None] + list(range(len(items) + 1)):
                recipe = {"kind": kind, key: [_item(x) for x in items]}
                if raise_at is not None:
                    recipe["raise_at"] = raise_at
                yield {"response": recipe, "request": dict(get)}
    # ... and over sources that can be iterated again (a list, an object whose __iter__/__aiter__ makes a fresh generator;
    # its scripted failure hits the first request only) or that go on where the first request stopped (an iterator object)
    for it in ("reiterable", "list", "iterator"):
        for kind, key, lists in (("stream", "chunks", chunk_lists), ("sse", "events", event_lists)):
            for items in lists:
                for raise_at in [None] + list(range(len(items) + 1)):
                    if quick and it != "reiterable" and raise_at is not None and 0 < raise_at < len(items):
                        continue
                    recipe = {"kind": kind, key: [_item(x) for x in items], "iterable": it}
                    if raise_at is not None:
                        recipe["raise_at"], recipe["raise_runs"] = raise_at, 1
                    yield {"response": recipe, "request": dict(get)}
    # a producer that is suspended when the first client goes away; an idle event stream (pings)
    yield {"response": {"kind": "stream", "chunks": [b"a", b"", b"bc"], "delays": [0.004, 0, 0.004]}, "request": dict(get)}
    yield {"response": {"kind": "sse", "events": [{"data": "x"}], "delays": [0.025], "ping_interval": 0.01}, "request": dict(get)}
    # files: the second request with the same and with another Range / method / zero-copy offer
    file_requests = [{"method": "GET", "range": None}, {"method": "GET", "range": "bytes=1-3"}, {"method": "GET", "range": "bytes=0-0,2-3"},
                     {"method": "GET", "range": "bytes=9999-"}, {"method": "HEAD", "range": None}, {"method": "GET", "range": None, "zerocopy": True, "file_wrapper": True}]
    for size, chunk in ((5, 3), (0, 3)) if quick else ((5, 3), (0, 3), (1, 1), (12, 4096), (64, 7)):
        for rq in file_requests:
            for rq2 in [None] + [x for x in file_requests if x is not rq and (not quick or x["range"] in (None, "bytes=0-0,2-3"))]:
                case = {"response": {"kind": "file", "name": "f.txt", "size": size, "chunk": chunk}, "request": dict(rq)}
                if rq2 is not None:
                    case["request2"] = dict(rq2)
                yield case
    # the object sits behind baize's middleware: every request gets a fresh NextResponse over the SAME inner response
    for wrap in (["identity"], ["add", "identity"]):
        for recipe in ({"kind": "plain", "content": "hello"}, {"kind": "stream", "chunks": [b"a", b"", b"bc"]}, {"kind": "sse", "events": [{"data": "x"}, {"data": "y"}]},
                       {"kind": "file", "name": "f.txt", "size": 5, "chunk": 3}, {"kind": "stream", "chunks": [b"a", b"b"], "raise_at": 1}):
            yield {"response": dict(recipe, wrap=wrap), "request": dict(get)}


@st.composite
def reuse_case(draw):
    case = draw(response_case())
    recipe = case["response"]
    if recipe.get("iterable") == "reiterable" and "raise_at" in recipe:
        recipe["raise_runs"] = 1  # the second request's producer does not fail
    if draw(st.integers(0, 2)) == 0:
        rq2 = dict(case["request"])
        rq2["method"] = draw(st.sampled_from(["GET", "HEAD", "POST"]))
        if recipe["kind"] == "file":
            rq2["range"] = draw(st.sampled_from(gen.RANGE_HEADERS))
            rq2.pop("if_range", None)
        case["request2"] = rq2
    return case


BLOCK_SIZES = (4096, 8192, 16384, 65536, 262144)
BIG_SIZES =sorted({k * b + d for b in BLOCK_SIZES for k in (1, 2, 3) for d in (-1, 0, 1)})


def size_cases(quick):
    for n in BIG_SIZES:
        variants = [
            {"kind": "plain", "big": {"size": n, "as": "str"}},
            {"kind": "plain", "big": {"size": n, "as": "bytes"}},
            {"kind": "html", "big": {"size": n, "as": "str"}},
            {"kind": "html", "big": {"size": n, "as": "bytes"}},
            {"kind": "json", "big": {"size": n}},
            {"kind": "stream", "big": {"size": n}},
            {"kind": "sse", "big": {"size": n}},
            {"kind": "file", "bigfile": True, "size": n},  # default chunk size (256 KiB)
            {"kind": "file", "bigfile": True, "size": n, "chunk": 65536},
        ]
        for recipe in variants:
            for method in ("GET", "HEAD"):
                if quick and method == "HEAD" and not (recipe["kind"] == "file" or recipe.get("big", {}).get("as") == "str" and recipe["kind"] == "plain"):
                    continue
                yield {"response": dict(recipe), "request": {"method": method}}


SUBS = {
    "sizes": oracle_sizes,
    "responses": oracle,
    "wrapped": oracle,
    "protocols": oracle,
    "statuses": oracle_status,
    "filegrid": oracle,
    "offers": oracle,
    "sse_idle": oracle,
    "sse_fields": oracle,
    "iterables": oracle,
    "redirects": oracle,
    "filefaults": oracle_filefault,
    "cookie_attrs": oracle,
    "reuse": oracle_reuse,
    "reuse_mix": oracle_reuse,
}


_KIND_RECIPES = (
    {"kind": "empty"},
    {"kind": "plain", "content": "x"},
    {"kind": "html", "content": "<p>x</p>"},
    {"kind": "json", "content": {"a": 1}},
    {"kind": "redirect", "url": "/n"},
    {"kind": "stream", "chunks": [b"a"]},
    {"kind": "sse", "events": [{"data": "x"}]},
    {"kind": "file", "name": "f.txt", "size": 5, "chunk": 3},
)
HOSTILE_ATTR_TEXT = ["\r", "\n", "\r\nSet-Cookie: evil=1", "\x00", "\t", "\x0b", "\x1b", "\x7f"]
_ATTR_BASE = {"path": "/app", "domain": "example.com", "samesite": "lax"}


def hostile_attr(attr, text, where):
    base = _ATTR_BASE[attr]
    return {"start": text + base, "middle": base[:2] + text + base[2:], "end": base + text}[where]


def cookie_attr_cases():
    for recipe in _KIND_RECIPES:
        for op in ("set", "delete"):
            for attr in ("path", "domain", "samesite"):
                for text in HOSTILE_ATTR_TEXT:
                    for where in ("start", "middle", "end"):
                        c = {"op": op, "name": "sid", "value": "v", attr: hostile_attr(attr, text, where)}
                        yield {"response": dict(recipe, cookie_ops=[c]), "request": {"method": "GET"}}
            # benign attributes: must be accepted, and the response is judged like any other
            for kw in (
                {"path": "/a b"},
                {"domain": "example.com", "samesite": "strict"},
                {"path": "/", "domain": "example.com", "samesite": "none", "httponly": True},
                {"samesite": "lax", "secure": True, "path": "/x;y=z,w"},
            ):
                yield {"response": dict(recipe, cookie_ops=[dict({"op": op, "name": "sid", "value": "v"}, **kw)]), "request": {"method": "GET"}}
        # a hostile cookie next to a benign one, and the same attribute text twice
        two = [{"op": "set", "name": "a", "value": "1", "path": "/ok"}, {"op": "delete", "name": "b", "domain": "ex\nample.com"}]
        yield {"response": dict(recipe, cookie_ops=two), "request": {"method": "GET"}}


def sse_field_cases():
    """Events without a data field are legitimate (`ServerSentEvent` is a total=False TypedDict): an event name, an id
    or a retry hint alone, or nothing at all."""
    lists = (
        [{"event": "e"}],
        [{"id": "1"}],
        [{"retry": 5}],
        [{}],
        [{"data": "x"}, {}, {"id": "2"}],
        [{"event": "e", "id": "1", "retry": 0}, {"data": "é"}],
    )
    for charset in (None, "latin-1"):
        for events in lists:
            recipe = {"kind": "sse", "events": [dict(e) for e in events]}
            if charset:
                recipe["charset"] = charset
            yield {"response": recipe, "request": {"method": "GET"}}


def iterable_cases(quick):
    chunk_lists = ([], [b"a"], [b"a", b"", b"bc"])
    event_lists = ([], [{"data": "x"}], [{"data": "a\nb", "id": "1"}, {"event": "e"}, {"data": "é"}])
    for it in ("list", "iterator", "reiterable"):
        for kind, key, lists in (("stream", "chunks", chunk_lists), ("sse", "events", event_lists)):
            for items in lists:
                for raise_at in [None] + list(range(len(items) + 1)):
                    if quick and raise_at is not None and 0 < raise_at < len(items) - 1:
                        continue
                    recipe = {"kind": kind, key: [_item(x) for x in items], "iterable": it}
                    if raise_at is not None:
                        recipe["raise_at"] = raise_at
                    yield {"response": recipe, "request": {"method": "GET"}}
    # ASGI producers that are suspended when the client goes away (the WSGI side of these recipes does not sleep)
    for chunks, delays in (([b"a", b"", b"bc"], [0.004, 0, 0.004]), ([b"a"], [0.004]), ([b"a", b"b"], [0, 0.004])):
        for raise_at in (None, len(chunks)):
            recipe = {"kind": "stream", "chunks": list(chunks), "delays": list(delays)}
            if raise_at is not None:
                recipe["raise_at"] = raise_at
            yield {"response": recipe, "request": {"method": "GET"}}


_REDIRECT_CHARS = [chr(c) for c in range(0x00, 0x21)] + ["\x7f", "\x80", "\x85", "\x9f", "\xa0", '"', "\\", "<", ">", "^", "`", "{", "|", "}"]


def redirect_cases(quick):
    for ch in _REDIRECT_CHARS:
        for shape in ("/a{c}b", "https://example.org/p?q={c}1#f{c}") if not quick or ord(ch) < 0x21 or ch == "\x7f" else ("/a{c}b",):
            for as_object in (False, True):
                recipe = {"kind": "redirect", "url": shape.replace("{c}", ch)}
                if as_object:
                    recipe["url_object"] = True
                yield {"response": recipe, "request": {"method": "GET"}}


def filefault_cases(quick):
    for fault in ("vanish", "truncate0", "truncate-half", "grow"):
        for size, chunk in ((5, 3), (8, 4)) if quick else ((5, 3), (8, 4), (1, 1), (64, 7)):
            for rng in (None, "bytes=1-3", "bytes=0-0,2-3"):
                for method in ("GET", "HEAD"):
                    for zc in (False, True):
                        # with zero-copy send the SERVER reads the file: an announced (offset, count) beyond the end of a file
                        # that shrank meanwhile is the file's fault, not a protocol error of the application -> zero-copy only for
                        # the file that is gone.  wsgi.file_wrapper: the server's wrapper hands on whatever the file holds by
                        # then, bytes all the same -> offered for every fault
                        rq = {"method": method, "range": rng, "zerocopy": zc and fault == "vanish", "file_wrapper": zc}
                        yield {"response": {"kind": "file", "name": "volatile.bin", "size": size, "chunk": chunk}, "request": rq, "fault": fault}


def wrapped_cases():
    """Responses that reach the gateway through baize.{wsgi,asgi}.middleware (what is emitted then is the NextResponse that
    relays status, header lines - Set-Cookie lines separately - and body of the inner application)."""
    cookies = [{"name": "sid", "value": "a b"}, {"name": "t", "value": "caf\xe9;x"}, {"name": "gone", "delete": True}]
    inner = [
        {"kind": "plain", "content": "hello", "cookies": cookies, "headers": {"x-inner": "1"}},
        {"kind": "json", "content": {"a": 1}, "cookies": cookies[:1], "status": 201},
        {"kind": "redirect", "url": "/n\xe9xt", "cookies": cookies},
        {"kind": "empty", "status": 204, "cookies": cookies[:2]},
        {"kind": "stream", "chunks": [b"a", b"", b"bc"], "cookies": cookies[:1]},
        {"kind": "sse", "events": [{"data": "x"}, {"data": "y", "id": "1"}], "cookies": cookies[:1]},
        {"kind": "file", "name": "f.txt", "size": 5, "chunk": 3, "cookies": cookies},
        {"kind": "stream", "chunks": [b"a", b"b"], "raise_at": 1, "cookies": cookies[:1]},
    ]
    raw_headers = [
        [["Content-Type", "text/plain"], ["Set-Cookie", "a=1; Path=/"], ["Set-Cookie", "b=2; HttpOnly"]],
        [["Set-Cookie", "name=caf\xe9; Path=/"], ["X-Latin", "d\xe9j\xe0 vu"], ["Set-Cookie", "u=\xfc"]],
        [["Content-Type", "text/plain"], ["Vary", "Accept"], ["Vary", "Cookie"]],
        [],
    ]
    for wrap in (["identity"], ["identity", "identity"], ["add"], ["identity", "replace"]):
        for recipe in inner:
            for method in ("GET", "HEAD"):
                yield {"response": dict(recipe, wrap=wrap), "request": {"method": method}}
        for hs in raw_headers:
            for chunks, returns in (([b"hello", b"world"], "list"), ([], "list"), ([b"x"], "generator"), ([b"", b"y"], "iter")):
                raw = {"status": "200 OK", "headers": hs, "chunks": chunks, "returns": returns, "raises": None}
                yield {"response": {"kind": "raw", "raw": raw, "wrap": wrap}, "request": {"method": "GET"}}


def protocol_cases():
    """The protocol version of the request (HTTP/1.0 has no chunked coding, HTTP/2 no Connection header at all) is the server's
    business: whatever it is, the application must not start emitting hop-by-hop headers or change the shape of its answer."""
    recipes_ = [
        {"kind": "plain", "content": "hello"}, {"kind": "empty", "status": 204}, {"kind": "json", "content": [1, 2]},
        {"kind": "stream", "chunks": [b"a", b"bc"]}, {"kind": "stream", "chunks": []}, {"kind": "sse", "events": [{"data": "x"}]},
        {"kind": "file", "name": "f.txt", "size": 5, "chunk": 3}, {"kind": "redirect", "url": "/n"},
        {"kind": "stream", "chunks": [b"a", b"b"], "wrap": ["identity"]}, {"kind": "plain", "content": "x", "wrap": ["identity"]},
        {"kind": "stream", "chunks": [b"a", b"b"], "raise_at": 1},
    ]
    for protocol in ("HTTP/1.0", "HTTP/0.9", "HTTP/2", "HTTP/3", "HTTP/1.1"):
        for recipe in recipes_:
            for method in ("GET", "HEAD"):
                rq = {"method": method, "protocol": protocol}
                if recipe["kind"] == "file" and method == "GET":
                    for rng in (None, "bytes=0-1", "bytes=0-0,2-3"):
                        yield {"response": dict(recipe), "request": dict(rq, range=rng)}
                else:
                    yield {"response": dict(recipe), "request": rq}


def offer_cases(quick):
    """The environ of a real server (gunicorn, uWSGI, mod_wsgi, waitress, wsgiref's handlers) holds the optional key
    wsgi.file_wrapper (PEP 3333, "Optional Platform-Specific File Handling"); an environ built by hand does not.  An
    application may hand its file to the wrapper and RETURN the result as its iterable - the server model iterates that like any
    other iterable and sees the wrapper's blocks, which are bytes - or ignore the offer; every item the server gets is bytes
    either way.  All response classes (directly and behind baize's middleware / request_response, which pass the environ on), files
    of several block counts x Range / If-Range / HEAD.  (The ASGI runs of these cases see the zero-copy extension instead.)"""
    others = [r for r in _KIND_RECIPES if r["kind"] != "file"] + [
        {"kind": "plain", "content": ""}, {"kind": "empty", "status": 204}, {"kind": "redirect", "url": "/n", "status": 301}, {"kind": "stream", "chunks": []},
        {"kind": "stream", "chunks": [b"a", b"", b"bc"]}, {"kind": "stream", "chunks": [b"a", b"b"], "raise_at": 1}, {"kind": "stream", "chunks": [b"a", b"b"], "iterable": "list"},
        {"kind": "sse", "events": []}, {"kind": "sse", "events": [{"data": "x"}, {"id": "1"}], "raise_at": 2},
    ]
    for recipe in others:
        for method in ("GET", "HEAD"):
            for wrap in (None, ["identity"]):
                if wrap and recipe.get("iterable"):
                    continue  # producer objects are put on the response object itself (see build)
                yield {"response": dict(recipe, wrap=wrap) if wrap else dict(recipe), "request": {"method": method, "file_wrapper": True, "zerocopy": True}}
    files = [{"size": 0, "chunk": 3}, {"size": 5, "chunk": 3}, {"size": 12, "chunk": 4096}, {"size": 200, "chunk": 64}, {"size": 8193, "bigfile": True}, {"size": 65536 * 2 + 1, "bigfile": True, "chunk": 65536}]
    for f in files:
        for rng in (None, "bytes=1-3", "bytes=-2", "bytes=0-0,2-3", "bytes=9999-", "bogus"):
            for if_range in (None, '"stale-etag"', "Wed, 21 Oct 2015 07:28:00 GMT"):
                if if_range is not None and rng is None:
                    continue
                for method in ("GET", "HEAD"):
                    for wrap in (None, ["identity"]) if not f.get("bigfile") else (None,):
                        if quick and wrap and (if_range is not None or rng in ("bytes=-2", "bogus")):
                            continue
                        recipe = dict({"kind": "file"}, **f) if f.get("bigfile") else dict({"kind": "file", "name": "f.txt"}, **f)
                        if wrap:
                            recipe["wrap"] = wrap
                        rq = {"method": method, "range": rng, "file_wrapper": True, "zerocopy": True}
                        if if_range is not None:
                            rq["if_range"] = if_range
                        yield {"response": recipe, "request": rq}
    # the response comes out of a view function (request_response hands the environ on to the response it got)
    for recipe in ({"kind": "file", "name": "f.txt", "size": 5, "chunk": 3}, {"kind": "file", "name": "\xe9.bin", "size": 200, "chunk": 64}, {"kind": "plain", "content": "x"}):
        for rng in (None, "bytes=1-3"):
            for method in ("GET", "HEAD"):
                yield {"response": dict(recipe, via_view=True), "request": {"method": method, "range": rng, "file_wrapper": True, "zerocopy": True}}


def sse_idle_cases():
    """Event streams whose producer stays silent for several ping intervals (before the first event, between
    events, before the end): the keep-alive pings are body items like any other."""
    for charset in (None, "utf-8", "latin-1", "gbk"):
        for events, delays in (([{"data": "x"}], [0.04]), ([{"data": "x"}, {"data": "é", "id": "1"}], [0, 0.04]), ([], []), ([{"data": "a\nb", "event": "e"}], [0.025])):
            recipe = {"kind": "sse", "events": events, "delays": delays, "ping_interval": 0.01}
            if charset:
                recipe["charset"] = charset
            yield {"response": recipe, "request": {"method": "GET"}}


@st.composite
def response_case(draw):
    recipe = draw(gen.response_recipes(faults=True))
    rq = {"method": draw(st.sampled_from(["GET", "GET", "HEAD", "POST"]))}
    if recipe["kind"] == "file":
        rq["range"] = draw(st.sampled_from(gen.RANGE_HEADERS))
        if draw(st.integers(0, 2)) == 0:
            rq["if_range"] = draw(st.sampled_from(['"stale-etag"', "Wed, 21 Oct 2015 07:28:00 GMT", "garbage", "", '"caf\xe9"', "\xff"]))
        if draw(st.integers(0, 3)) == 0:
            rq["zerocopy"] = True
        if draw(st.integers(0, 7)) == 0:
            recipe["download_name"] = draw(st.one_of(st.sampled_from(["a\r\nSet-Cookie: x=1", "a\nb.txt", "nul\x00.bin", "cr\r.txt", "t\tab.txt", "del\x7f.txt"]), mixed_names))
            recipe["hostile_ctor"] = True
        elif draw(st.integers(0, 7)) == 0:
            recipe["name"] = draw(st.one_of(st.sampled_from(DISK_NAMES), mixed_names))
            recipe.pop("download_name", None)
        if not rq.get("zerocopy") and draw(st.integers(0, 3)) == 0:
            rq["extensions"] = draw(st.sampled_from([["http.response.push"], ["http.response.debug", "tls"], ["http.response.trailers"]]))
    elif recipe["kind"] in ("stream", "sse"):
        if draw(st.integers(0, 3)) == 0:
            recipe["iterable"] = draw(st.sampled_from(["list", "iterator", "reiterable"]))
        if recipe["kind"] == "sse" and recipe["events"] and draw(st.integers(0, 3)) == 0:
            i = draw(st.integers(0, len(recipe["events"]) - 1))
            recipe["events"][i] = draw(st.sampled_from([{}, {"event": "e"}, {"id": "7"}, {"retry": 100}]))
    elif recipe["kind"] == "redirect" and draw(st.integers(0, 5)) == 0:
        ch = draw(st.sampled_from(_REDIRECT_CHARS))
        recipe["url"] = draw(st.sampled_from(["/a{c}b", "{c}", "//h/{c}?{c}#{c}", "/é{c}"])).replace("{c}", ch)
    if recipe["kind"] in ("plain", "html", "json", "stream", "sse") and not recipe.get("iterable") and "raise_at" not in recipe and draw(st.integers(0, 23)) == 0:
        recipe["big"] = {"size": draw(st.sampled_from(BIG_SIZES)), "as": draw(st.sampled_from(["str", "bytes"]))}
        recipe.pop("charset", None)  # the written-out content is ASCII / raw bytes; any charset would do, utf-8 keeps the byte count
    elif recipe["kind"] == "file" and not recipe.get("hostile_ctor") and draw(st.integers(0, 23)) == 0:
        recipe["size"] = draw(st.sampled_from(BIG_SIZES))
        recipe["bigfile"] = True  # served from a file of the check's own (its name on disk is big<n>.bin)
        recipe.pop("name", None)
        recipe["chunk"] = draw(st.sampled_from([None, 65536]))  # at most a dozen events: every fault point stays affordable
        if recipe["chunk"] is None:
            del recipe["chunk"]
    if draw(st.integers(0, 7)) == 0:
        ops = []
        for _ in range(draw(st.integers(1, 2))):
            c = {"op": draw(st.sampled_from(["set", "set", "delete"])), "name": draw(st.sampled_from(["sid", "k.1", "theme"])), "value": "v"}
            for attr in draw(st.lists(st.sampled_from(["path", "domain", "samesite"]), min_size=1, max_size=3, unique=True)):
                if draw(st.booleans()):
                    c[attr] = hostile_attr(attr, draw(st.sampled_from(HOSTILE_ATTR_TEXT)), draw(st.sampled_from(["start", "middle", "end"])))
                else:
                    c[attr] = draw(st.sampled_from({"path": ["/", "/a b", "/app"], "domain": ["example.com", "a.example.org"], "samesite": ["strict", "lax", "none"]}[attr]))
            ops.append(c)
        recipe["cookie_ops"] = ops
    if draw(st.integers(0, 2)) == 0:
        rq["file_wrapper"] = True  # whatever the response class: the offer is there to be used correctly or to be ignored
    return {"response": recipe, "request": rq}


# names a file can have on disk (POSIX allows everything but "/" and NUL); they end in .bin, so the file is served as
# application/octet-stream and - without a download name - its own name goes into Content-Disposition
# Not generated: a name that is not valid UTF-8 (os.fsdecode gives lone surrogates, e.g. "\udcff.bin").  FileResponse(path) raises
# UnicodeEncodeError at construction (quote() of the surrogate) on both interfaces: nothing is emitted, so not a violation of the
# statement; observation only.
DISK_NAMES = ["esc\x1b.bin", "nl\nx.bin", "cr\rx.bin", "del\x7f.bin", "tab\t.bin", "vt\x0b.bin", 'quo"te.bin', "semi;x.bin", "sp ace.bin", "é.bin", "back\\slash.bin", "nel\x85.bin", "ls\u2028.bin"]
# Names that mix the two character classes a header value cannot carry as they are: text outside ASCII (Latin-1 letters, CJK,
# a combining mark, compatibility characters that NFKD folds to ASCII, C1 / Unicode line separators) and every ASCII
# control character, the control character before / between / away from / after the non-ASCII text.
NAME_LETTERS = ["\xe9", "\u6587\u4ef6", "e\u0301", "\ufb01\uff21", "\xff\x85", "\u2028\u03a9"]
NAME_CONTROLS = [chr(c) for c in range(0x01, 0x20)] + ["\x7f"]  # NUL: not in a name on disk; as an argument it is in the fixed lists
NAME_SHAPES = ["{c}{l}.bin", "{l}{c}{l}.bin", "a{c}b{l}.bin", "{l}.bin{c}"]
_NAME_RANGES = (None, "bytes=0-1", "bytes=9-")


def mixed_name(letter, ctl, shape):
    return shape.replace("{c}", ctl).replace("{l}", letter)


def mixed_name_cases(quick):
    """(download name | name on disk) x control character x shape x non-ASCII text x Range (answered 200 / 206 / 416) x
    wsgi.file_wrapper + zero-copy offered or not.  Quick tier: every control character in every shape as download name and in
    two shapes on disk, the non-ASCII text, the Range and the offers rotating (every text meets every shape)."""
    for ci, ctl in enumerate(NAME_CONTROLS):
        for si, shape in enumerate(NAME_SHAPES):
            for li, letter in enumerate(NAME_LETTERS):
                for ri, rng in enumerate(_NAME_RANGES):
                    for on_disk in (False, True):
                        if quick and (li != (ci + si) % len(NAME_LETTERS) or ri != (ci + li) % 3 or on_disk and si % 2 != ci % 2):
                            continue
                        offered = (ci + si + ri) % 2 == 1
                        name = mixed_name(letter, ctl, shape)
                        recipe = {"kind": "file", "name": name if on_disk else "f.txt", "size": 5, "chunk": 3}
                        if not on_disk:
                            recipe["download_name"] = name
                            recipe["hostile_ctor"] = True  # LF / CR in an argument: refusing it at construction is fine
                        yield {"response": recipe, "request": {"method": "GET", "range": rng, "zerocopy": offered, "file_wrapper": offered}}


_name_piece = st.one_of(st.sampled_from(NAME_LETTERS), st.sampled_from(NAME_CONTROLS), st.sampled_from(["a", "b.", " ", '"', ";", "%", "\\"]))
mixed_names = st.lists(_name_piece, min_size=1, max_size=5).map(lambda parts: "".join(parts) + ".bin")

HUGE_RANGES = ["bytes=0-" + "9" * 4400, "bytes=" + "1" * 4400 + "-", "bytes=-" + "9" * 4400, "bytes=0-0," + "7" * 5000 + "-"]


def file_grid(quick):
    """Deterministic product for the file response: every Range shape x method x If-Range x zero-copy
    extension over a few (size, chunk) pairs; each case still gets all its close/disconnect prefixes."""
    shapes = [(0, 3), (1, 1), (5, 1), (5, 3), (12, 4096)] + ([] if quick else [(64, 3), (200, 64), (200, 1)])
    for size, chunk in shapes:
        for rng in gen.RANGE_HEADERS[1:] + ["bytes=0-0,2-2,4-4", "bytes=4-,0-1"]:
            for method in ("GET", "HEAD"):
                for if_range in (None, '"stale-etag"', '"caf\xe9"'):
                    if if_range is not None and rng is None:
                        continue
                    for zc in (False, True):
                        # the optional file handling of the two interfaces - ASGI: the zero-copy send extension in the scope, WSGI:
                        # wsgi.file_wrapper in the environ.  Each interface sees only its own offer, so the two are walked together
                        rq = {"method": method, "range": rng, "zerocopy": zc, "file_wrapper": zc}
                        if if_range is not None:
                            rq["if_range"] = if_range
                        yield {"response": {"kind": "file", "name": "f.txt", "size": size, "chunk": chunk}, "request": rq}
    for dn in ("a\r\nSet-Cookie: x=1", "a\nb.txt", "nul\x00.bin", "cr\r.txt", "t\tab.txt", "del\x7f.txt", "ok.txt", "sp ace.txt", 'quo"te.txt', "semi;colon.txt", "é.txt"):
        for rng in (None, "bytes=0-1", "bytes=9-"):
            yield {"response": {"kind": "file", "name": "f.txt", "size": 5, "chunk": 3, "download_name": dn, "hostile_ctor": True}, "request": {"method": "GET", "range": rng}}
    for name in DISK_NAMES:
        for rng in (None, "bytes=0-1", "bytes=9-"):
            yield {"response": {"kind": "file", "name": name, "size": 5, "chunk": 3}, "request": {"method": "GET", "range": rng}}
    yield from mixed_name_cases(quick)
    # servers that offer extensions, but not zero-copy send (HTTP/2 push, trailers, debug, TLS information)
    for exts in (["http.response.push"], ["http.response.debug", "tls"], ["http.response.trailers", "http.response.pathsend"]):
        for size, chunk in ((0, 3), (5, 3), (12, 4096)):
            for rng in (None, "bytes=1-3", "bytes=0-0,2-3", "bytes=9999-"):
                for method in ("GET", "HEAD"):
                    yield {"response": {"kind": "file", "name": "f.txt", "size": size, "chunk": chunk}, "request": {"method": method, "range": rng, "extensions": exts}}
    # positions longer than int() converts (CPython >= 3.11: 4300 digits)
    for rng in HUGE_RANGES:
        for method in ("GET", "HEAD"):
            for zc in (False, True):
                yield {"response": {"kind": "file", "name": "f.txt", "size": 5, "chunk": 3}, "request": {"method": method, "range": rng, "zerocopy": zc, "file_wrapper": zc}}


def run(rec, only=None):
    quick = rec.tier == "quick"
    _THIN["on"] = quick
    codes = sorted(set(range(100, 1000, 7 if quick else 1)) | {100, 101, 103, 199, 204, 205, 206, 299, 304, 418, 499, 599, 600, 601, 699, 700, 777, 899, 900, 999})
    core.drive_cases(rec, "statuses", ({"status": s} for s in codes), oracle_status)
    rec.exhaustive["statuses"] = not quick
    core.drive_cases(rec, "filegrid", file_grid(quick), oracle)
    rec.exhaustive["filegrid"] = True
    core.drive_cases(rec, "offers", offer_cases(quick), oracle)
    rec.exhaustive["offers"] = not quick
    core.drive_cases(rec, "protocols", protocol_cases(), oracle)
    rec.exhaustive["protocols"] = True
    core.drive_cases(rec, "wrapped", wrapped_cases(), oracle)
    rec.exhaustive["wrapped"] = True
    core.drive_cases(rec, "sse_idle", sse_idle_cases(), oracle)
    rec.exhaustive["sse_idle"] = True
    core.drive_cases(rec, "sse_fields", sse_field_cases(), oracle)
    rec.exhaustive["sse_fields"] = True
    core.drive_cases(rec, "iterables", iterable_cases(quick), oracle)
    rec.exhaustive["iterables"] = not quick
    core.drive_cases(rec, "redirects", redirect_cases(quick), oracle)
    rec.exhaustive["redirects"] = not quick
    core.drive_cases(rec, "filefaults", filefault_cases(quick), oracle_filefault)
    rec.exhaustive["filefaults"] = True
    core.drive_cases(rec, "cookie_attrs", cookie_attr_cases(), oracle)
    rec.exhaustive["cookie_attrs"] = True
    core.drive_cases(rec, "sizes", size_cases(quick), oracle_sizes)
    rec.exhaustive["sizes"] = not quick
    core.drive_cases(rec, "reuse", reuse_cases(quick), oracle_reuse)
    rec.exhaustive["reuse"] = not quick
    core.drive_hypothesis(rec, "reuse_mix", reuse_case(), oracle_reuse, 150 if quick else 4000, seed_offset=5)
    rec.exhaustive["reuse_mix"] = False
    core.drive_hypothesis(rec, "responses", response_case(), oracle, 1500 if quick else 30000)
    rec.exhaustive["responses"] = False
