"""C05 - Every response obeys the server-gateway protocol."""
from __future__ import annotations

import threading

from hypothesis import strategies as st

from harness import core, gateways as gw, gen, recipes
from harness.core import Result
from harness.recipes import ProducerError

LEVEL = "fault_enumeration"
RULES = {
    "responses": "Hypothesis: response recipes (all 8 response classes; status codes incl. unassigned ones; header sets, header operations, "
    "cookies; str/bytes/JSON content; iterables with empty chunks; files with non-ASCII paths and download names; Range requests incl. "
    "rejected ones; GET/HEAD) x ENUMERATED fault points: ASGI - client disconnect after the k-th send for every k up to the length of "
    "the fault-free run, with send() swallowing or raising OSError afterwards; WSGI - the server closes the iterable after k items for "
    "every k; streaming producers raising at a generated step. evaluations counts gateway runs; non-trivial = a fault point strictly "
    "inside the event sequence, or a fault-free run of a streaming/file/error-path recipe",
    "filegrid": "enumerated product for FileResponse: (size, chunk) pairs x every Range shape (single, suffix, open, multi, unsatisfiable, malformed, empty) x GET/HEAD x "
    "If-Range absent/stale x zero-copy extension offered or not, each with every close/disconnect prefix as above",
    "statuses": "exhaustive: every three-digit status code 100..999 (every 7th plus class edges in the quick tier) through the empty, plain and redirect response on both interfaces",
}
ASSUMPTIONS = [
    "constructor arguments that cannot be rendered at all (NaN in JSON, text the chosen charset cannot encode, header text above U+00FF) are caller errors and not generated",
    "a user who asks for a hop-by-hop header gets it; generated header names are non-hop-by-hop tokens",
    "under an injected fault only the emitted prefix is judged; an exception may escape",
]

_POISONED = {"wsgi-stream": False}


def with_watchdog(fn, timeout=20.0):
    """Run fn() in a daemon thread; ('ok', value) | ('exc', e) | ('hang', None)."""
    box = {}

    def target():
        try:
            box["v"] = fn()
        except BaseException as exc:  # noqa: BLE001
            box["e"] = exc

    t = threading.Thread(target=target, daemon=True)
    t.start()
    t.join(timeout)
    if t.is_alive():
        return "hang", None
    if "e" in box:
        return "exc", box["e"]
    return "ok", box["v"]


def build(recipe, side):
    return recipes.build_app({"app": "response", "response": recipe}, side)


def request_for(case):
    rq = case.get("request", {})
    headers = []
    if rq.get("range") is not None:
        headers.append(["Range", rq["range"]])
    if rq.get("if_range") is not None:
        headers.append(["If-Range", rq["if_range"]])
    ext = {"http.response.zerocopysend": {}} if rq.get("zerocopy") else None
    return gw.areq(method=rq.get("method", "GET"), path="/r", headers=headers, extensions=ext)


def wsgi_run(case, recipe, close_after=None):
    b = build(recipe, "wsgi")
    streaming = recipe["kind"] in ("sse",)
    if streaming:
        if _POISONED["wsgi-stream"]:
            return None
        kind, val = with_watchdog(lambda: gw.call_wsgi(b.app, request_for(case), close_after=close_after))
        if kind == "hang":
            _POISONED["wsgi-stream"] = True
            return "hang"
        if kind == "exc":
            raise val
        return val
    return gw.call_wsgi(b.app, request_for(case), close_after=close_after)


def asgi_run(case, recipe, **kw):
    b = build(recipe, "asgi")
    return gw.call_asgi(b.app, request_for(case), **kw)


def oracle(case) -> Result:
    r = Result()
    recipe = case["response"]
    kind = recipe["kind"]
    ctx = f"recipe {recipe!r} request {case.get('request')!r}"
    runs = 0
    inner_fault = False
    # ---------------- WSGI ----------------
    base = dict(recipe)
    base.pop("raise_at", None)
    if recipe.get("hostile_ctor"):
        # an argument that cannot be sent (CR/LF/NUL in a download name): refusing it at construction is
        # fine; if it is accepted, everything below applies to what gets emitted
        try:
            build(base, "wsgi")
            build(base, "asgi")
        except ValueError:
            r.label("rejected-at-construction", f"kind={kind}")
            r.nontrivial = True
            return r
    run = wsgi_run(case, base)
    runs += 1
    if run == "hang":
        r.fail("C05:wsgi:hang", f"{ctx}: fault-free WSGI run did not return within 20 s")
        run = None
    n_items = 0
    if run is not None:
        n_items = run.items
        if run.exc is not None:
            r.fail(f"C05:wsgi:fault-free-raised:{type(run.exc).__name__}", f"{ctx}: {run.exc!r}")
        for code, text in run.errors:
            r.fail(f"C05:wsgi:{code}", f"{ctx}: {text}")
        if run.exc is None and run.start_calls != 1:
            r.fail("C05:wsgi:start-count", f"{ctx}: start_response called {run.start_calls} times")
        r.label(f"wsgi-status={run.status_code}")
        # server closes the iterable after k items
        for k in range(0, n_items + 1):
            fr = wsgi_run(case, base, close_after=k)
            runs += 1
            if fr == "hang":
                r.fail("C05:wsgi:hang", f"{ctx}: close after {k} items did not return within 20 s")
                break
            if fr is None:
                break
            if 0 < k < n_items:
                inner_fault = True
            for code, text in fr.errors:
                r.fail(f"C05:wsgi:prefix:{code}", f"{ctx}: closed after {k} items: {text}")
            if fr.exc is not None and not isinstance(fr.exc, ProducerError):
                r.fail(f"C05:wsgi:close-raised:{type(fr.exc).__name__}", f"{ctx}: closed after {k} items: {fr.exc!r}")
    if "raise_at" in recipe:
        fr = wsgi_run(case, recipe)
        runs += 1
        inner_fault = True
        if fr == "hang":
            r.fail("C05:wsgi:hang", f"{ctx}: producer raising at {recipe['raise_at']}: no return within 20 s")
        elif fr is not None:
            for code, text in fr.errors:
                if code != "no-start":
                    r.fail(f"C05:wsgi:prefix:{code}", f"{ctx}: producer raised at step {recipe['raise_at']}: {text}")
            if fr.exc is not None and not isinstance(fr.exc, ProducerError):
                r.fail(f"C05:wsgi:producer-fault-raised:{type(fr.exc).__name__}", f"{ctx}: {fr.exc!r}")
    # ---------------- ASGI ----------------
    arun = asgi_run(case, base)
    runs += 1
    if arun.exc is not None:
        r.fail(f"C05:asgi:fault-free-raised:{type(arun.exc).__name__}", f"{ctx}: {arun.exc!r}; events so far {[e.get('type') for e in arun.events]}")
    for code, text in arun.errors:
        r.fail(f"C05:asgi:{code}", f"{ctx}: {text}")
    if arun.exc is None and not arun.complete:
        r.fail("C05:asgi:incomplete", f"{ctx}: events {[(e.get('type'), e.get('more_body')) for e in arun.events]}")
    if arun.exc is None and arun.complete:
        bodies = [e for e in arun.events if e.get("type") != "http.response.start"]
        if not bodies:
            r.fail("C05:asgi:no-body-event", ctx)
    r.label(f"asgi-status={arun.status_code}", f"kind={kind}")
    n_sends = arun.sends
    for k in range(0, n_sends + 1):
        for raising in (False, True):
            fr = asgi_run(case, base, disconnect_after_sends=k, send_raises_after_disconnect=raising)
            runs += 1
            if 0 < k < n_sends:
                inner_fault = True
            for code, text in fr.errors:
                r.fail(f"C05:asgi:prefix:{code}", f"{ctx}: disconnect after {k} sends (send {'raises' if raising else 'swallows'}): {text}")
            if fr.exc is not None and not (raising and isinstance(fr.exc, OSError)):
                r.fail(
                    f"C05:asgi:disconnect-raised:{type(fr.exc).__name__}",
                    f"{ctx}: disconnect after {k} sends (send {'raises' if raising else 'swallows'}): {fr.exc!r}",
                )
    if "raise_at" in recipe:
        fr = asgi_run(case, recipe)
        runs += 1
        for code, text in fr.errors:
            r.fail(f"C05:asgi:prefix:{code}", f"{ctx}: producer raised at step {recipe['raise_at']}: {text}")
        if fr.exc is not None and not isinstance(fr.exc, ProducerError):
            r.fail(f"C05:asgi:producer-fault-raised:{type(fr.exc).__name__}", f"{ctx}: {fr.exc!r}")
    left = gw.leftover_tasks()
    if left:
        r.fail("C05:asgi:task-left", f"{ctx}: {left[:2]!r}")
    r.weight = runs
    r.nontrivial = inner_fault or kind in ("stream", "sse", "file")
    if inner_fault:
        r.label("fault-inside-sequence")
    if "raise_at" in recipe:
        r.label("producer-raises")
    if case.get("request", {}).get("range") is not None:
        r.label("range-request")
    return r


def oracle_status(case) -> Result:
    r = Result()
    status = case["status"]
    for kind, recipe in (
        ("empty", {"kind": "empty", "status": status}),
        ("plain", {"kind": "plain", "content": "x", "status": status}),
        ("redirect", {"kind": "redirect", "url": "/n", "status": status}),
    ):
        w = gw.call_wsgi(build(recipe, "wsgi").app, gw.areq())
        a = gw.call_asgi(build(recipe, "asgi").app, gw.areq())
        for side, run in (("wsgi", w), ("asgi", a)):
            if run.exc is not None:
                r.fail(f"C05:{side}:status-raised:{type(run.exc).__name__}", f"status {status} {kind}: {run.exc!r}")
            for code, text in run.errors:
                r.fail(f"C05:{side}:{code}", f"status {status} {kind}: {text}")
            if run.status_code != status:
                r.fail(f"C05:{side}:status-value", f"status {status} {kind}: emitted {run.status_code}")
    r.weight = 6
    from http import HTTPStatus

    r.nontrivial = status not in {int(s) for s in HTTPStatus}
    r.label("unassigned" if r.nontrivial else "assigned")
    return r


SUBS = {"responses": oracle, "statuses": oracle_status, "filegrid": oracle, "sse_idle": oracle}


def sse_idle_cases():
    """Event streams whose producer stays silent for several ping intervals (before the first event, between
    events, before the end): the keep-alive pings are body items like any other."""
    for charset in (None, "utf-8", "latin-1", "gbk"):
        for events, delays in (([{"data": "x"}], [0.04]), ([{"data": "x"}, {"data": "é", "id": "1"}], [0, 0.04]), ([], []), ([{"data": "a\nb", "event": "e"}], [0.025])):
            recipe = {"kind": "sse", "events": events, "delays": delays, "ping_interval": 0.01}
            if charset:
                recipe["charset"] = charset
            yield {"response": recipe, "request": {"method": "GET"}}


@st.composite
def response_case(draw):
    recipe = draw(gen.response_recipes(faults=True))
    rq = {"method": draw(st.sampled_from(["GET", "GET", "HEAD", "POST"]))}
    if recipe["kind"] == "file":
        rq["range"] = draw(st.sampled_from(gen.RANGE_HEADERS))
        if draw(st.integers(0, 2)) == 0:
            rq["if_range"] = draw(st.sampled_from(['"stale-etag"', "Wed, 21 Oct 2015 07:28:00 GMT", "garbage", "", '"caf\xe9"', "\xff"]))
        if draw(st.integers(0, 3)) == 0:
            rq["zerocopy"] = True
        if draw(st.integers(0, 7)) == 0:
            recipe["download_name"] = draw(st.sampled_from(["a\r\nSet-Cookie: x=1", "a\nb.txt", "nul\x00.bin", "cr\r.txt", "t\tab.txt", "del\x7f.txt"]))
            recipe["hostile_ctor"] = True
    return {"response": recipe, "request": rq}


def file_grid(quick):
    """Deterministic product for the file response: every Range shape x method x If-Range x zero-copy
    extension over a few (size, chunk) pairs; each case still gets all its close/disconnect prefixes."""
    shapes = [(0, 3), (1, 1), (5, 1), (5, 3), (12, 4096)] + ([] if quick else [(64, 3), (200, 64), (200, 1)])
    for size, chunk in shapes:
        for rng in gen.RANGE_HEADERS[1:] + ["bytes=0-0,2-2,4-4", "bytes=4-,0-1"]:
            for method in ("GET", "HEAD"):
                for if_range in (None, '"stale-etag"', '"caf\xe9"'):
                    if if_range is not None and rng is None:
                        continue
                    for zc in (False, True):
                        rq = {"method": method, "range": rng, "zerocopy": zc}
                        if if_range is not None:
                            rq["if_range"] = if_range
                        yield {"response": {"kind": "file", "name": "f.txt", "size": size, "chunk": chunk}, "request": rq}
    for dn in ("a\r\nSet-Cookie: x=1", "a\nb.txt", "nul\x00.bin", "cr\r.txt", "t\tab.txt", "del\x7f.txt", "ok.txt", "sp ace.txt", 'quo"te.txt', "semi;colon.txt", "é.txt"):
        for rng in (None, "bytes=0-1", "bytes=9-"):
            yield {"response": {"kind": "file", "name": "f.txt", "size": 5, "chunk": 3, "download_name": dn, "hostile_ctor": True}, "request": {"method": "GET", "range": rng}}


def run(rec, only=None):
    quick = rec.tier == "quick"
    codes = sorted(set(range(100, 1000, 7 if quick else 1)) | {100, 199, 299, 418, 499, 599, 600, 601, 699, 700, 777, 899, 900, 999})
    core.drive_cases(rec, "statuses", ({"status": s} for s in codes), oracle_status)
    rec.exhaustive["statuses"] = not quick
    core.drive_cases(rec, "filegrid", file_grid(quick), oracle)
    rec.exhaustive["filegrid"] = True
    core.drive_cases(rec, "sse_idle", sse_idle_cases(), oracle)
    rec.exhaustive["sse_idle"] = True
    core.drive_hypothesis(rec, "responses", response_case(), oracle, 1500 if quick else 30000)
    rec.exhaustive["responses"] = False
