"""C10 - The request body is read once, completely, and consistently cached."""
from __future__ import annotations

import asyncio
import hashlib
import itertools
import json
from urllib.parse import parse_qsl

from hypothesis import strategies as st

import baize.asgi as A
import baize.wsgi as W
from baize.exceptions import HTTPException

from harness import core, gateways as gw, vtime
from harness.core import Result
from harness.refs import multipart as mref

LEVEL = "exploration"
RULES = {
    "seq_grid": "exhaustive: every access history of length <= 3 over {body, stream-fully, stream-partially, json, form, close} x 5 body "
    "kinds (JSON, malformed JSON, urlencoded, multipart, raw with a foreign type) x 3 partitions (whole, 3 pieces with an empty "
    "message, one byte at a time) x {WSGI, ASGI}, against a three-state model (fresh / body-cached / stream-consumed)",
    "seq": "Hypothesis: histories up to 6 accesses, generated bodies up to 200 bytes and partitions, optional disconnect replacing "
    "message k (ASGI); non-trivial = >= 2 accesses of different kinds with a partition of >= 2 messages, or a disconnect",
    "conc": "Hypothesis on a virtual-time loop (ASGI): 2..4 concurrent tasks, each running its own short history with a start offset, "
    "per-message receive delays from a 0.25 grid (ties included), optional disconnect; judged by invariants (every returned value is "
    "complete and identical across tasks, each server message is consumed at most once, no receive after the final message, only "
    "documented errors; json and form results are the identical object in every task; no access is cancelled by another task's access); "
    "tasks may also close() or stream partially; non-trivial = always (>= 2 tasks)",
    "env_grid": "enumerated request envelopes: every history of length <= 2 x 5 body kinds x {three pieces with an empty message, body + empty "
    "terminator message} x {WSGI, ASGI} x (method GET/HEAD/OPTIONS/DELETE/PUT/PATCH/POST with an exact Content-Length, POST/GET/DELETE without "
    "length, POST/GET with Transfer-Encoding: chunked) x (ASGI) optional message keys present / omitted (no 'body' key on empty messages, no "
    "'more_body' key on the final one); same three-state model: neither the method nor the announced length changes what the body is",
    "falsy_grid": "enumerated: every history of length <= 3 over bodies whose cached values are falsy (empty body with and without a type, JSON "
    "null / 0 / false / \"\" / [] / {}, empty urlencoded form, multipart form without parts) x {whole, pieces} x {WSGI, ASGI}",
    "sizes": "enumerated (WSGI; the large bodies also as ASGI messages): bodies of 64 KiB - 1 .. 200 000 bytes (non-periodic content) delivered whole, in 64 KiB pieces, in uneven pieces and in "
    "1000-byte pieces, and 24..48-byte bodies read with an explicit chunk_size of 1 .. len+1, x with / without Content-Length x 9 histories "
    "(stream, body+stream, body+partial+stream, stream+body, partial+body, json/form + stream ...): reads that fill chunk_size exactly, "
    "several full reads in a row, replay of a cached body longer than chunk_size",
    "disc_grid": "enumerated (ASGI): every history of length <= 2 x 5 body kinds x 3 partitions x http.disconnect replacing message 0..3 x "
    "with / without Content-Length and optional keys; the first access that reads must raise ClientDisconnect, none returns data",
    "close_grid": "enumerated: histories <reads of length <= 2> + close (+ close) + <one more access> (thorough: two more) over JSON, urlencoded, "
    "multipart and raw bodies x 2 partitions x {WSGI, ASGI}: what was cached before close() stays cached, close() changes no state",
    "conc_grid": "enumerated (ASGI, virtual time): every pair and every triple of single-access tasks over {body, json, form, stream, close} x start "
    "offsets (all together / staggered by 0.25) x receive delay 0 / 0.25 x JSON, urlencoded and multipart bodies (pairs also with a disconnect); "
    "judged like conc",
}
ASSUMPTIONS = [
    "a stream() started while another task's body read is pending may raise the stream-consumed error or replay; it must never see a partial body",
    "after a disconnect, later accesses may raise ClientDisconnect or the stream-consumed error, never return data; exceptions may be cached or recomputed - "
    "except that on ASGI the same cached accessor (body / json / form) that has itself reported the disconnect reports it again when asked again (identical cached result)",
    "partial streaming is modelled as taking k chunks and closing the iterator",
    "a request body is legitimate with every method (GET, HEAD, OPTIONS, DELETE included); the server announces it with an exact Content-Length, with "
    "Transfer-Encoding: chunked or (ASGI / a de-chunking WSGI server) not at all; wsgi.input.read(n) may return fewer than n bytes while more follow",
    "ASGI: 'body' and 'more_body' are optional keys of http.request (defaults b\"\" and False); a server may send empty messages anywhere",
    "close() in one task never makes an access of another task fail with CancelledError",
]

OPS = ["body", "stream", "partial", "json", "form", "close"]
# PENDING-DEFECT: `await request.is_disconnected()` (ASGI) is not one of the accesses the statement quantifies over and is
# therefore not generated.  On the unchanged tree it takes one message from receive() and, if that is an http.request
# message, drops it: [is_disconnected, body] on the messages b"hello " + b"world" returns b"world".  Reported, not judged here.


def multipart_body():
    form = {"boundary": "XbX", "charset": "utf-8", "preamble": None, "epilogue": None, "padding": b"",
            "parts": [{"name": "a", "filename": None, "headers": [], "content": b"1\r\n-"}, {"name": "f", "filename": "u.bin", "headers": [["Content-Type", "text/plain"]], "content": b"\r\n--Xb\x00\xff"}]}
    return mref.encode(form), [["field", "a", "1\r\n-"], ["file", "f", "u.bin", "text/plain", b"\r\n--Xb\x00\xff"]]


_BIG = {}


def big_bytes(size):
    """Deterministic non-periodic content (a 64 KiB slice repeated or swapped with another one is visible)."""
    if size not in _BIG:
        blocks = [hashlib.blake2b(i.to_bytes(4, "big"), digest_size=64).digest() for i in range(size // 64 + 1)]
        _BIG[size] = b"".join(blocks)[:size]
    return _BIG[size]


def body_for(kind, payload=None):
    """-> (content_type or None, body bytes, expected json | None, expected form items | None)"""
    if kind == "big":
        return "application/octet-stream", big_bytes(int(payload)), None, None
    if kind == "multipart_empty":
        return 'multipart/form-data; boundary="XbX"', b"--XbX--\r\n", None, ("ok", [])
    if kind == "json_doc":  # payload = the JSON text
        return "application/json", payload.encode("utf-8"), ("ok", json.loads(payload)), None
    if kind == "empty_json":  # a JSON type on an empty body: json is a 400, body / stream are b""
        return "application/json", b"", ("http", 400), None
    if kind == "json":
        data = payload if payload is not None else {"a": [1, 2, {"b": None}], "é": "ü"}
        raw = json.dumps(data, ensure_ascii=False).encode("utf-8")
        return "application/json", raw, ("ok", data), None
    if kind == "badjson":
        return "application/json", b'{"a": [1, 2', ("http", 400), None
    if kind == "urlencoded":
        raw = payload if payload is not None else b"a=1&b=x+y&a=%C3%A9&empty="
        return "application/x-www-form-urlencoded", raw, None, ("ok", [["field", k, v] for k, v in parse_qsl(raw.decode("latin-1"), keep_blank_values=True)])
    if kind == "multipart":
        raw, items = multipart_body()
        return 'multipart/form-data; boundary="XbX"', raw, None, ("ok", items)
    if kind == "raw":
        raw = payload if payload is not None else bytes(range(256)) * 1
        return "application/octet-stream", raw, None, None
    if kind == "notype":
        return None, payload if payload is not None else b"plain words", None, None
    raise core.HarnessError(kind)


def partition(raw, spec):
    if spec == "whole":
        return [raw]
    if spec == "three":
        n = len(raw)
        return [raw[: n // 3], b"", raw[n // 3: 2 * n // 3], raw[2 * n // 3:]]
    if spec == "bytes":
        return [raw[i:i + 1] for i in range(len(raw))] or [b""]
    if spec == "term":  # the whole body, then an empty final message (what servers do for chunked uploads)
        return [raw, b""]
    if spec == "lead":
        return [b"", raw]
    if isinstance(spec, dict):  # {"every": n}: pieces of n bytes
        n = int(spec["every"])
        return [raw[i:i + n] for i in range(0, len(raw), n)] or [b""]
    if isinstance(spec, list):
        return mref.chunks_from_cuts(raw, spec)
    raise core.HarnessError(spec)


class Model:
    """fresh / body-cached / stream-consumed, for a single sequential accessor."""

    def __init__(self, ctype, raw, ejson, eform, disconnect=False, avail_before_disconnect=0):
        self.ctype = ctype or ""
        self.raw = raw
        self.ejson = ejson
        self.eform = eform
        self.body_state = None  # None | ('ok', bytes) | ('exc', name)
        self.consumed = False
        self.disconnect = disconnect
        self.cache = {}

    def main_type(self):
        return self.ctype.split(";")[0].strip()

    def read_all(self):
        if self.disconnect:
            return ("exc", "ClientDisconnect")
        return ("ok", self.raw)

    def body(self):
        if self.body_state is not None:
            return self.body_state
        if self.consumed:
            res = ("exc", "RuntimeError")
        else:
            res = self.read_all()
        self.consumed = True
        if res[0] == "ok" or True:
            self.body_state = res if (res[0] == "ok" or res[1] != "RuntimeError") else None
        return res

    def stream(self, partial):
        if self.body_state is not None:
            return self.body_state if self.body_state[0] == "exc" else ("ok", self.raw)
        if self.consumed:
            return ("exc", "RuntimeError")
        self.consumed = True
        if self.disconnect:
            return ("exc-after-prefix", "ClientDisconnect")
        return ("prefix" if partial else "ok", self.raw)

    def json(self):
        if "json" in self.cache:
            return self.cache["json"]
        if self.main_type() != "application/json":
            return ("http", 415)
        b = self.body()
        if b[0] == "exc":
            return b
        res = self.ejson
        if res[0] == "ok":
            self.cache["json"] = res
        return res

    def form(self):
        if "form" in self.cache:
            return self.cache["form"]
        mt = self.main_type()
        if mt == "multipart/form-data":
            s = self.stream(False)
            if s[0] == "exc":
                return s
            if s[0] == "exc-after-prefix":
                return ("exc", s[1])
            res = self.eform
        elif mt == "application/x-www-form-urlencoded":
            b = self.body()
            if b[0] == "exc":
                return b
            res = self.eform
        else:
            return ("http", 415)
        self.cache["form"] = res
        return res


def classify_exc(exc):
    if isinstance(exc, HTTPException):
        return ("http", exc.status_code)
    if isinstance(exc, A.ClientDisconnect):
        return ("exc", "ClientDisconnect")
    if isinstance(exc, RuntimeError) and "Stream consumed" in str(exc):
        return ("exc", "RuntimeError")
    return ("unexpected", f"{type(exc).__name__}: {exc}")


def norm_form(fd, read):
    out = []
    for k, v in fd.multi_items():
        if isinstance(v, str):
            out.append(["field", k, v])
        else:
            try:
                v.seek(0)
                data = read(v)
            except ValueError:  # closed by an earlier close(): the cached form is still the same object
                data = "<closed>"
            out.append(["file", k, v.filename, v.content_type, data])
    return out


def same_items(a, b):
    if len(a) != len(b):
        return False
    for x, y in zip(a, b):
        if x[:4] != y[:4]:
            return False
        if x[0] == "file" and "<closed>" not in (x[4], y[4]) and x[4] != y[4]:
            return False
    return True


def compare(r, side, where, op, want, got, raw, objs, disconnected=False, first_read=False, repeated_after_disconnect=False):
    """want: model outcome; got: (kind, value).  first_read: nothing has touched the stream before this access."""
    tag = f"C10:{side}:{op}"
    if got[0] == "unexpected":
        r.fail(f"{tag}:unexpected-exception", f"{where}: {got[1]}")
        return
    if first_read and want == ("exc", "ClientDisconnect"):
        # the access that meets the disconnect reports it as such ("surfaces as the client-disconnect error"); only
        # LATER accesses may see the stream-consumed error instead
        if got[0] == "ok":
            r.fail(f"{tag}:disconnect-as-truncated-data", f"{where}: the client disconnected mid-body, yet the access returned {str(got[1])[:60]}")
        elif got != want:
            r.fail(f"{tag}:expected-ClientDisconnect", f"{where}: the first access to read the body met the disconnect and got {got!r}")
        return
    if repeated_after_disconnect and want == ("exc", "ClientDisconnect") and got != want and got[0] != "ok":
        # the SAME cached accessor again (body after body, json after json ...): "repeated accesses return the identical
        # cached result" - the failure that was reported the first time, not a different error
        r.fail(f"{tag}:repeated-access-differs-after-disconnect", f"{where}: this accessor already reported ClientDisconnect; asked again it gave {got!r}")
        return
    if disconnected and want[0] == "exc" and got in (("exc", "ClientDisconnect"), ("exc", "RuntimeError")):
        return  # after a disconnect the cached error or the stream-consumed error may surface
    if want[0] in ("ok", "prefix"):
        if got[0] != "ok":
            r.fail(f"{tag}:expected-value-got-{got[0]}:{got[1]}", f"{where}: expected a value, got {got!r}")
            return
        val = got[1]
        if op in ("body",):
            if val != raw:
                r.fail(f"{tag}:truncated-or-wrong-body", f"{where}: body has {len(val)} bytes, the messages carry {len(raw)}: {val[:40]!r}")
            if "body" in objs and objs["body"] is not val:
                r.fail(f"{tag}:not-identical", f"{where}: repeated access returned a different object")
            objs["body"] = val
        elif op == "stream":
            if b"".join(val) != raw:
                r.fail(f"{tag}:stream-incomplete", f"{where}: streamed {len(b''.join(val))} of {len(raw)} bytes")
        elif op == "partial":
            joined = b"".join(val)
            if not raw.startswith(joined):
                r.fail(f"{tag}:stream-prefix", f"{where}: partial stream {joined[:40]!r} is not a prefix of the body")
        elif op == "json":
            if val != want[1]:
                r.fail(f"{tag}:value", f"{where}: json {val!r}, expected {want[1]!r}")
            if "json" in objs and objs["json"] is not val:
                r.fail(f"{tag}:not-identical", f"{where}: repeated access returned a different object")
            objs["json"] = val
        elif op == "form":
            items, obj = val
            if not same_items(items, want[1]):
                r.fail(f"{tag}:value", f"{where}: form {items!r}, expected {want[1]!r}")
            if "form" in objs and objs["form"] is not obj:
                r.fail(f"{tag}:not-identical", f"{where}: repeated access returned a different object")
            objs["form"] = obj
        return
    if want[0] == "exc-after-prefix" and op == "partial":
        # taking one chunk may or may not reach the disconnect
        if got[0] == "ok":
            if not raw.startswith(b"".join(got[1])):
                r.fail(f"{tag}:stream-prefix", f"{where}: partial stream {got[1]!r} is not a prefix of the body")
        elif got != ("exc", want[1]):
            r.fail(f"{tag}:expected-{want[1]}", f"{where}: got {got!r}")
        return
    if want[0] == "exc-after-prefix":
        if got[0] == "ok":
            r.fail(f"{tag}:disconnect-as-truncated-data", f"{where}: the client disconnected mid-body, yet the access returned {str(got[1])[:60]}")
        elif got != ("exc", want[1]):
            r.fail(f"{tag}:expected-{want[1]}", f"{where}: got {got!r}")
        return
    if want[0] == "exc":
        if got[0] == "ok":
            kind = "disconnect-as-truncated-data" if want[1] == "ClientDisconnect" else "value-after-stream-consumed"
            r.fail(f"{tag}:{kind}", f"{where}: expected {want[1]}, got a value {str(got[1])[:60]}")
        elif want[1] == "ClientDisconnect" and got in (("exc", "ClientDisconnect"), ("exc", "RuntimeError")):
            pass
        elif got != want:
            r.fail(f"{tag}:expected-{want[1]}", f"{where}: got {got!r}")
        return
    if want[0] == "http":
        if got != want:
            r.fail(f"{tag}:expected-http-{want[1]}", f"{where}: got {got!r}")


# ------------------------------------------------------------------------------------------
# sequential histories


def envelope(case, ctype, raw):
    """Header list of the request: Content-Type and how the server announces the body (case['clen']:
    None = not at all, 'exact' = Content-Length, 'chunked' = Transfer-Encoding: chunked)."""
    headers = [["Content-Type", ctype]] if ctype else []
    clen = case.get("clen")
    if clen == "exact":
        headers.append(["Content-Length", str(len(raw))])
    elif clen == "chunked":
        headers.append(["Transfer-Encoding", "chunked"])
    elif clen is not None:
        raise core.HarnessError(clen)
    return headers


def split_op(op):
    """'stream:7' -> ('stream', 7): an explicit chunk_size (WSGI only; ASGI's stream() takes none)."""
    base, _, arg = op.partition(":")
    return base, (int(arg) if arg else None)


def run_wsgi_history(case, ctype, chunks, raw=b""):
    env = gw.make_environ(gw.areq(method=case.get("method", "POST"), headers=envelope(case, ctype, raw), body=chunks))
    _input = env["wsgi.input"]
    if case.get("clen") == "chunked":
        env["wsgi.input_terminated"] = True  # what de-chunking servers set
    req = W.Request(env)
    out = []
    for op in case["ops"]:
        op, size = split_op(op)
        args = () if size is None else (size,)
        try:
            if op == "body":
                out.append(("ok", req.body))
            elif op == "stream":
                out.append(("ok", list(req.stream(*args))))
            elif op == "partial":
                it = req.stream(*args)
                got = []
                for c in it:
                    got.append(c)
                    break
                it.close()
                out.append(("ok", got))
            elif op == "json":
                out.append(("ok", req.json))
            elif op == "form":
                fd = req.form
                out.append(("ok", (norm_form(fd, lambda f: f.read()), fd)))
            elif op == "close":
                req.close()
                out.append(("ok", None))
        except Exception as exc:  # noqa: BLE001
            out.append(classify_exc(exc))
    return out, _input  # the server's own stream object (an application may have put something else into the environ)


def run_asgi_history(case, ctype, chunks, disconnect_at, raw=b""):
    scope = gw.make_scope(gw.areq(method=case.get("method", "POST"), headers=envelope(case, ctype, raw)))
    script = [{"type": "http.request", "body": c, "more_body": i < len(chunks) - 1} for i, c in enumerate(chunks)]
    if case.get("omit_more_body") or case.get("omit_keys") or case.get("partition") == "three":
        # "more_body" is optional and defaults to False; so is "body"
        script[-1].pop("more_body")
        if script[-1]["body"] == b"":
            script[-1].pop("body")
    if case.get("omit_keys"):
        for m in script:
            if m.get("body") == b"":
                m.pop("body")
    if disconnect_at is not None:
        script = script[:disconnect_at] + [{"type": "http.disconnect"}]
    state = {"pos": 0, "extra": 0, "calls": 0}

    async def receive():
        state["calls"] += 1
        if state["pos"] < len(script):
            m = dict(script[state["pos"]])
            state["pos"] += 1
            return m
        state["extra"] += 1
        if disconnect_at is not None:
            return {"type": "http.disconnect"}
        raise gw.ExtraReceive("receive() after the final request message")

    async def main():
        req = A.Request(scope, receive)
        out = []
        for op in case["ops"]:
            op = split_op(op)[0]
            try:
                if op == "body":
                    out.append(("ok", await req.body))
                elif op == "stream":
                    out.append(("ok", [c async for c in req.stream()]))
                elif op == "partial":
                    agen = req.stream()
                    got = []
                    async for c in agen:
                        got.append(c)
                        break
                    await agen.aclose()
                    out.append(("ok", got))
                elif op == "json":
                    out.append(("ok", await req.json))
                elif op == "form":
                    fd = await req.form
                    items = []
                    for k, v in fd.multi_items():
                        if isinstance(v, str):
                            items.append(["field", k, v])
                        else:
                            try:
                                await v.aseek(0)
                                data = await v.aread()
                            except ValueError:
                                data = "<closed>"
                            items.append(["file", k, v.filename, v.content_type, data])
                    out.append(("ok", (items, fd)))
                elif op == "close":
                    await req.close()
                    out.append(("ok", None))
            except gw.ExtraReceive as exc:
                out.append(("unexpected", f"ExtraReceive: {exc}"))
            except Exception as exc:  # noqa: BLE001
                out.append(classify_exc(exc))
        return out

    out, _ = vtime.run_virtual(main)
    return out, state


def oracle_seq(case) -> Result:
    r = Result()
    ctype, raw, ejson, eform = body_for(case["body"], case.get("payload"))
    if case.get("ctype_override") is not None:
        ctype = case["ctype_override"] or None
        mt = (ctype or "").split(";")[0]
        if mt != "application/json":
            ejson = None
        if mt not in ("multipart/form-data", "application/x-www-form-urlencoded"):
            eform = None
        if mt == "application/json" and ejson is None:
            try:
                ejson = ("ok", json.loads(raw.decode("utf-8")))
            except Exception:  # noqa: BLE001
                ejson = ("http", 400)
        if mt == "application/x-www-form-urlencoded" and eform is None:
            eform = ("ok", [["field", k, v] for k, v in parse_qsl(raw.decode("latin-1"), keep_blank_values=True)])
    chunks = partition(raw, case["partition"])
    side = case["side"]
    disc = case.get("disconnect_at") if side == "asgi" else None
    if disc is not None:
        disc = min(disc, len(chunks) - 1)
    model = Model(ctype, raw, ejson, eform, disconnect=disc is not None)
    where0 = f"{side} body={case['body']} ctype={ctype!r} partition={case['partition']!r} disconnect_at={disc} ops={case['ops']!r}"
    extras = {k: case[k] for k in ("method", "clen", "omit_keys") if case.get(k)}
    if extras:
        where0 += f" {extras!r}"
    if case["body"] in ("big",):
        where0 += f" size={len(raw)}"
    if side == "wsgi":
        wchunks = [c for c in chunks if c]
        outs, inp = run_wsgi_history(case, ctype, wchunks, raw)
    else:
        try:
            outs, state = run_asgi_history(case, ctype, chunks, disc, raw)
        except vtime.Hang as exc:
            r.fail("C10:asgi:hang", f"{where0}: {exc}")
            return r
    objs = {}
    kinds = set()
    first_disc: dict = {}
    reported: set = set()
    for i, (op, got) in enumerate(zip(case["ops"], outs)):
        where = f"{where0} step {i} ({op})"
        op = split_op(op)[0]
        kinds.add(op)
        if op == "close":
            if got[0] != "ok":
                r.fail(f"C10:{side}:close-raised", f"{where}: {got!r}")
            continue
        fresh = model.body_state is None and not model.consumed
        if op == "body":
            want = model.body()
        elif op in ("stream", "partial"):
            want = model.stream(op == "partial")
            if want[0] == "ok" and op == "partial":
                want = ("prefix", want[1])
        elif op == "json":
            want = model.json()
        else:
            want = model.form()
        # the same cached accessor asked again after it has itself reported the disconnect (ASGI caches the outcome of body / json / form)
        again = side == "asgi" and op in ("body", "json", "form") and first_disc.get("op") == op and op in reported
        compare(r, side, where, op, want, got, raw, objs, disconnected=disc is not None, first_read=fresh, repeated_after_disconnect=again)
        if fresh and want == ("exc", "ClientDisconnect"):
            first_disc["op"] = op
        if got == ("exc", "ClientDisconnect"):
            reported.add(op)
    if side == "asgi":
        if state["extra"] and disc is None:
            r.fail("C10:asgi:receive-after-final-message", f"{where0}: {state['extra']} receive() call(s) after the final request message")
        if state["calls"] > len(chunks) + (1 if disc is not None else 0) + state["extra"]:
            r.fail("C10:asgi:message-consumed-twice", f"{where0}: {state['calls']} receive() calls for {len(chunks)} messages")
    else:
        if inp.reads_after_eof > 0 and False:
            pass
        if inp.delivered > len(raw):
            r.fail("C10:wsgi:read-past-body", where0)
    r.nontrivial = (len(kinds - {"close"}) >= 2 and len(chunks) >= 2) or disc is not None
    r.label(f"side={side}", f"body={case['body']}", f"ops={len(case['ops'])}")
    if disc is not None:
        r.label("disconnect")
    if extras:
        r.label(*[f"{k}={v}" for k, v in extras.items()])
    r.key = (side, case["body"], repr(case["partition"]), tuple(case["ops"]), disc, case.get("ctype_override"), case.get("payload"),
             case.get("method"), case.get("clen"), case.get("omit_keys"))
    return r


# ------------------------------------------------------------------------------------------
# concurrent tasks (ASGI, virtual time)


def oracle_conc(case) -> Result:
    r = Result()
    ctype, raw, ejson, eform = body_for(case["body"], case.get("payload"))
    chunks = partition(raw, case["partition"])
    delays = case["delays"]
    disc = case.get("disconnect_at")
    if disc is not None:
        disc = min(disc, len(chunks) - 1)
    scope = gw.make_scope(gw.areq(method=case.get("method", "POST"), headers=envelope(case, ctype, raw)))
    script = [{"type": "http.request", "body": c, "more_body": i < len(chunks) - 1} for i, c in enumerate(chunks)]
    if disc is not None:
        script = script[:disc] + [{"type": "http.disconnect"}]
    state = {"pos": 0, "extra": 0, "calls": 0, "concurrent": 0, "max_concurrent": 0}

    async def receive():
        state["calls"] += 1
        state["concurrent"] += 1
        state["max_concurrent"] = max(state["max_concurrent"], state["concurrent"])
        try:
            i = state["pos"]
            if i < len(script):
                state["pos"] += 1
                d = delays[i % len(delays)] if delays else 0
                if d:
                    await asyncio.sleep(d)
                return dict(script[i])
            state["extra"] += 1
            if disc is not None:
                return {"type": "http.disconnect"}
            raise gw.ExtraReceive("receive() after the final request message")
        finally:
            state["concurrent"] -= 1

    results = []

    async def worker(req, tid, offset, ops):
        if offset:
            await asyncio.sleep(offset)
        for op in ops:
            try:
                if op == "body":
                    results.append((tid, op, ("ok", await req.body)))
                elif op == "stream":
                    results.append((tid, op, ("ok", [c async for c in req.stream()])))
                elif op == "partial":
                    agen = req.stream()
                    got = []
                    async for c in agen:
                        got.append(c)
                        break
                    await agen.aclose()
                    results.append((tid, op, ("ok", got)))
                elif op == "json":
                    results.append((tid, op, ("ok", await req.json)))
                elif op == "form":
                    fd = await req.form
                    items = []
                    for k, v in fd.multi_items():
                        if isinstance(v, str):
                            items.append(["field", k, v])
                        else:
                            try:
                                await v.aseek(0)
                                data = await v.aread()
                            except ValueError:  # closed by another task's close(): still the same cached form
                                data = "<closed>"
                            items.append(["file", k, v.filename, v.content_type, data])
                    results.append((tid, op, ("ok", (items, fd))))
                elif op == "close":
                    await req.close()
                    results.append((tid, op, ("ok", None)))
                else:
                    raise core.HarnessError(op)
            except gw.ExtraReceive as exc:
                results.append((tid, op, ("unexpected", f"ExtraReceive: {exc}")))
            except asyncio.CancelledError:
                # the harness cancels workers only after a detected hang (the case has failed by then); anything else
                # is an access torn down by another task's access
                results.append((tid, op, ("unexpected", "CancelledError: the pending access was cancelled")))
                return
            except core.HarnessError:
                raise
            except Exception as exc:  # noqa: BLE001
                results.append((tid, op, classify_exc(exc)))

    async def main():
        req = A.Request(scope, receive)
        await asyncio.gather(*[worker(req, i, t["offset"], t["ops"]) for i, t in enumerate(case["tasks"])])

    where = f"body={case['body']} partition={case['partition']!r} delays={delays!r} disconnect_at={disc} tasks={case['tasks']!r}"
    extras = {k: case[k] for k in ("method", "clen") if case.get(k)}
    if extras:
        where += f" {extras!r}"
    try:
        vtime.run_virtual(main)
    except vtime.Hang as exc:
        r.fail("C10:conc:hang", f"{where}: {exc}")
        return r
    mt = (ctype or "").split(";")[0]
    bodies = []
    jsons = []
    forms = []
    successes = 0
    for tid, op, got in results:
        w = f"{where}: task {tid} {op}"
        if got[0] == "unexpected":
            r.fail(f"C10:conc:{op}:unexpected-exception", f"{w}: {got[1]}")
            continue
        if op == "close":
            if got[0] != "ok":
                r.fail("C10:conc:close-raised", f"{w}: {got!r}")
            continue
        if got[0] == "ok":
            successes += 1
            if disc is not None and op in ("body", "json", "form", "stream"):
                r.fail(f"C10:conc:{op}:disconnect-as-truncated-data", f"{w}: returned {str(got[1])[:60]} although the client disconnected before the final message")
                continue
            val = got[1]
            if op == "body":
                if val != raw:
                    r.fail("C10:conc:body:truncated-or-wrong-body", f"{w}: {len(val)} of {len(raw)} bytes")
                bodies.append(val)
            elif op == "stream":
                if b"".join(val) != raw:
                    r.fail("C10:conc:stream:partial-body-seen", f"{w}: streamed {len(b''.join(val))} of {len(raw)} bytes")
            elif op == "partial":
                if not raw.startswith(b"".join(val)):
                    r.fail("C10:conc:partial:stream-prefix", f"{w}: {b''.join(val)[:40]!r} is not a prefix of the body")
            elif op == "json":
                if ejson is None or ejson[0] != "ok" or val != ejson[1]:
                    r.fail("C10:conc:json:value", f"{w}: {val!r}")
                jsons.append(val)
            elif op == "form":
                if eform is None or not same_items(val[0], eform[1]):
                    r.fail("C10:conc:form:value", f"{w}: {val[0]!r}")
                forms.append(val[1])
        elif got[0] == "exc":
            if got[1] == "ClientDisconnect" and disc is None:
                r.fail(f"C10:conc:{op}:spurious-disconnect", w)
        elif got[0] == "http":
            legit = (op == "json" and (mt != "application/json" or (ejson and ejson[0] == "http"))) or (op == "form" and mt not in ("multipart/form-data", "application/x-www-form-urlencoded"))
            if not legit:
                r.fail(f"C10:conc:{op}:http-error", f"{w}: {got!r}")
    if any(b is not bodies[0] for b in bodies):
        r.fail("C10:conc:body:not-identical", f"{where}: concurrent body accesses returned different objects")
    if any(j is not jsons[0] for j in jsons):
        r.fail("C10:conc:json:not-identical", f"{where}: json accesses of different tasks returned different objects (the result is not shared)")
    if any(f is not forms[0] for f in forms):
        r.fail("C10:conc:form:not-identical", f"{where}: form accesses of different tasks returned different objects (the result is not shared)")
    if state["extra"] and disc is None:
        r.fail("C10:conc:receive-after-final-message", f"{where}: {state['extra']} extra receive() calls")
    if state["calls"] - state["extra"] > len(script):
        r.fail("C10:conc:message-consumed-twice", f"{where}: {state['calls']} receive() calls for {len(script)} messages")
    if state["max_concurrent"] > 1:
        r.fail("C10:conc:concurrent-receive", f"{where}: {state['max_concurrent']} receive() calls were in flight at the same time (two readers share the stream)")
    # tasks that only use accesses which share the one cached body read (body; json on a JSON body; form on an urlencoded
    # body; close) must all succeed, whatever the interleaving
    sharing = {"body", "close"}
    if mt == "application/json" and ejson and ejson[0] == "ok":
        sharing.add("json")
    if mt == "application/x-www-form-urlencoded":
        sharing.add("form")
    if disc is None and all(set(t["ops"]) <= sharing for t in case["tasks"]):
        if any(got[0] != "ok" for _, _, got in results):
            r.fail("C10:conc:shared-read-failed", f"{where}: {[(t, o, g[0]) for t, o, g in results]!r}")
    r.nontrivial = True
    r.label(f"tasks={len(case['tasks'])}", f"body={case['body']}", "disconnect" if disc is not None else "complete", f"successes={min(successes, 4)}")
    if any("close" in t["ops"] for t in case["tasks"]):
        r.label("with-close")
    return r


SUBS = {"seq": oracle_seq, "seq_grid": oracle_seq, "conc": oracle_conc, "env_grid": oracle_seq, "falsy_grid": oracle_seq,
        "sizes": oracle_seq, "disc_grid": oracle_seq, "close_grid": oracle_seq, "conc_grid": oracle_conc}


def histories(maxlen, ops=OPS):
    for n in range(1, maxlen + 1):
        for h in itertools.product(ops, repeat=n):
            yield list(h)


def seq_grid_cases(quick):
    for ops in histories(3 if quick else 4):
        for body in ("json", "badjson", "urlencoded", "multipart", "raw"):
            for part in ("whole", "three", "bytes"):
                for side in ("wsgi", "asgi"):
                    yield {"side": side, "body": body, "partition": part, "ops": ops}


ENVELOPES = [{"method": m, "clen": "exact"} for m in ("GET", "HEAD", "OPTIONS", "DELETE", "PUT", "PATCH", "POST")] + [
    {"method": "POST"}, {"method": "POST", "clen": "chunked"}, {"method": "GET", "clen": "chunked"},
    {"method": "GET"}, {"method": "DELETE"}]  # no announced length at all: HTTP/2, where Content-Length is optional


def env_grid_cases(quick):
    """Request envelopes: the method and the way the body is announced do not change what the body is."""
    for ops in histories(2 if quick else 3):
        for body in ("json", "urlencoded", "multipart", "raw", "badjson"):
            for part in ("three", "term"):
                for env in ENVELOPES:
                    yield {"side": "wsgi", "body": body, "partition": part, "ops": ops, **env}
                    for omit in (False, True):
                        case = {"side": "asgi", "body": body, "partition": part, "ops": ops, **env}
                        if omit:
                            case["omit_keys"] = True
                        yield case


FALSY_BODIES = [("raw", b""), ("notype", b""), ("urlencoded", b""), ("empty_json", None), ("multipart_empty", None)] + [
    ("json_doc", t) for t in ("null", "0", "false", '""', "[]", "{}", "0.0")]


def falsy_grid_cases(quick):
    """Cached values that are falsy: an empty body, JSON null / 0 / [] ..., a form without fields."""
    for ops in histories(3 if quick else 4):
        for body, payload in FALSY_BODIES:
            for part in ("whole", "three"):
                for side in ("wsgi", "asgi"):
                    case = {"side": side, "body": body, "partition": part, "ops": ops}
                    if payload is not None:
                        case["payload"] = payload
                    if side == "asgi" and part == "three":
                        case["omit_keys"] = True
                    yield case


SIZE_HISTORIES = [["stream"], ["body"], ["body", "stream"], ["body", "partial", "stream"], ["stream", "body"], ["partial", "body"],
                  ["body", "stream", "stream"], ["partial", "stream"], ["body", "body", "partial"]]


def sizes_cases(quick):
    """WSGI reads that fill chunk_size exactly, several in a row, and replays of bodies longer than chunk_size."""
    cs = 4096 * 16
    sizes = [cs - 1, cs, cs + 1, 2 * cs, 2 * cs + 1, 200000] if quick else [cs - 1, cs, cs + 1, 2 * cs - 1, 2 * cs, 2 * cs + 1, 3 * cs, 200000, 5 * cs + 17]
    for size in sizes:
        for part in ("whole", {"every": cs}, [cs - 1, cs + 5, 3 * cs], {"every": 1000}):
            for clen in (None, "exact"):
                for ops in SIZE_HISTORIES:
                    case = {"side": "wsgi", "body": "big", "payload": size, "partition": part, "ops": ops}
                    if clen:
                        case["clen"] = clen
                    yield case
                    if clen and part != {"every": 1000}:
                        yield dict(case, side="asgi")
    # explicit chunk_size on small bodies: every relation between chunk_size, piece size and body length
    small = [("raw", bytes(range(65, 89))), ("json", None), ("urlencoded", None)]
    for body, payload in small:
        n = len(body_for(body, payload)[1])
        for k in sorted({1, 2, 5, 8, n - 1, n, n + 1}):
            for part in ("whole", "three", [5, 10], {"every": 8}):
                for clen in (None, "exact"):
                    for ops in SIZE_HISTORIES + [["json", "stream"], ["form", "stream"], ["form", "partial", "body"]]:
                        case = {"side": "wsgi", "body": body, "partition": part, "ops": [o if o not in ("stream", "partial") else f"{o}:{k}" for o in ops]}
                        if payload is not None:
                            case["payload"] = payload
                        if clen:
                            case["clen"] = clen
                        yield case


def disc_grid_cases(quick):
    """ASGI: http.disconnect in place of message k, for every short history."""
    for ops in histories(2 if quick else 3):
        for body in ("json", "urlencoded", "multipart", "raw", "badjson"):
            for part in ("whole", "three", "term"):
                npos = {"whole": 1, "three": 4, "term": 2}[part]
                for k in range(npos):
                    for env in ({}, {"clen": "exact", "omit_keys": True}):
                        yield {"side": "asgi", "body": body, "partition": part, "ops": ops, "disconnect_at": k, **env}


def close_grid_cases(quick):
    """close() in the middle of longer histories: whatever was cached before stays cached, nothing else changes state."""
    reads = ["body", "stream", "json", "form"]
    prefixes = [[]] + [[a] for a in reads] + [[a, b] for a in reads for b in reads]
    for pre in prefixes:
        for suf in [[a] for a in reads + ["partial"]] + ([] if quick else [[a, b] for a in reads for b in reads]):
            for body in ("json", "urlencoded", "multipart", "raw"):
                for part in ("three", "term"):
                    for side in ("wsgi", "asgi"):
                        yield {"side": side, "body": body, "partition": part, "ops": pre + ["close"] + suf}
                        if len(pre) == 2:
                            yield {"side": side, "body": body, "partition": part, "ops": pre + ["close", "close"] + suf, "clen": "exact"}


CONC_OPS = ["body", "json", "form", "stream", "close"]


def conc_grid_cases(quick):
    """Every pair / triple of single-access tasks, started together or staggered, with immediate or delayed messages."""
    for body in ("json", "urlencoded", "multipart"):
        for delays in ([0.25], [0]):
            for n, offsets in ((2, [(0, 0), (0, 0.25), (0, 0.5)]), (3, [(0, 0, 0), (0, 0.25, 0.25), (0, 0.25, 0.5)])):
                for ops in itertools.product(CONC_OPS, repeat=n):
                    for offs in offsets:
                        tasks = [{"offset": o, "ops": [op]} for o, op in zip(offs, ops)]
                        yield {"body": body, "partition": "three", "delays": delays, "tasks": tasks}
                        if n == 2:
                            yield {"body": body, "partition": "three", "delays": delays, "tasks": tasks, "disconnect_at": 2}
                        if not quick:
                            yield {"body": body, "partition": "three", "delays": delays, "clen": "exact", "method": "GET",
                                   "tasks": [{"offset": o, "ops": [op, op]} for o, op in zip(offs, ops)]}


ENUMERATED = {"seq_grid": seq_grid_cases, "env_grid": env_grid_cases, "falsy_grid": falsy_grid_cases, "sizes": sizes_cases,
              "disc_grid": disc_grid_cases, "close_grid": close_grid_cases, "conc_grid": conc_grid_cases}


def enum_shard(rec, k, nshards, sub, quick):
    g = core.guarded(SUBS[sub])
    for i, case in enumerate(ENUMERATED[sub](quick)):
        if i % nshards != k:
            continue
        res = g(case)
        rec.count(sub, case, res)
        new, old = rec.split(res)
        rec.note_known(old)
        for f in new:
            rec.add_violation(sub, f, case)
            rec.skip.add(f.bucket)


@st.composite
def seq_case(draw):
    body = draw(st.sampled_from(["json", "badjson", "urlencoded", "multipart", "raw", "notype"]))
    case = {"side": draw(st.sampled_from(["wsgi", "asgi", "asgi"])), "body": body, "ops": draw(st.lists(st.sampled_from(OPS), min_size=1, max_size=6))}
    if body == "raw" or body == "notype":
        case["payload"] = draw(st.binary(max_size=200))
    elif body == "urlencoded" and draw(st.booleans()):
        case["payload"] = draw(st.sampled_from([b"", b"a=1", b"x=%ff&y=%E4%B8%AD", b"a&b&c", b"k=v" * 40]))
    elif body == "json" and draw(st.integers(0, 3)) == 0:
        case["body"] = "json_doc"
        case["payload"] = draw(st.sampled_from(["null", "0", "false", '""', "[]", "{}", "[[]]", '{"": 0}', "1e3", '"x"', " [1,\n 2] "]))
    case["partition"] = draw(st.one_of(st.sampled_from(["whole", "three", "bytes", "term", "lead"]), st.lists(st.integers(0, 200), max_size=6)))
    if draw(st.integers(0, 3)) == 0:
        case["ctype_override"] = draw(st.sampled_from(["application/json", "application/x-www-form-urlencoded", "text/plain", "", "application/json; charset=utf-8"]))
        if body == "multipart":
            case.pop("ctype_override")
    if case["side"] == "asgi" and draw(st.integers(0, 3)) == 0:
        case["disconnect_at"] = draw(st.integers(0, 5))
    # the envelope: method, announced length, optional message keys, explicit chunk sizes
    if draw(st.integers(0, 2)) == 0:
        case["method"] = draw(st.sampled_from(["GET", "HEAD", "OPTIONS", "DELETE", "PUT", "PATCH", "POST", "QUERY"]))
    if draw(st.integers(0, 2)) == 0:
        case["clen"] = draw(st.sampled_from(["exact", "exact", "chunked"]))
    if case["side"] == "asgi" and draw(st.integers(0, 2)) == 0:
        case["omit_keys"] = True
    if case["side"] == "wsgi" and draw(st.integers(0, 2)) == 0:
        sizes = draw(st.lists(st.sampled_from([1, 2, 3, 7, 16, 64, 200]), min_size=len(case["ops"]), max_size=len(case["ops"])))
        case["ops"] = [f"{o}:{k}" if o in ("stream", "partial") else o for o, k in zip(case["ops"], sizes)]
    return case


@st.composite
def conc_case(draw):
    body = draw(st.sampled_from(["json", "json", "urlencoded", "multipart", "raw"]))
    ntasks = draw(st.integers(2, 4))
    tasks = []
    for _ in range(ntasks):
        tasks.append({"offset": draw(st.sampled_from([0, 0, 0.25, 0.5, 1.0])),
                      "ops": draw(st.lists(st.sampled_from(["body", "body", "json", "form", "stream", "json", "form", "stream", "close", "partial"]), min_size=1, max_size=3))})
    case = {"body": body, "partition": draw(st.sampled_from(["whole", "three", "three", [3, 9, 9, 20]])), "delays": draw(st.lists(st.sampled_from([0, 0.25, 0.5, 1.0]), min_size=1, max_size=4)), "tasks": tasks}
    if draw(st.integers(0, 3)) == 0:
        case["disconnect_at"] = draw(st.integers(0, 3))
    if draw(st.integers(0, 3)) == 0:
        case["clen"] = "exact"
        case["method"] = draw(st.sampled_from(["GET", "POST", "PUT"]))
    return case


def run(rec, only=None):
    quick = rec.tier == "quick"
    for sub in ENUMERATED:
        if only is None or sub in only:
            core.run_sharded(rec, enum_shard, 16, core.ncpu(), (sub, quick))
            rec.exhaustive[sub] = True
    core.drive_hypothesis(rec, "seq", seq_case(), oracle_seq, 1500 if quick else 300000)
    core.drive_hypothesis(rec, "conc", conc_case(), oracle_conc, 1000 if quick else 200000, seed_offset=1)
    rec.exhaustive["seq"] = rec.exhaustive["conc"] = False
