"""C10 - The request body is read once, completely, and consistently cached."""
from __future__ import annotations

import asyncio
import itertools
import json
from urllib.parse import parse_qsl

from hypothesis import strategies as st

import baize.asgi as A
import baize.wsgi as W
from baize.exceptions import HTTPException

from harness import core, gateways as gw, vtime
from harness.core import Result
from harness.refs import multipart as mref

LEVEL = "exploration"
RULES = {
    "seq_grid": "exhaustive: every access history of length <= 3 over {body, stream-fully, stream-partially, json, form, close} x 5 body "
    "kinds (JSON, malformed JSON, urlencoded, multipart, raw with a foreign type) x 3 partitions (whole, 3 pieces with an empty "
    "message, one byte at a time) x {WSGI, ASGI}, against a three-state model (fresh / body-cached / stream-consumed)",
    "seq": "Hypothesis: histories up to 6 accesses, generated bodies up to 200 bytes and partitions, optional disconnect replacing "
    "message k (ASGI); non-trivial = >= 2 accesses of different kinds with a partition of >= 2 messages, or a disconnect",
    "conc": "Hypothesis on a virtual-time loop (ASGI): 2..4 concurrent tasks, each running its own short history with a start offset, "
    "per-message receive delays from a 0.25 grid (ties included), optional disconnect; judged by invariants (every returned value is "
    "complete and identical across tasks, each server message is consumed at most once, no receive after the final message, only "
    "documented errors); non-trivial = always (>= 2 tasks)",
}
ASSUMPTIONS = [
    "a stream() started while another task's body read is pending may raise the stream-consumed error or replay; it must never see a partial body",
    "after a disconnect, later accesses may raise ClientDisconnect or the stream-consumed error, never return data; exceptions may be cached or recomputed",
    "partial streaming is modelled as taking k chunks and closing the iterator",
]

OPS = ["body", "stream", "partial", "json", "form", "close"]


def multipart_body():
    form = {"boundary": "XbX", "charset": "utf-8", "preamble": None, "epilogue": None, "padding": b"",
            "parts": [{"name": "a", "filename": None, "headers": [], "content": b"1\r\n-"}, {"name": "f", "filename": "u.bin", "headers": [["Content-Type", "text/plain"]], "content": b"\r\n--Xb\x00\xff"}]}
    return mref.encode(form), [["field", "a", "1\r\n-"], ["file", "f", "u.bin", "text/plain", b"\r\n--Xb\x00\xff"]]


def body_for(kind, payload=None):
    """-> (content_type or None, body bytes, expected json | None, expected form items | None)"""
    if kind == "json":
        data = payload if payload is not None else {"a": [1, 2, {"b": None}], "é": "ü"}
        raw = json.dumps(data, ensure_ascii=False).encode("utf-8")
        return "application/json", raw, ("ok", data), None
    if kind == "badjson":
        return "application/json", b'{"a": [1, 2', ("http", 400), None
    if kind == "urlencoded":
        raw = payload if payload is not None else b"a=1&b=x+y&a=%C3%A9&empty="
        return "application/x-www-form-urlencoded", raw, None, ("ok", [["field", k, v] for k, v in parse_qsl(raw.decode("latin-1"), keep_blank_values=True)])
    if kind == "multipart":
        raw, items = multipart_body()
        return 'multipart/form-data; boundary="XbX"', raw, None, ("ok", items)
    if kind == "raw":
        raw = payload if payload is not None else bytes(range(256)) * 1
        return "application/octet-stream", raw, None, None
    if kind == "notype":
        return None, payload if payload is not None else b"plain words", None, None
    raise core.HarnessError(kind)


def partition(raw, spec):
    if spec == "whole":
        return [raw]
    if spec == "three":
        n = len(raw)
        return [raw[: n // 3], b"", raw[n // 3: 2 * n // 3], raw[2 * n // 3:]]
    if spec == "bytes":
        return [raw[i:i + 1] for i in range(len(raw))] or [b""]
    if isinstance(spec, list):
        return mref.chunks_from_cuts(raw, spec)
    raise core.HarnessError(spec)


class Model:
    """fresh / body-cached / stream-consumed, for a single sequential accessor."""

    def __init__(self, ctype, raw, ejson, eform, disconnect=False, avail_before_disconnect=0):
        self.ctype = ctype or ""
        self.raw = raw
        self.ejson = ejson
        self.eform = eform
        self.body_state = None  # None | ('ok', bytes) | ('exc', name)
        self.consumed = False
        self.disconnect = disconnect
        self.cache = {}

    def main_type(self):
        return self.ctype.split(";")[0].strip()

    def read_all(self):
        if self.disconnect:
            return ("exc", "ClientDisconnect")
        return ("ok", self.raw)

    def body(self):
        if self.body_state is not None:
            return self.body_state
        if self.consumed:
            res = ("exc", "RuntimeError")
        else:
            res = self.read_all()
        self.consumed = True
        if res[0] == "ok" or True:
            self.body_state = res if (res[0] == "ok" or res[1] != "RuntimeError") else None
        return res

    def stream(self, partial):
        if self.body_state is not None:
            return self.body_state if self.body_state[0] == "exc" else ("ok", self.raw)
        if self.consumed:
            return ("exc", "RuntimeError")
        self.consumed = True
        if self.disconnect:
            return ("exc-after-prefix", "ClientDisconnect")
        return ("prefix" if partial else "ok", self.raw)

    def json(self):
        if "json" in self.cache:
            return self.cache["json"]
        if self.main_type() != "application/json":
            return ("http", 415)
        b = self.body()
        if b[0] == "exc":
            return b
        res = self.ejson
        if res[0] == "ok":
            self.cache["json"] = res
        return res

    def form(self):
        if "form" in self.cache:
            return self.cache["form"]
        mt = self.main_type()
        if mt == "multipart/form-data":
            s = self.stream(False)
            if s[0] == "exc":
                return s
            if s[0] == "exc-after-prefix":
                return ("exc", s[1])
            res = self.eform
        elif mt == "application/x-www-form-urlencoded":
            b = self.body()
            if b[0] == "exc":
                return b
            res = self.eform
        else:
            return ("http", 415)
        self.cache["form"] = res
        return res


def classify_exc(exc):
    if isinstance(exc, HTTPException):
        return ("http", exc.status_code)
    if isinstance(exc, A.ClientDisconnect):
        return ("exc", "ClientDisconnect")
    if isinstance(exc, RuntimeError) and "Stream consumed" in str(exc):
        return ("exc", "RuntimeError")
    return ("unexpected", f"{type(exc).__name__}: {exc}")


def norm_form(fd, read):
    out = []
    for k, v in fd.multi_items():
        if isinstance(v, str):
            out.append(["field", k, v])
        else:
            try:
                v.seek(0)
                data = read(v)
            except ValueError:  # closed by an earlier close(): the cached form is still the same object
                data = "<closed>"
            out.append(["file", k, v.filename, v.content_type, data])
    return out


def same_items(a, b):
    if len(a) != len(b):
        return False
    for x, y in zip(a, b):
        if x[:4] != y[:4]:
            return False
        if x[0] == "file" and "<closed>" not in (x[4], y[4]) and x[4] != y[4]:
            return False
    return True


def compare(r, side, where, op, want, got, raw, objs, disconnected=False):
    """want: model outcome; got: (kind, value)"""
    tag = f"C10:{side}:{op}"
    if got[0] == "unexpected":
        r.fail(f"{tag}:unexpected-exception", f"{where}: {got[1]}")
        return
    if disconnected and want[0] == "exc" and got in (("exc", "ClientDisconnect"), ("exc", "RuntimeError")):
        return  # after a disconnect the cached error or the stream-consumed error may surface
    if want[0] in ("ok", "prefix"):
        if got[0] != "ok":
            r.fail(f"{tag}:expected-value-got-{got[0]}:{got[1]}", f"{where}: expected a value, got {got!r}")
            return
        val = got[1]
        if op in ("body",):
            if val != raw:
                r.fail(f"{tag}:truncated-or-wrong-body", f"{where}: body has {len(val)} bytes, the messages carry {len(raw)}: {val[:40]!r}")
            if "body" in objs and objs["body"] is not val:
                r.fail(f"{tag}:not-identical", f"{where}: repeated access returned a different object")
            objs["body"] = val
        elif op == "stream":
            if b"".join(val) != raw:
                r.fail(f"{tag}:stream-incomplete", f"{where}: streamed {len(b''.join(val))} of {len(raw)} bytes")
        elif op == "partial":
            joined = b"".join(val)
            if not raw.startswith(joined):
                r.fail(f"{tag}:stream-prefix", f"{where}: partial stream {joined[:40]!r} is not a prefix of the body")
        elif op == "json":
            if val != want[1]:
                r.fail(f"{tag}:value", f"{where}: json {val!r}, expected {want[1]!r}")
            if "json" in objs and objs["json"] is not val:
                r.fail(f"{tag}:not-identical", f"{where}: repeated access returned a different object")
            objs["json"] = val
        elif op == "form":
            items, obj = val
            if not same_items(items, want[1]):
                r.fail(f"{tag}:value", f"{where}: form {items!r}, expected {want[1]!r}")
            if "form" in objs and objs["form"] is not obj:
                r.fail(f"{tag}:not-identical", f"{where}: repeated access returned a different object")
            objs["form"] = obj
        return
    if want[0] == "exc-after-prefix" and op == "partial":
        # taking one chunk may or may not reach the disconnect
        if got[0] == "ok":
            if not raw.startswith(b"".join(got[1])):
                r.fail(f"{tag}:stream-prefix", f"{where}: partial stream {got[1]!r} is not a prefix of the body")
        elif got != ("exc", want[1]):
            r.fail(f"{tag}:expected-{want[1]}", f"{where}: got {got!r}")
        return
    if want[0] == "exc-after-prefix":
        if got[0] == "ok":
            r.fail(f"{tag}:disconnect-as-truncated-data", f"{where}: the client disconnected mid-body, yet the access returned {str(got[1])[:60]}")
        elif got != ("exc", want[1]):
            r.fail(f"{tag}:expected-{want[1]}", f"{where}: got {got!r}")
        return
    if want[0] == "exc":
        if got[0] == "ok":
            kind = "disconnect-as-truncated-data" if want[1] == "ClientDisconnect" else "value-after-stream-consumed"
            r.fail(f"{tag}:{kind}", f"{where}: expected {want[1]}, got a value {str(got[1])[:60]}")
        elif want[1] == "ClientDisconnect" and got in (("exc", "ClientDisconnect"), ("exc", "RuntimeError")):
            pass
        elif got != want:
            r.fail(f"{tag}:expected-{want[1]}", f"{where}: got {got!r}")
        return
    if want[0] == "http":
        if got != want:
            r.fail(f"{tag}:expected-http-{want[1]}", f"{where}: got {got!r}")


# ------------------------------------------------------------------------------------------
# sequential histories


def run_wsgi_history(case, ctype, chunks):
    headers = [["Content-Type", ctype]] if ctype else []
    env = gw.make_environ(gw.areq(method="POST", headers=headers, body=chunks))
    req = W.Request(env)
    out = []
    for op in case["ops"]:
        try:
            if op == "body":
                out.append(("ok", req.body))
            elif op == "stream":
                out.append(("ok", list(req.stream())))
            elif op == "partial":
                it = req.stream()
                got = []
                for c in it:
                    got.append(c)
                    break
                it.close()
                out.append(("ok", got))
            elif op == "json":
                out.append(("ok", req.json))
            elif op == "form":
                fd = req.form
                out.append(("ok", (norm_form(fd, lambda f: f.read()), fd)))
            elif op == "close":
                req.close()
                out.append(("ok", None))
        except Exception as exc:  # noqa: BLE001
            out.append(classify_exc(exc))
    return out, env["wsgi.input"]


def run_asgi_history(case, ctype, chunks, disconnect_at):
    headers = [["Content-Type", ctype]] if ctype else []
    scope = gw.make_scope(gw.areq(method="POST", headers=headers))
    script = [{"type": "http.request", "body": c, "more_body": i < len(chunks) - 1} for i, c in enumerate(chunks)]
    if case.get("omit_more_body") or case.get("partition") == "three":
        # "more_body" is optional and defaults to False; so is "body"
        script[-1].pop("more_body")
        if script[-1]["body"] == b"":
            script[-1].pop("body")
    if disconnect_at is not None:
        script = script[:disconnect_at] + [{"type": "http.disconnect"}]
    state = {"pos": 0, "extra": 0, "calls": 0}

    async def receive():
        state["calls"] += 1
        if state["pos"] < len(script):
            m = dict(script[state["pos"]])
            state["pos"] += 1
            return m
        state["extra"] += 1
        if disconnect_at is not None:
            return {"type": "http.disconnect"}
        raise gw.ExtraReceive("receive() after the final request message")

    async def main():
        req = A.Request(scope, receive)
        out = []
        for op in case["ops"]:
            try:
                if op == "body":
                    out.append(("ok", await req.body))
                elif op == "stream":
                    out.append(("ok", [c async for c in req.stream()]))
                elif op == "partial":
                    agen = req.stream()
                    got = []
                    async for c in agen:
                        got.append(c)
                        break
                    await agen.aclose()
                    out.append(("ok", got))
                elif op == "json":
                    out.append(("ok", await req.json))
                elif op == "form":
                    fd = await req.form
                    items = []
                    for k, v in fd.multi_items():
                        if isinstance(v, str):
                            items.append(["field", k, v])
                        else:
                            try:
                                await v.aseek(0)
                                data = await v.aread()
                            except ValueError:
                                data = "<closed>"
                            items.append(["file", k, v.filename, v.content_type, data])
                    out.append(("ok", (items, fd)))
                elif op == "close":
                    await req.close()
                    out.append(("ok", None))
            except gw.ExtraReceive as exc:
                out.append(("unexpected", f"ExtraReceive: {exc}"))
            except Exception as exc:  # noqa: BLE001
                out.append(classify_exc(exc))
        return out

    out, _ = vtime.run_virtual(main)
    return out, state


def oracle_seq(case) -> Result:
    r = Result()
    ctype, raw, ejson, eform = body_for(case["body"], case.get("payload"))
    if case.get("ctype_override") is not None:
        ctype = case["ctype_override"] or None
        mt = (ctype or "").split(";")[0]
        if mt != "application/json":
            ejson = None
        if mt not in ("multipart/form-data", "application/x-www-form-urlencoded"):
            eform = None
        if mt == "application/json" and ejson is None:
            try:
                ejson = ("ok", json.loads(raw.decode("utf-8")))
            except Exception:  # noqa: BLE001
                ejson = ("http", 400)
        if mt == "application/x-www-form-urlencoded" and eform is None:
            eform = ("ok", [["field", k, v] for k, v in parse_qsl(raw.decode("latin-1"), keep_blank_values=True)])
    chunks = partition(raw, case["partition"])
    side = case["side"]
    disc = case.get("disconnect_at") if side == "asgi" else None
    if disc is not None:
        disc = min(disc, len(chunks) - 1)
    model = Model(ctype, raw, ejson, eform, disconnect=disc is not None)
    where0 = f"{side} body={case['body']} ctype={ctype!r} partition={case['partition']!r} disconnect_at={disc} ops={case['ops']!r}"
    if side == "wsgi":
        wchunks = [c for c in chunks if c]
        outs, inp = run_wsgi_history(case, ctype, wchunks)
    else:
        try:
            outs, state = run_asgi_history(case, ctype, chunks, disc)
        except vtime.Hang as exc:
            r.fail("C10:asgi:hang", f"{where0}: {exc}")
            return r
    objs = {}
    kinds = set()
    for i, (op, got) in enumerate(zip(case["ops"], outs)):
        where = f"{where0} step {i} ({op})"
        kinds.add(op)
        if op == "close":
            if got[0] != "ok":
                r.fail(f"C10:{side}:close-raised", f"{where}: {got!r}")
            continue
        if op == "body":
            want = model.body()
        elif op in ("stream", "partial"):
            want = model.stream(op == "partial")
            if want[0] == "ok" and op == "partial":
                want = ("prefix", want[1])
        elif op == "json":
            want = model.json()
        else:
            want = model.form()
        compare(r, side, where, op, want, got, raw, objs, disconnected=disc is not None)
    if side == "asgi":
        if state["extra"] and disc is None:
            r.fail("C10:asgi:receive-after-final-message", f"{where0}: {state['extra']} receive() call(s) after the final request message")
        if state["calls"] > len(chunks) + (1 if disc is not None else 0) + state["extra"]:
            r.fail("C10:asgi:message-consumed-twice", f"{where0}: {state['calls']} receive() calls for {len(chunks)} messages")
    else:
        if inp.reads_after_eof > 0 and False:
            pass
        if inp.delivered > len(raw):
            r.fail("C10:wsgi:read-past-body", where0)
    r.nontrivial = (len(kinds - {"close"}) >= 2 and len(chunks) >= 2) or disc is not None
    r.label(f"side={side}", f"body={case['body']}", f"ops={len(case['ops'])}")
    if disc is not None:
        r.label("disconnect")
    r.key = (side, case["body"], repr(case["partition"]), tuple(case["ops"]), disc, case.get("ctype_override"), case.get("payload"))
    return r


# ------------------------------------------------------------------------------------------
# concurrent tasks (ASGI, virtual time)


def oracle_conc(case) -> Result:
    r = Result()
    ctype, raw, ejson, eform = body_for(case["body"])
    chunks = partition(raw, case["partition"])
    delays = case["delays"]
    disc = case.get("disconnect_at")
    if disc is not None:
        disc = min(disc, len(chunks) - 1)
    headers = [["Content-Type", ctype]] if ctype else []
    scope = gw.make_scope(gw.areq(method="POST", headers=headers))
    script = [{"type": "http.request", "body": c, "more_body": i < len(chunks) - 1} for i, c in enumerate(chunks)]
    if disc is not None:
        script = script[:disc] + [{"type": "http.disconnect"}]
    state = {"pos": 0, "extra": 0, "calls": 0, "concurrent": 0, "max_concurrent": 0}

    async def receive():
        state["calls"] += 1
        state["concurrent"] += 1
        state["max_concurrent"] = max(state["max_concurrent"], state["concurrent"])
        try:
            i = state["pos"]
            if i < len(script):
                state["pos"] += 1
                d = delays[i % len(delays)] if delays else 0
                if d:
                    await asyncio.sleep(d)
                return dict(script[i])
            state["extra"] += 1
            if disc is not None:
                return {"type": "http.disconnect"}
            raise gw.ExtraReceive("receive() after the final request message")
        finally:
            state["concurrent"] -= 1

    results = []

    async def worker(req, tid, offset, ops):
        if offset:
            await asyncio.sleep(offset)
        for op in ops:
            try:
                if op == "body":
                    results.append((tid, op, ("ok", await req.body)))
                elif op == "stream":
                    results.append((tid, op, ("ok", [c async for c in req.stream()])))
                elif op == "json":
                    results.append((tid, op, ("ok", await req.json)))
                elif op == "form":
                    fd = await req.form
                    items = []
                    for k, v in fd.multi_items():
                        if isinstance(v, str):
                            items.append(["field", k, v])
                        else:
                            await v.aseek(0)
                            items.append(["file", k, v.filename, v.content_type, await v.aread()])
                    results.append((tid, op, ("ok", (items, fd))))
            except gw.ExtraReceive as exc:
                results.append((tid, op, ("unexpected", f"ExtraReceive: {exc}")))
            except Exception as exc:  # noqa: BLE001
                results.append((tid, op, classify_exc(exc)))

    async def main():
        req = A.Request(scope, receive)
        await asyncio.gather(*[worker(req, i, t["offset"], t["ops"]) for i, t in enumerate(case["tasks"])])

    where = f"body={case['body']} partition={case['partition']!r} delays={delays!r} disconnect_at={disc} tasks={case['tasks']!r}"
    try:
        vtime.run_virtual(main)
    except vtime.Hang as exc:
        r.fail("C10:conc:hang", f"{where}: {exc}")
        return r
    bodies = []
    successes = 0
    for tid, op, got in results:
        w = f"{where}: task {tid} {op}"
        if got[0] == "unexpected":
            r.fail(f"C10:conc:{op}:unexpected-exception", f"{w}: {got[1]}")
            continue
        if got[0] == "ok":
            successes += 1
            if disc is not None and op in ("body", "json", "form", "stream"):
                r.fail(f"C10:conc:{op}:disconnect-as-truncated-data", f"{w}: returned {str(got[1])[:60]} although the client disconnected before the final message")
                continue
            val = got[1]
            if op == "body":
                if val != raw:
                    r.fail("C10:conc:body:truncated-or-wrong-body", f"{w}: {len(val)} of {len(raw)} bytes")
                bodies.append(val)
            elif op == "stream":
                if b"".join(val) != raw:
                    r.fail("C10:conc:stream:partial-body-seen", f"{w}: streamed {len(b''.join(val))} of {len(raw)} bytes")
            elif op == "json":
                if ejson is None or ejson[0] != "ok" or val != ejson[1]:
                    r.fail("C10:conc:json:value", f"{w}: {val!r}")
            elif op == "form":
                if eform is None or val[0] != eform[1]:
                    r.fail("C10:conc:form:value", f"{w}: {val[0]!r}")
        elif got[0] == "exc":
            if got[1] == "ClientDisconnect" and disc is None:
                r.fail(f"C10:conc:{op}:spurious-disconnect", w)
        elif got[0] == "http":
            mt = (ctype or "").split(";")[0]
            legit = (op == "json" and (mt != "application/json" or (ejson and ejson[0] == "http"))) or (op == "form" and mt not in ("multipart/form-data", "application/x-www-form-urlencoded"))
            if not legit:
                r.fail(f"C10:conc:{op}:http-error", f"{w}: {got!r}")
    if any(b is not bodies[0] for b in bodies):
        r.fail("C10:conc:body:not-identical", f"{where}: concurrent body accesses returned different objects")
    if state["extra"] and disc is None:
        r.fail("C10:conc:receive-after-final-message", f"{where}: {state['extra']} extra receive() calls")
    if state["calls"] - state["extra"] > len(script):
        r.fail("C10:conc:message-consumed-twice", f"{where}: {state['calls']} receive() calls for {len(script)} messages")
    if state["max_concurrent"] > 1:
        r.fail("C10:conc:concurrent-receive", f"{where}: {state['max_concurrent']} receive() calls were in flight at the same time (two readers share the stream)")
    # all tasks asking only for `body` must all succeed (the cached future is shared)
    if disc is None and all(set(t["ops"]) <= {"body", "json"} for t in case["tasks"]) and (ctype or "").startswith("application/json") and ejson and ejson[0] == "ok":
        if any(got[0] != "ok" for _, _, got in results):
            r.fail("C10:conc:shared-read-failed", f"{where}: {[(t, o, g[0]) for t, o, g in results]!r}")
    r.nontrivial = True
    r.label(f"tasks={len(case['tasks'])}", f"body={case['body']}", "disconnect" if disc is not None else "complete", f"successes={min(successes, 4)}")
    return r


SUBS = {"seq": oracle_seq, "seq_grid": oracle_seq, "conc": oracle_conc}


def grid_shard(rec, k, nshards, maxlen):
    g = core.guarded(oracle_seq)
    i = 0
    for n in range(1, maxlen + 1):
        for ops in itertools.product(OPS, repeat=n):
            for body in ("json", "badjson", "urlencoded", "multipart", "raw"):
                for part in ("whole", "three", "bytes"):
                    for side in ("wsgi", "asgi"):
                        i += 1
                        if i % nshards != k:
                            continue
                        case = {"side": side, "body": body, "partition": part, "ops": list(ops)}
                        res = g(case)
                        rec.count("seq_grid", case, res)
                        new, old = rec.split(res)
                        rec.note_known(old)
                        for f in new:
                            rec.add_violation("seq_grid", f, case)
                            rec.skip.add(f.bucket)


@st.composite
def seq_case(draw):
    body = draw(st.sampled_from(["json", "badjson", "urlencoded", "multipart", "raw", "notype"]))
    case = {"side": draw(st.sampled_from(["wsgi", "asgi", "asgi"])), "body": body, "ops": draw(st.lists(st.sampled_from(OPS), min_size=1, max_size=6))}
    if body == "raw" or body == "notype":
        case["payload"] = draw(st.binary(max_size=200))
    elif body == "urlencoded" and draw(st.booleans()):
        case["payload"] = draw(st.sampled_from([b"", b"a=1", b"x=%ff&y=%E4%B8%AD", b"a&b&c", b"k=v" * 40]))
    case["partition"] = draw(st.one_of(st.sampled_from(["whole", "three", "bytes"]), st.lists(st.integers(0, 200), max_size=6)))
    if draw(st.integers(0, 3)) == 0:
        case["ctype_override"] = draw(st.sampled_from(["application/json", "application/x-www-form-urlencoded", "text/plain", "", "application/json; charset=utf-8"]))
        if body == "multipart":
            case.pop("ctype_override")
    if case["side"] == "asgi" and draw(st.integers(0, 3)) == 0:
        case["disconnect_at"] = draw(st.integers(0, 5))
    return case


@st.composite
def conc_case(draw):
    body = draw(st.sampled_from(["json", "json", "urlencoded", "multipart", "raw"]))
    ntasks = draw(st.integers(2, 4))
    tasks = []
    for _ in range(ntasks):
        tasks.append({"offset": draw(st.sampled_from([0, 0, 0.25, 0.5, 1.0])), "ops": draw(st.lists(st.sampled_from(["body", "body", "json", "form", "stream"]), min_size=1, max_size=3))})
    case = {"body": body, "partition": draw(st.sampled_from(["whole", "three", "three", [3, 9, 9, 20]])), "delays": draw(st.lists(st.sampled_from([0, 0.25, 0.5, 1.0]), min_size=1, max_size=4)), "tasks": tasks}
    if draw(st.integers(0, 3)) == 0:
        case["disconnect_at"] = draw(st.integers(0, 3))
    return case


def run(rec, only=None):
    quick = rec.tier == "quick"
    core.run_sharded(rec, grid_shard, 16, core.ncpu(), (3 if quick else 4,))
    rec.exhaustive["seq_grid"] = True
    core.drive_hypothesis(rec, "seq", seq_case(), oracle_seq, 1500 if quick else 30000)
    core.drive_hypothesis(rec, "conc", conc_case(), oracle_conc, 1000 if quick else 20000, seed_offset=1)
    rec.exhaustive["seq"] = rec.exhaustive["conc"] = False
