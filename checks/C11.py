"""C11 - The WebSocket wrapper only forwards protocol-legal event sequences."""
from __future__ import annotations

import asyncio
import itertools

from hypothesis import strategies as st

from baize.asgi import (
    JSONResponse,
    PlainTextResponse,
    RedirectResponse,
    Response,
    StreamResponse,
    WebSocket,
    WebsocketDenialResponse,
    WebSocketDisconnect,
    WebSocketState,
    request_response,
    websocket_session,
)

from harness import core
from harness.core import Result

LEVEL = "exploration"
RULES = {
    "session": "exhaustive: every sequence of 1..3 (thorough: 4) calls over nine operations issued from inside a websocket_session view (the first raising call ends "
    "the view) x three server scripts: the events reaching the server must form a legal application sequence; non-trivial = the view ended with an exception",
    "exh": "exhaustive (incl. scripts in which the server's send raises on the close frame): every call history of length <= n over 15 wrapper operations (accept, accept(subprotocol), receive, "
    "receive_text, receive_bytes, iter_text(2), iter_bytes(2), send_text, send_bytes, close, close(code), raw send of "
    "accept/send/close/garbage) x server scripts (connect, 0..k text/bytes frames, then disconnect or silence), driven "
    "without an event loop; non-trivial = history contains an illegal call or a disconnect is delivered before the last call",
    "long": "Hypothesis: histories up to 14 calls, scripts up to 6 frames; same rule",
    "guided": "Hypothesis: histories that begin with an accept and are biased to receive operations so that frames and "
    "the disconnect are actually consumed; same rule",
    "denial": "denial paths: WebsocketDenialResponse with/without the websocket.http.response extension over several response "
    "classes, request_response given a websocket scope, websocket_session given an http scope; non-trivial = extension present "
    "or a streaming response",
}
ASSUMPTIONS = [
    "a typed receive that meets a frame of the other kind, or the connect event, may raise anything or return None; only the "
    "forwarded-sequence, no-receive-after-disconnect and state clauses apply to that call",
    "the server always delivers websocket.connect first",
]

ORDER = {WebSocketState.CONNECTING: 0, WebSocketState.CONNECTED: 1, WebSocketState.DISCONNECTED: 2}


class _Never:
    def __await__(self):
        yield self


class Server:
    def __init__(self, script):
        self.script = [dict(e) for e in script]
        self.pos = 0
        self.delivered = []  # events handed to the application
        self.forwarded = []  # events the application sent
        self.receive_calls = 0
        self.disconnect_delivered = False
        self.late_receive = False
        self.fail_close = False
        self.close_failed = False

    async def receive(self):
        self.receive_calls += 1
        if self.disconnect_delivered:
            self.late_receive = True
        if self.pos < len(self.script):
            ev = dict(self.script[self.pos])
            self.pos += 1
            self.delivered.append(dict(ev))
            if ev["type"] == "websocket.disconnect":
                self.disconnect_delivered = True
            return ev
        await _Never()
        raise core.HarnessError("resumed a parked receive")

    async def send(self, message):
        self.forwarded.append(dict(message))  # what the application tried to forward
        if self.fail_close and message.get("type") == "websocket.close" and not self.close_failed:
            self.close_failed = True
            raise OSError("connection lost while sending the close frame (injected)")


def drive(coro):
    try:
        coro.send(None)
    except StopIteration as e:
        return ("ok", e.value)
    except core.HarnessError:
        raise
    except BaseException as e:  # noqa: BLE001
        return ("raise", e)
    coro.close()
    return ("blocked", None)


def build_script(spec):
    """spec: {"frames": "TBT", "end": "disconnect"|"silence"}"""
    script = [{"type": "websocket.connect"}]
    for i, ch in enumerate(spec["frames"]):
        if ch == "T":
            script.append({"type": "websocket.receive", "text": f"t{i}"})
        else:
            script.append({"type": "websocket.receive", "bytes": b"b%d" % i})
    if spec["end"] == "disconnect":
        script.append({"type": "websocket.disconnect", "code": 1001})
    return script


RAW = {
    "raw_accept": {"type": "websocket.accept"},
    "raw_send": {"type": "websocket.send", "text": "raw"},
    "raw_close": {"type": "websocket.close", "code": 1000},
    "raw_garbage": {"type": "websocket.bogus"},
    "raw_http": {"type": "http.response.start", "status": 200},
}
OPS = [
    "accept", "accept_sub", "receive", "receive_text", "receive_bytes", "iter_text", "iter_bytes",
    "send_text", "send_bytes", "close", "close_code", "raw_accept", "raw_send", "raw_close", "raw_garbage",
]


class Model:
    """Reference automaton of wrapper + scripted server."""

    def __init__(self, script, fail_close=False):
        self.script = script
        self.cs = 0
        self.as_ = 0
        self.pos = 0
        self.forwarded = []
        self.fail_close = fail_close
        self.close_failed = False

    def receive(self):
        if self.cs == 2:
            return ("raise", None)
        if self.pos >= len(self.script):
            return ("blocked", None)
        ev = self.script[self.pos]
        self.pos += 1
        if self.cs == 0:
            self.cs = 1
        elif ev["type"] == "websocket.disconnect":
            self.cs = 2
        return ("ok", ev)

    def send(self, msg):
        t = msg["type"]
        if self.as_ == 0 and t in ("websocket.accept", "websocket.close"):
            self.as_ = 2 if t == "websocket.close" else 1
        elif self.as_ == 1 and t in ("websocket.send", "websocket.close"):
            self.as_ = 2 if t == "websocket.close" else 1
        else:
            return ("raise", None)
        self.forwarded.append(dict(msg))
        if self.fail_close and t == "websocket.close" and not self.close_failed:
            # the server's send raises on the close frame: the call fails, but a close was attempted -
            # the connection is over and nothing may be forwarded afterwards
            self.close_failed = True
            return ("fault", None)
        return ("ok", None)

    def typed(self, kind):
        """-> (outcome, payload or None, variation flag)"""
        if self.as_ != 1:
            return ("raise", None, False)
        was_connecting = self.cs == 0
        out, ev = self.receive()
        if out != "ok":
            return (out, None, False)
        if was_connecting:
            return ("any", None, True)
        if ev["type"] == "websocket.disconnect":
            return ("disconnect", None, False)
        if kind in ev and ev[kind] is not None:
            return ("ok", ev[kind], False)
        return ("any", None, True)

    def step(self, op):
        """-> dict(outcome in ok/raise/blocked/any, value=..., check_value=bool)"""
        if op in ("accept", "accept_sub"):
            if self.cs == 0:
                out, _ = self.receive()
                if out != "ok":
                    return {"outcome": out}
            out, _ = self.send({"type": "websocket.accept", "subprotocol": "sp" if op == "accept_sub" else None})
            return {"outcome": out}
        if op == "receive":
            out, ev = self.receive()
            return {"outcome": out, "value": ev, "check_value": out == "ok"}
        if op in ("receive_text", "receive_bytes"):
            out, payload, _ = self.typed("text" if op == "receive_text" else "bytes")
            if out == "disconnect":
                return {"outcome": "raise", "exc": WebSocketDisconnect}
            return {"outcome": out, "value": payload, "check_value": out == "ok"}
        if op in ("iter_text", "iter_bytes"):
            vals = []
            for _ in range(2):
                out, payload, _ = self.typed("text" if op == "iter_text" else "bytes")
                if out == "disconnect":
                    return {"outcome": "ok", "value": vals, "check_value": True}
                if out == "any":
                    return {"outcome": "any"}
                if out != "ok":
                    return {"outcome": out}
                vals.append(payload)
            return {"outcome": "ok", "value": vals, "check_value": True}
        if op == "send_text":
            return {"outcome": self.send({"type": "websocket.send", "text": "hello"})[0]}
        if op == "send_bytes":
            return {"outcome": self.send({"type": "websocket.send", "bytes": b"hello"})[0]}
        if op in ("close", "close_code"):
            if self.as_ == 2:
                return {"outcome": "ok"}
            code = 4000 if op == "close_code" else 1000
            return {"outcome": self.send({"type": "websocket.close", "code": code, "reason": None})[0]}
        if op in RAW:
            return {"outcome": self.send(RAW[op])[0]}
        raise core.HarnessError(op)


def real_step(ws, op):
    if op == "accept":
        return drive(ws.accept())
    if op == "accept_sub":
        return drive(ws.accept("sp"))
    if op == "receive":
        return drive(ws.receive())
    if op == "receive_text":
        return drive(ws.receive_text())
    if op == "receive_bytes":
        return drive(ws.receive_bytes())
    if op in ("iter_text", "iter_bytes"):
        agen = ws.iter_text() if op == "iter_text" else ws.iter_bytes()
        vals = []
        result = ("ok", vals)
        for _ in range(2):
            out = drive(agen.__anext__())
            if out[0] == "ok":
                vals.append(out[1])
            elif out[0] == "raise" and isinstance(out[1], StopAsyncIteration):
                break
            else:
                result = out
                break
        drive(agen.aclose())
        return result
    if op == "send_text":
        return drive(ws.send_text("hello"))
    if op == "send_bytes":
        return drive(ws.send_bytes(b"hello"))
    if op == "close":
        return drive(ws.close())
    if op == "close_code":
        return drive(ws.close(4000))
    if op in RAW:
        return drive(ws.send(dict(RAW[op])))
    raise core.HarnessError(op)


def app_sequence_legal(forwarded):
    """Application-side automaton: accept or close first, data only between accept and close,
    nothing after close."""
    state = 0
    for i, m in enumerate(forwarded):
        t = m.get("type")
        if state == 0 and t == "websocket.accept":
            state = 1
        elif state == 0 and t == "websocket.close":
            state = 2
        elif state == 1 and t == "websocket.send":
            pass
        elif state == 1 and t == "websocket.close":
            state = 2
        else:
            return f"event #{i} {t!r} illegal in state {['connecting', 'open', 'closed'][state]}"
    return None


def oracle(case) -> Result:
    r = Result()
    script = build_script(case["script"])
    ops = case["ops"]
    server = Server(script)
    server.fail_close = bool(case["script"].get("fail_close"))
    model = Model(script, server.fail_close)
    scope = {"type": "websocket", "path": "/", "headers": [], "subprotocols": ["sp"]}
    ws = WebSocket(scope, server.receive, server.send)
    illegal_seen = False
    states = [(ORDER[ws.client_state], ORDER[ws.application_state])]
    ctx = f"script={case['script']!r} ops={ops!r}"
    for i, op in enumerate(ops):
        fwd_before = len(server.forwarded)
        delivered_before = len(server.delivered)
        want = model.step(op)
        got = real_step(ws, op)
        where = f"step {i} {op}: {ctx}"
        # clause 1: forwarded sequence legal (independent of the model)
        bad = app_sequence_legal(server.forwarded)
        if bad:
            r.fail(f"C11:illegal-forward:{op}", f"{where}: {bad}; forwarded={server.forwarded!r}")
        # clause 3
        if server.late_receive:
            r.fail(f"C11:receive-after-disconnect:{op}", f"{where}: server receive() called after the disconnect was delivered")
        # clause 6
        cur = (ORDER[ws.client_state], ORDER[ws.application_state])
        if cur[0] < states[-1][0] or cur[1] < states[-1][1]:
            r.fail(f"C11:state-went-back:{op}", f"{where}: states {states[-1]} -> {cur}")
        states.append(cur)
        fwd_types = [m["type"] for m in server.forwarded]
        want_as = 2 if "websocket.close" in fwd_types else 1 if "websocket.accept" in fwd_types else 0
        dl_types = [m["type"] for m in server.delivered]
        want_cs = 2 if "websocket.disconnect" in dl_types else 1 if dl_types else 0
        if cur != (want_cs, want_as):
            r.fail(
                f"C11:state-misreported:{op}",
                f"{where}: (client, application) state {cur}, but delivered={dl_types} forwarded={fwd_types} imply {(want_cs, want_as)}",
            )
        # model comparison
        if want["outcome"] == "fault":
            if got[0] != "raise" or not isinstance(got[1], OSError):
                r.fail(f"C11:injected-fault-swallowed:{op}", f"{where}: outcome {got[0]} {got[1]!r}")
        elif want["outcome"] == "raise":
            illegal_seen = True
            if got[0] != "raise":
                r.fail(f"C11:illegal-call-did-not-raise:{op}", f"{where}: outcome {got[0]} {got[1]!r}")
            if len(server.forwarded) != fwd_before:
                r.fail(f"C11:illegal-call-forwarded:{op}", f"{where}: forwarded {server.forwarded[fwd_before:]!r}")
            if want.get("exc") is not None and got[0] == "raise" and not isinstance(got[1], want["exc"]):
                r.fail(f"C11:wrong-exception:{op}", f"{where}: raised {got[1]!r}, expected {want['exc'].__name__}")
        elif want["outcome"] == "any":
            if got[0] == "blocked":
                r.fail(f"C11:unexpected-block:{op}", f"{where}")
            # resynchronise the model with what the wrapper consumed
            model.pos = server.pos
            model.forwarded = [dict(m) for m in server.forwarded]
        else:
            if got[0] != want["outcome"]:
                r.fail(f"C11:outcome:{op}", f"{where}: outcome {got[0]} {got[1]!r}, reference says {want['outcome']}")
            elif want.get("check_value"):
                # clause 4: frames returned exactly once, in order
                if op == "receive":
                    if got[1] != want["value"]:
                        r.fail(f"C11:payload:{op}", f"{where}: returned {got[1]!r}, delivered {want['value']!r}")
                elif got[1] != want["value"]:
                    r.fail(f"C11:payload:{op}", f"{where}: returned {got[1]!r}, delivered frames {want['value']!r}")
        if want["outcome"] != "any":
            if server.forwarded != model.forwarded:
                r.fail(f"C11:forwarded-differs:{op}", f"{where}: forwarded {server.forwarded!r}, reference {model.forwarded!r}")
            if server.pos != model.pos:
                r.fail(f"C11:consumption-differs:{op}", f"{where}: consumed {server.pos} server events, reference {model.pos}")
        if got[0] == "blocked" or r.failures:
            break
        _ = delivered_before
    disc_early = server.disconnect_delivered and len(ops) > 0
    r.nontrivial = illegal_seen or (disc_early and server.pos == len(script) and len(ops) >= 2)
    r.label(f"len={len(ops)}", f"end={case['script']['end']}")
    if illegal_seen:
        r.label("has-illegal-call")
    if server.disconnect_delivered:
        r.label("disconnect-delivered")
    r.key = (case["script"]["frames"], case["script"]["end"], bool(case["script"].get("fail_close")), tuple(ops))
    if case["script"].get("fail_close"):
        r.label("close-frame-fault")
    return r


# ------------------------------------------------------------------------------------------
# denial paths


def _run(coro):
    loop = asyncio.new_event_loop()
    try:
        return loop.run_until_complete(asyncio.wait_for(coro, 20))
    finally:
        loop.run_until_complete(loop.shutdown_asyncgens())
        loop.close()


def denial_sequence_legal(events, extension):
    if not extension:
        if [e.get("type") for e in events] != ["websocket.close"]:
            return f"without the extension exactly one websocket.close is legal, got {[e.get('type') for e in events]}"
        return None
    if not events or events[0].get("type") != "websocket.http.response.start":
        return f"first event {events[:1]!r}"
    if type(events[0].get("status")) is not int:
        return "status not int"
    bodies = events[1:]
    if not bodies:
        return "no body event"
    for i, e in enumerate(bodies):
        if e.get("type") != "websocket.http.response.body":
            return f"event {i + 1} is {e.get('type')!r}"
        last = i == len(bodies) - 1
        if bool(e.get("more_body", False)) == last:
            return f"more_body of body event {i} is {e.get('more_body')!r} (last={last})"
    return None


_TMP = []


def make_response(kind):
    if kind == "empty404":
        return Response(404)
    if kind == "plain":
        return PlainTextResponse("denied", 403)
    if kind == "json":
        return JSONResponse({"error": "denied"}, 401)
    if kind == "redirect":
        return RedirectResponse("/login")
    if kind == "file":
        # with the zero-copy extension a FileResponse emits http.response.zerocopysend events,
        # which have no websocket denial counterpart
        import os
        import tempfile

        fd, path = tempfile.mkstemp(prefix="verif_c11_", suffix=".txt")
        os.write(fd, b"denied")
        os.close(fd)
        _TMP.append(path)
        from baize.asgi import FileResponse

        return FileResponse(path)
    if kind == "stream":

        async def gen():
            yield b"a"
            yield b"b"

        return StreamResponse(gen(), 403)
    raise core.HarnessError(kind)


def oracle_denial(case) -> Result:
    r = Result()
    via, kind, ext = case["via"], case["response"], case["extension"]
    sent = []

    async def send(m):
        sent.append(dict(m))

    async def receive():
        await asyncio.sleep(3600)

    if via == "session-http":
        scope = {"type": "http", "method": "GET", "path": "/", "headers": [], "query_string": b""}

        @websocket_session
        async def app(ws):  # pragma: no cover - must not run
            raise core.HarnessError("websocket view ran for an http scope")

        _run(app(scope, receive, send))
        types = [e.get("type") for e in sent]
        if types[:1] != ["http.response.start"] or sent[0].get("status") != 404 or types[1:] != ["http.response.body"] or sent[1].get("more_body"):
            r.fail("C11:denial:session-http", f"websocket_session on http scope sent {sent!r}")
        r.label("via=session-http")
        r.nontrivial = True
        return r
    scope = {"type": "websocket", "path": "/", "headers": [], "subprotocols": [], "method": "GET"}
    if ext:
        scope["extensions"] = {"websocket.http.response": {}}
    if kind == "file" and ext:
        scope["extensions"]["http.response.zerocopysend"] = {}
    if via == "denial":
        app = WebsocketDenialResponse(make_response(kind))
    else:

        @request_response
        async def app(request):  # pragma: no cover - must not run
            raise core.HarnessError("http view ran for a websocket scope")

    raised = None
    try:
        _run(app(scope, receive, send))
    except (ValueError, OSError) as exc:
        raised = exc  # an event that cannot be expressed as a denial response may be refused ...
    foreign = [e.get("type") for e in sent if not str(e.get("type", "")).startswith("websocket.")]
    if foreign:
        # ... but it must never be forwarded to the websocket server as it is
        r.fail(f"C11:denial:{via}:foreign-event-forwarded", f"{case!r}: forwarded {foreign!r} to a websocket connection; events {sent!r}")
    import os as _os

    while _TMP:
        try:
            _os.unlink(_TMP.pop())
        except OSError:
            pass
    bad = None if (raised is not None and kind == "file") else denial_sequence_legal(sent, ext)
    if bad:
        r.fail(f"C11:denial:{via}:{'ext' if ext else 'noext'}", f"{case!r}: {bad}; events {sent!r}")
    r.label(f"via={via}", f"ext={ext}", f"resp={kind}")
    r.nontrivial = bool(ext) or kind == "stream"
    return r


async def _await_op(ws, op):
    if op == "accept":
        return await ws.accept()
    if op == "accept_sub":
        return await ws.accept("sp")
    if op == "receive":
        return await ws.receive()
    if op == "receive_text":
        return await ws.receive_text()
    if op == "receive_bytes":
        return await ws.receive_bytes()
    if op == "send_text":
        return await ws.send_text("hello")
    if op == "send_bytes":
        return await ws.send_bytes(b"hello")
    if op == "close":
        return await ws.close()
    if op == "close_code":
        return await ws.close(4000)
    if op in RAW:
        return await ws.send(dict(RAW[op]))
    raise core.HarnessError(op)


def oracle_session(case) -> Result:
    """The same call sequences issued from inside a `websocket_session` view, where the first call
    that raises ends the view with that exception: whatever the shortcut itself does around the view,
    the events that reach the server must still form a legal application sequence."""
    r = Result()
    script = build_script(case["script"])
    ops = case["ops"]
    server = Server(script)
    ran = []

    @websocket_session
    async def app(ws):
        for op in ops:
            ran.append(op)
            await _await_op(ws, op)

    scope = {"type": "websocket", "path": "/", "headers": [], "subprotocols": ["sp"]}
    out = drive(app(scope, server.receive, server.send))
    ctx = f"script={case['script']!r} ops={ops!r} (view ended: {out[0]}{' ' + type(out[1]).__name__ if out[0] == 'raise' else ''} after {ran!r})"
    bad = app_sequence_legal(server.forwarded)
    if bad:
        r.fail("C11:session:illegal-forwarded-sequence", f"{ctx}: {bad}; forwarded {server.forwarded!r}")
    if server.late_receive:
        r.fail("C11:session:receive-after-disconnect", f"{ctx}: receive issued after the disconnect was delivered")
    r.nontrivial = out[0] == "raise"
    r.label(f"end={out[0]}", f"len={len(ops)}")
    return r


SUBS = {"exh": oracle, "long": oracle, "guided": oracle, "denial": oracle_denial, "session": oracle_session}


def scripts(maxframes):
    for n in range(maxframes + 1):
        for fr in itertools.product("TB", repeat=n):
            for end in ("disconnect", "silence"):
                yield {"frames": "".join(fr), "end": end}
    # fault: the server's send raises on the (first) close frame
    for fr in ("", "T"):
        yield {"frames": fr, "end": "silence", "fail_close": True}


def exh_shard(rec, k, nshards, maxlen, maxframes):
    g = core.guarded(oracle)
    scr = list(scripts(maxframes))
    i = 0
    for n in range(0, maxlen + 1):
        for seq in itertools.product(OPS, repeat=n):
            i += 1
            if i % nshards != k:
                continue
            for s in scr:
                case = {"script": s, "ops": list(seq)}
                res = g(case)
                rec.count("exh", case, res)
                new, old = rec.split(res)
                rec.note_known(old)
                for f in new:
                    rec.add_violation("exh", f, case)
                    rec.skip.add(f.bucket)


def long_case():
    return st.fixed_dictionaries(
        {
            "script": st.fixed_dictionaries(
                {"frames": st.text(alphabet="TB", max_size=6), "end": st.sampled_from(["disconnect", "silence"]), "fail_close": st.sampled_from([False, False, True])}
            ),
            "ops": st.lists(st.sampled_from(OPS + ["raw_http"]), min_size=1, max_size=14),
        }
    )


def guided_case():
    """Histories that start like a real session so that frames and the disconnect are reached."""
    pre = st.sampled_from([["accept"], ["accept_sub"], ["receive", "accept"], ["raw_accept"], ["accept", "send_text"]])
    body = st.lists(
        st.sampled_from(
            ["receive", "receive_text", "receive_bytes", "iter_text", "iter_bytes"] * 4
            + ["send_text", "send_bytes"] * 3
            + ["close", "close_code", "raw_close", "raw_send", "accept", "raw_accept", "raw_garbage"]
        ),
        min_size=1,
        max_size=12,
    )
    return st.fixed_dictionaries(
        {
            "script": st.fixed_dictionaries(
                {"frames": st.text(alphabet="TB", max_size=5), "end": st.sampled_from(["disconnect", "disconnect", "silence"]), "fail_close": st.sampled_from([False, False, True])}
            ),
            "ops": st.builds(lambda a, b: a + b, pre, body),
        }
    )


def denial_cases():
    for kind in ("empty404", "plain", "json", "redirect", "stream", "file"):
        for ext in (False, True):
            yield {"via": "denial", "response": kind, "extension": ext}
    for ext in (False, True):
        yield {"via": "request_response", "response": "empty404", "extension": ext}
    yield {"via": "session-http", "response": "empty404", "extension": False}


def session_cases(maxlen):
    ops = ["accept", "receive", "receive_text", "send_text", "close", "close_code", "raw_close", "raw_send", "raw_garbage"]
    for spec in ({"frames": "", "end": "disconnect"}, {"frames": "T", "end": "silence"}, {"frames": "TB", "end": "disconnect"}):
        for n in range(1, maxlen + 1):
            for combo in itertools.product(ops, repeat=n):
                yield {"script": spec, "ops": list(combo)}


def run(rec, only=None):
    quick = rec.tier == "quick"
    if quick:
        core.run_sharded(rec, exh_shard, 16, core.ncpu(), (4, 2))
    else:
        core.run_sharded(rec, exh_shard, 128, core.ncpu(), (5, 3))
    rec.exhaustive["exh"] = True
    core.drive_hypothesis(rec, "long", long_case(), oracle, 2000 if quick else 50000)
    core.drive_hypothesis(rec, "guided", guided_case(), oracle, 2000 if quick else 50000, seed_offset=5)
    core.drive_cases(rec, "denial", denial_cases(), oracle_denial)
    core.drive_cases(rec, "session", session_cases(3 if quick else 4), oracle_session, sample=True)
    rec.exhaustive["session"] = True
    rec.exhaustive["long"] = rec.exhaustive["guided"] = False
    rec.exhaustive["denial"] = True
