"""C11 - The WebSocket wrapper only forwards protocol-legal event sequences."""
from __future__ import annotations

import asyncio
import itertools

from hypothesis import strategies as st

from baize.asgi import (
    JSONResponse,
    PlainTextResponse,
    RedirectResponse,
    Response,
    StreamResponse,
    WebSocket,
    WebsocketDenialResponse,
    WebSocketDisconnect,
    WebSocketState,
    request_response,
    websocket_session,
)

from harness import core
from harness.core import Result

LEVEL = "exploration"
RULES = {
    "session": "exhaustive: every sequence of 1..3 (thorough: 4) calls over nine operations issued from inside a websocket_session view (the first raising call ends "
    "the view) x three server scripts, x three scripts in which the view parks and is cancelled by a thrown CancelledError, x two scripts in which the server's send "
    "raises on the accept / first data frame: the events reaching the server must form a legal application sequence; non-trivial = the view ended with an exception, "
    "or was cancelled after it had forwarded something",
    "exh": "exhaustive (incl. scripts in which the server's send raises on the close frame): every call history of length <= n over 15 wrapper operations (accept, accept(subprotocol), receive, "
    "receive_text, receive_bytes, iter_text(2), iter_bytes(2), send_text, send_bytes, close, close(code), raw send of "
    "accept/send/close/garbage) x server scripts (connect, 0..k text/bytes frames, then disconnect or silence), driven "
    "without an event loop (a call that parks is cancelled and the history goes on); non-trivial = history contains an illegal call, a disconnect is delivered "
    "before the last call, or calls follow a cancelled call / a failed send",
    "long": "Hypothesis: histories up to 14 calls, scripts up to 6 frames; same rule",
    "guided": "Hypothesis: histories that begin with an accept and are biased to receive operations so that frames and "
    "the disconnect are actually consumed; same rule",
    "denial": "denial paths: WebsocketDenialResponse with/without the websocket.http.response extension (also: other extensions only, "
    "no response object) over several response classes, request_response given a websocket scope (the http view must not run), "
    "websocket_session given an http scope, and a slow streaming denial while the server delivers connect + disconnect (no "
    "receive after the disconnect); non-trivial = extension present or a streaming response",
    "ext": "exhaustive: every call history of length <= 3 over 23 operations (the 15 of `exh` + empty-payload sends, close(code, reason), "
    "raw denial-response / http events, two persistent iterators) x server scripts outside the `exh` family: empty frames, frames "
    "carrying both keys (one None), disconnect codes 1000/1005/1006/4000 with/without/None reason, receive calls that park and are "
    "cancelled (coroutine closed or CancelledError thrown) before the connect event, a frame or the disconnect, and a server send "
    "that raises or parks on the n-th forwarded event; histories continue after a cancelled call; same rule as `exh`",
    "iters": "exhaustive: histories of length <= 4 (thorough: 5) over nine operations including `next` on one persistent iter_text() and "
    "one persistent iter_bytes() iterator, so that an iterator is used across accept / close / disconnect / cancellation; same rule",
    "guided2": "Hypothesis: guided histories over the 23 operations and the whole extended script family; same rule",
}
ASSUMPTIONS = [
    "a typed receive that meets a frame of the other kind, or the connect event, may raise anything or return None; only the "
    "forwarded-sequence, no-receive-after-disconnect and state clauses apply to that call",
    "the server always delivers websocket.connect first",
    "a call that is cancelled while it waits for the server (receive parked, send parked) must let the cancellation propagate; the "
    "event it was forwarding counts as forwarded (attempted), an event it was waiting for is not consumed",
    "an iterator that met a frame of the other kind is in an unknown state: later `next` calls on it are only judged by the "
    "forwarded-sequence, no-receive-after-disconnect and state clauses",
]

class _Never:
    def __await__(self):
        yield self


PARK = "__park__"  # script item: the receive call that meets it parks and is cancelled; the next call goes on
STOP = "<iterator exhausted>"


class Server:
    def __init__(self, script, spec=None):
        spec = spec or {}
        self.script = [dict(e) for e in script]
        self.pos = 0
        self.delivered = []  # events handed to the application
        self.forwarded = []  # events the application sent
        self.receive_calls = 0
        self.disconnect_delivered = False
        self.late_receive = False
        self.fail_close = bool(spec.get("fail_close"))
        self.close_failed = False
        self.fail_at = spec.get("fail_at")  # index of the forwarded event on which the server's send fails
        self.fail_how = spec.get("fail_how", "raise")  # "raise": OSError; "park": never completes (caller is cancelled)

    async def receive(self):
        self.receive_calls += 1
        if self.disconnect_delivered:
            self.late_receive = True
        if self.pos < len(self.script):
            ev = dict(self.script[self.pos])
            self.pos += 1
            if ev["type"] == PARK:
                await _Never()
                raise core.HarnessError("resumed a parked receive")
            self.delivered.append(dict(ev))
            if ev["type"] == "websocket.disconnect":
                self.disconnect_delivered = True
            return ev
        await _Never()
        raise core.HarnessError("resumed a parked receive")

    async def send(self, message):
        self.forwarded.append(dict(message))  # what the application tried to forward
        if self.fail_close and message.get("type") == "websocket.close" and not self.close_failed:
            self.close_failed = True
            raise OSError("connection lost while sending the close frame (injected)")
        if self.fail_at is not None and len(self.forwarded) - 1 == self.fail_at:
            if self.fail_how == "park":
                await _Never()
                raise core.HarnessError("resumed a parked send")
            raise OSError("connection lost while sending (injected)")


def drive(coro, cancel="close"):
    """Run a coroutine of the wrapper without an event loop.  If it parks (the scripted server has
    nothing to deliver / never completes a send) it is cancelled: `close` = the coroutine is closed,
    `throw` = asyncio.CancelledError is thrown into it, as a task's cancel() does."""
    try:
        coro.send(None)
    except StopIteration as e:
        return ("ok", e.value)
    except core.HarnessError:
        raise
    except BaseException as e:  # noqa: BLE001
        return ("raise", e)
    if cancel == "throw":
        try:
            coro.throw(asyncio.CancelledError())
        except asyncio.CancelledError:
            return ("blocked", None)
        except StopIteration as e:
            return ("swallowed-cancel", e.value)
        except core.HarnessError:
            raise
        except BaseException as e:  # noqa: BLE001
            return ("raise", e)
        coro.close()
        return ("swallowed-cancel", None)
    coro.close()
    return ("blocked", None)


def _frame(ch, i):
    if ch == "T":
        return {"type": "websocket.receive", "text": f"t{i}"}
    if ch == "B":
        return {"type": "websocket.receive", "bytes": b"b%d" % i}
    if ch == "t":  # empty text frame
        return {"type": "websocket.receive", "text": ""}
    if ch == "b":  # empty binary frame
        return {"type": "websocket.receive", "bytes": b""}
    # both keys present, the other one None (ASGI: "if missing, it is equivalent to None"; hypercorn does this)
    if ch == "U":
        return {"type": "websocket.receive", "bytes": None, "text": f"u{i}"}
    if ch == "C":
        return {"type": "websocket.receive", "bytes": b"c%d" % i, "text": None}
    if ch == "u":
        return {"type": "websocket.receive", "bytes": None, "text": ""}
    if ch == "c":
        return {"type": "websocket.receive", "bytes": b"", "text": None}
    if ch == ".":
        return {"type": PARK}
    raise core.HarnessError(f"frame spec {ch!r}")


def build_script(spec):
    """spec: {"frames": "TB.t", "end": "disconnect"|"silence", optional "park_connect": bool, "code": int,
    "reason": str|None (key present in the event only if present in the spec)}"""
    script = []
    if spec.get("park_connect"):
        script.append({"type": PARK})
    script.append({"type": "websocket.connect"})
    for i, ch in enumerate(spec["frames"]):
        script.append(_frame(ch, i))
    if spec["end"] == "disconnect":
        ev = {"type": "websocket.disconnect", "code": spec.get("code", 1001)}
        if "reason" in spec:
            ev["reason"] = spec["reason"]
        script.append(ev)
    return script


RAW = {
    "raw_accept": {"type": "websocket.accept"},
    "raw_send": {"type": "websocket.send", "text": "raw"},
    "raw_close": {"type": "websocket.close", "code": 1000},
    "raw_garbage": {"type": "websocket.bogus"},
    "raw_http": {"type": "http.response.start", "status": 200},
    # the statement's application sequence is "accept or close first": the wrapper has no denial-response support,
    # so these are illegal in every state
    "raw_denial_start": {"type": "websocket.http.response.start", "status": 403, "headers": []},
    "raw_denial_body": {"type": "websocket.http.response.body", "body": b"denied"},
}
OPS = [
    "accept", "accept_sub", "receive", "receive_text", "receive_bytes", "iter_text", "iter_bytes",
    "send_text", "send_bytes", "close", "close_code", "raw_accept", "raw_send", "raw_close", "raw_garbage",
]
EXT_OPS = OPS + [
    "send_text_empty", "send_bytes_empty", "close_reason", "raw_denial_start", "raw_denial_body", "raw_http",
    "itT_next", "itB_next",
]
ITER_OPS = ["accept", "itT_next", "itB_next", "close", "receive", "receive_text", "send_text", "iter_text", "raw_close"]
SEND_PAYLOAD = {
    "send_text": {"type": "websocket.send", "text": "hello"},
    "send_bytes": {"type": "websocket.send", "bytes": b"hello"},
    "send_text_empty": {"type": "websocket.send", "text": ""},
    "send_bytes_empty": {"type": "websocket.send", "bytes": b""},
}
CLOSE_ARGS = {"close": (), "close_code": (4000,), "close_reason": (1001, "bye")}


class Model:
    """Reference automaton of wrapper + scripted server."""

    def __init__(self, script, spec=None):
        spec = spec or {}
        self.script = script
        self.cs = 0
        self.as_ = 0
        self.pos = 0
        self.forwarded = []
        self.fail_close = bool(spec.get("fail_close"))
        self.close_failed = False
        self.fail_at = spec.get("fail_at")
        self.fail_how = spec.get("fail_how", "raise")
        self.iters = {"text": "new", "bytes": "new"}  # persistent iterators: new / live / done / unknown

    def receive(self):
        if self.cs == 2:
            return ("raise", None)
        if self.pos >= len(self.script):
            return ("blocked", None)
        ev = self.script[self.pos]
        self.pos += 1
        if ev["type"] == PARK:
            # the call parks and is cancelled: nothing was delivered, no state may have moved
            return ("blocked", None)
        if self.cs == 0:
            self.cs = 1
        elif ev["type"] == "websocket.disconnect":
            self.cs = 2
        return ("ok", ev)

    def send(self, msg):
        t = msg["type"]
        if self.as_ == 0 and t in ("websocket.accept", "websocket.close"):
            self.as_ = 2 if t == "websocket.close" else 1
        elif self.as_ == 1 and t in ("websocket.send", "websocket.close"):
            self.as_ = 2 if t == "websocket.close" else 1
        else:
            return ("raise", None)
        self.forwarded.append(dict(msg))
        if self.fail_close and t == "websocket.close" and not self.close_failed:
            # the server's send raises on the close frame: the call fails, but a close was attempted -
            # the connection is over and nothing may be forwarded afterwards
            self.close_failed = True
            return ("fault", None)
        if self.fail_at is not None and len(self.forwarded) - 1 == self.fail_at:
            # likewise for any other frame: the event was handed to the server (attempted), the call fails or is
            # cancelled; handing the same kind of event over again (accept, accept) would be an illegal sequence
            return ("blocked" if self.fail_how == "park" else "fault", None)
        return ("ok", None)

    def typed(self, kind):
        """-> (outcome, payload or None, variation flag)"""
        if self.as_ != 1:
            return ("raise", None, False)
        was_connecting = self.cs == 0
        out, ev = self.receive()
        if out != "ok":
            return (out, None, False)
        if was_connecting:
            return ("any", None, True)
        if ev["type"] == "websocket.disconnect":
            return ("disconnect", None, False)
        if kind in ev and ev[kind] is not None:
            return ("ok", ev[kind], False)
        if kind in ev:
            # a frame of the other kind that carries this key with None: the typed receive may well return that None,
            # so an iterator goes on to the next event
            return ("anynone", None, True)
        return ("any", None, True)

    def resync(self, server):
        """After a call whose result is accepted variation: take over what the wrapper consumed."""
        self.pos = server.pos
        self.forwarded = [dict(m) for m in server.forwarded]
        types = [m["type"] for m in server.delivered]
        self.cs = 2 if "websocket.disconnect" in types else 1 if types else 0

    def step(self, op):
        """-> dict(outcome in ok/raise/blocked/fault/any/anyblock, value=..., check_value=bool)"""
        if op in ("accept", "accept_sub"):
            if self.cs == 0:
                out, _ = self.receive()
                if out != "ok":
                    return {"outcome": out}
            out, _ = self.send({"type": "websocket.accept", "subprotocol": "sp" if op == "accept_sub" else None})
            return {"outcome": out}
        if op == "receive":
            out, ev = self.receive()
            return {"outcome": out, "value": ev, "check_value": out == "ok"}
        if op in ("receive_text", "receive_bytes"):
            out, payload, _ = self.typed("text" if op == "receive_text" else "bytes")
            if out == "disconnect":
                return {"outcome": "raise", "exc": WebSocketDisconnect}
            if out == "anynone":
                out = "any"
            return {"outcome": out, "value": payload, "check_value": out == "ok"}
        if op in ("iter_text", "iter_bytes"):
            vals = []
            for _ in range(2):
                out, payload, _ = self.typed("text" if op == "iter_text" else "bytes")
                if out == "disconnect":
                    return {"outcome": "ok", "value": vals, "check_value": True}
                if out == "any":
                    return {"outcome": "any"}
                if out == "anynone":
                    return {"outcome": "anyblock"}
                if out != "ok":
                    return {"outcome": out}
                vals.append(payload)
            return {"outcome": "ok", "value": vals, "check_value": True}
        if op in ("itT_next", "itB_next"):
            # `next` on ONE iter_text() / iter_bytes() iterator that lives as long as the history
            kind = "text" if op == "itT_next" else "bytes"
            st_ = self.iters[kind]
            if st_ == "done":
                return {"outcome": "ok", "value": STOP, "check_value": True}
            if st_ == "unknown":
                return {"outcome": "anyblock"}
            out, payload, _ = self.typed(kind)
            if out == "ok":
                self.iters[kind] = "live"
                return {"outcome": "ok", "value": payload, "check_value": True}
            if out == "disconnect":
                self.iters[kind] = "done"
                return {"outcome": "ok", "value": STOP, "check_value": True}
            if out in ("any", "anynone"):
                self.iters[kind] = "unknown"  # raised inside the generator (finished) or yielded None (alive)
                return {"outcome": "any"}
            self.iters[kind] = "done"  # an exception / the cancellation went through the generator frame
            return {"outcome": out}
        if op in SEND_PAYLOAD:
            return {"outcome": self.send(SEND_PAYLOAD[op])[0]}
        if op in CLOSE_ARGS:
            if self.as_ == 2:
                return {"outcome": "ok"}
            args = CLOSE_ARGS[op]
            code = args[0] if args else 1000
            reason = args[1] if len(args) > 1 else None
            return {"outcome": self.send({"type": "websocket.close", "code": code, "reason": reason})[0]}
        if op in RAW:
            return {"outcome": self.send(RAW[op])[0]}
        raise core.HarnessError(op)


def real_step(ws, op, cancel="close", its=None):
    if op == "accept":
        return drive(ws.accept(), cancel)
    if op == "accept_sub":
        return drive(ws.accept("sp"), cancel)
    if op == "receive":
        return drive(ws.receive(), cancel)
    if op == "receive_text":
        return drive(ws.receive_text(), cancel)
    if op == "receive_bytes":
        return drive(ws.receive_bytes(), cancel)
    if op in ("iter_text", "iter_bytes"):
        agen = ws.iter_text() if op == "iter_text" else ws.iter_bytes()
        vals = []
        result = ("ok", vals)
        for _ in range(2):
            out = drive(agen.__anext__(), cancel)
            if out[0] == "ok":
                vals.append(out[1])
            elif out[0] == "raise" and isinstance(out[1], StopAsyncIteration):
                break
            else:
                result = out
                break
        drive(agen.aclose())
        return result
    if op in ("itT_next", "itB_next"):
        if op not in its:
            its[op] = ws.iter_text() if op == "itT_next" else ws.iter_bytes()
        # always cancelled the way a task is: closing the __anext__ awaitable would leave the generator "running"
        out = drive(its[op].__anext__(), "throw")
        if out[0] == "raise" and isinstance(out[1], StopAsyncIteration):
            return ("ok", STOP)
        return out
    if op in SEND_PAYLOAD:
        data = SEND_PAYLOAD[op]
        return drive(ws.send_text(data["text"]) if "text" in data else ws.send_bytes(data["bytes"]), cancel)
    if op in CLOSE_ARGS:
        return drive(ws.close(*CLOSE_ARGS[op]), cancel)
    if op in RAW:
        return drive(ws.send(dict(RAW[op])), cancel)
    raise core.HarnessError(op)


def app_sequence_legal(forwarded):
    """Application-side automaton: accept or close first, data only between accept and close,
    nothing after close."""
    state = 0
    for i, m in enumerate(forwarded):
        t = m.get("type")
        if state == 0 and t == "websocket.accept":
            state = 1
        elif state == 0 and t == "websocket.close":
            state = 2
        elif state == 1 and t == "websocket.send":
            pass
        elif state == 1 and t == "websocket.close":
            state = 2
        else:
            return f"event #{i} {t!r} illegal in state {['connecting', 'open', 'closed'][state]}"
    return None


class _Where:
    __slots__ = ("i", "op", "spec", "ops")

    def __init__(self, i, op, spec, ops):
        self.i, self.op, self.spec, self.ops = i, op, spec, ops

    def __format__(self, _fmt):
        return f"step {self.i} {self.op}: script={self.spec!r} ops={self.ops!r}"


def _ord(state):
    if state is WebSocketState.CONNECTING:
        return 0
    if state is WebSocketState.CONNECTED:
        return 1
    if state is WebSocketState.DISCONNECTED:
        return 2
    raise core.HarnessError(f"unknown state {state!r}")


def oracle(case) -> Result:
    r = Result()
    spec = case["script"]
    script = build_script(spec)
    ops = case["ops"]
    cancel = spec.get("cancel", "close")
    server = Server(script, spec)
    model = Model(script, spec)
    scope = {"type": "websocket", "path": "/", "headers": [], "subprotocols": ["sp"]}
    ws = WebSocket(scope, server.receive, server.send)
    its = {}
    illegal_seen = False
    fault_seen = False
    cancelled_at = None
    states = [(_ord(ws.client_state), _ord(ws.application_state))]
    if states[0] != (0, 0):
        r.fail("C11:state-misreported:initial", f"a new wrapper reports (client, application) state {states[0]}")
    for i, op in enumerate(ops):
        fwd_before = len(server.forwarded)
        want = model.step(op)
        got = real_step(ws, op, cancel, its)
        where = _Where(i, op, spec, ops)  # formatted only when a failure is reported
        # clause 1: forwarded sequence legal (independent of the model)
        bad = app_sequence_legal(server.forwarded)
        if bad:
            r.fail(f"C11:illegal-forward:{op}", f"{where}: {bad}; forwarded={server.forwarded!r}")
        # clause 3
        if server.late_receive:
            r.fail(f"C11:receive-after-disconnect:{op}", f"{where}: server receive() called after the disconnect was delivered")
        # clause 6
        cur = (_ord(ws.client_state), _ord(ws.application_state))
        if cur[0] < states[-1][0] or cur[1] < states[-1][1]:
            r.fail(f"C11:state-went-back:{op}", f"{where}: states {states[-1]} -> {cur}")
        states.append(cur)
        fwd_types = [m["type"] for m in server.forwarded]
        want_as = 2 if "websocket.close" in fwd_types else 1 if "websocket.accept" in fwd_types else 0
        dl_types = [m["type"] for m in server.delivered]
        want_cs = 2 if "websocket.disconnect" in dl_types else 1 if dl_types else 0
        if cur != (want_cs, want_as):
            r.fail(
                f"C11:state-misreported:{op}",
                f"{where}: (client, application) state {cur}, but delivered={dl_types} forwarded={fwd_types} imply {(want_cs, want_as)}",
            )
        # model comparison
        if want["outcome"] == "fault":
            fault_seen = True
            if got[0] != "raise" or not isinstance(got[1], OSError):
                r.fail(f"C11:injected-fault-swallowed:{op}", f"{where}: outcome {got[0]} {got[1]!r}")
        elif want["outcome"] == "raise":
            illegal_seen = True
            if got[0] != "raise":
                r.fail(f"C11:illegal-call-did-not-raise:{op}", f"{where}: outcome {got[0]} {got[1]!r}")
            if len(server.forwarded) != fwd_before:
                r.fail(f"C11:illegal-call-forwarded:{op}", f"{where}: forwarded {server.forwarded[fwd_before:]!r}")
            if want.get("exc") is not None and got[0] == "raise" and not isinstance(got[1], want["exc"]):
                r.fail(f"C11:wrong-exception:{op}", f"{where}: raised {got[1]!r}, expected {want['exc'].__name__}")
        elif want["outcome"] in ("any", "anyblock"):
            if got[0] == "blocked" and want["outcome"] == "any":
                r.fail(f"C11:unexpected-block:{op}", f"{where}")
            # resynchronise the model with what the wrapper consumed
            model.resync(server)
        else:
            if got[0] != want["outcome"]:
                r.fail(f"C11:outcome:{op}", f"{where}: outcome {got[0]} {got[1]!r}, reference says {want['outcome']}")
            elif want.get("check_value"):
                # clause 4: frames returned exactly once, in order
                if op == "receive":
                    if got[1] != want["value"]:
                        r.fail(f"C11:payload:{op}", f"{where}: returned {got[1]!r}, delivered {want['value']!r}")
                elif got[1] != want["value"] or type(got[1]) is not type(want["value"]):
                    r.fail(f"C11:payload:{op}", f"{where}: returned {got[1]!r}, delivered frames {want['value']!r}")
        if want["outcome"] not in ("any", "anyblock"):
            if server.forwarded != model.forwarded:
                r.fail(f"C11:forwarded-differs:{op}", f"{where}: forwarded {server.forwarded!r}, reference {model.forwarded!r}")
            if server.pos != model.pos:
                r.fail(f"C11:consumption-differs:{op}", f"{where}: consumed {server.pos} server events, reference {model.pos}")
        if r.failures:
            break
        if got[0] == "blocked" and cancelled_at is None:
            # the cancelled call is over; the history goes on (a later receive meets the next scripted event, or
            # parks again at the end of the script)
            cancelled_at = i
    for agen in its.values():
        drive(agen.aclose())
    disc_early = server.disconnect_delivered and len(ops) > 0
    went_on = cancelled_at is not None and cancelled_at < len(ops) - 1
    r.nontrivial = illegal_seen or (disc_early and server.pos == len(script) and len(ops) >= 2) or (went_on and server.pos > 1) or fault_seen
    r.label(f"len={len(ops)}", f"end={spec['end']}")
    if illegal_seen:
        r.label("has-illegal-call")
    if server.disconnect_delivered:
        r.label("disconnect-delivered")
    if went_on:
        r.label("continued-after-cancelled-call")
    if fault_seen:
        r.label("send-fault")
    r.key = (tuple(spec.items()), tuple(ops))
    if spec.get("fail_close"):
        r.label("close-frame-fault")
    return r


# ------------------------------------------------------------------------------------------
# denial paths


def _run(coro):
    loop = asyncio.new_event_loop()
    try:
        return loop.run_until_complete(asyncio.wait_for(coro, 20))
    finally:
        loop.run_until_complete(loop.shutdown_asyncgens())
        loop.close()


def denial_sequence_legal(events, extension):
    if not extension:
        if [e.get("type") for e in events] != ["websocket.close"]:
            return f"without the extension exactly one websocket.close is legal, got {[e.get('type') for e in events]}"
        return None
    if not events or events[0].get("type") != "websocket.http.response.start":
        return f"first event {events[:1]!r}"
    if type(events[0].get("status")) is not int:
        return "status not int"
    bodies = events[1:]
    if not bodies:
        return "no body event"
    for i, e in enumerate(bodies):
        if e.get("type") != "websocket.http.response.body":
            return f"event {i + 1} is {e.get('type')!r}"
        last = i == len(bodies) - 1
        if bool(e.get("more_body", False)) == last:
            return f"more_body of body event {i} is {e.get('more_body')!r} (last={last})"
    return None


_TMP = []


def make_response(kind):
    if kind == "empty404":
        return Response(404)
    if kind == "plain":
        return PlainTextResponse("denied", 403)
    if kind == "json":
        return JSONResponse({"error": "denied"}, 401)
    if kind == "redirect":
        return RedirectResponse("/login")
    if kind == "file":
        # with the zero-copy extension a FileResponse emits http.response.zerocopysend events,
        # which have no websocket denial counterpart
        import os
        import tempfile

        fd, path = tempfile.mkstemp(prefix="verif_c11_", suffix=".txt")
        os.write(fd, b"denied")
        os.close(fd)
        _TMP.append(path)
        from baize.asgi import FileResponse

        return FileResponse(path)
    if kind == "none":
        return None
    if kind == "stream":

        async def gen():
            yield b"a"
            yield b"b"

        return StreamResponse(gen(), 403)
    if kind == "slowstream":
        # gives way to the event loop between chunks, so that the response's disconnect listener runs

        async def slow():
            for i in range(6):
                await asyncio.sleep(0)
                yield b"chunk %d" % i

        return StreamResponse(slow(), 403)
    if kind in ("failstream0", "failstream1", "failstream3", "failsse1"):
        # a denial response whose body producer fails after the response has started
        n = int(kind[-1])

        async def failing():
            for i in range(n):
                yield ({"data": f"e{i}"} if kind.startswith("failsse") else b"chunk %d" % i)
            raise _ProducerFailed(f"producer failed after {n} item(s)")

        if kind.startswith("failsse"):
            from baize.asgi import SendEventResponse

            return SendEventResponse(failing(), 403, ping_interval=30)
        return StreamResponse(failing(), 403)
    raise core.HarnessError(kind)


class _ProducerFailed(Exception):
    pass


def denial_prefix_legal(events, extension):
    """Prefix rule for a denial that ended in the producer's exception: what was forwarded is the beginning of one legal
    refusal - nothing, or a started denial response with body events that all announce more; never a close after the start."""
    types = [e.get("type") for e in events]
    if not extension:
        return None if types in ([], ["websocket.close"]) else f"without the extension at most one websocket.close is legal, got {types}"
    if not events:
        return None
    if types[0] != "websocket.http.response.start":
        return f"first event {events[:1]!r}"
    for i, e in enumerate(events[1:]):
        if e.get("type") != "websocket.http.response.body":
            return f"event {i + 1} after the response start is {e.get('type')!r}"
    finals = [i for i, e in enumerate(events[1:]) if not e.get("more_body", False)]
    if finals and finals[0] != len(events) - 2:
        return f"body event {finals[0]} is final but {len(events) - 2 - finals[0]} event(s) follow"
    return None


def oracle_denial(case) -> Result:
    r = Result()
    via, kind, ext = case["via"], case["response"], case["extension"]
    recv = case.get("recv", "idle")
    sent = []
    ran = []
    rx = {"calls": 0, "pos": 0, "disconnect_delivered": False, "late": 0}

    async def send(m):
        sent.append(dict(m))

    async def receive():
        rx["calls"] += 1
        if rx["disconnect_delivered"]:
            rx["late"] += 1
        if recv == "disconnect" and rx["pos"] < 2:
            # the client gives up while the denial response is still being streamed
            rx["pos"] += 1
            if rx["pos"] == 1:
                return {"type": "websocket.connect"}
            rx["disconnect_delivered"] = True
            return {"type": "websocket.disconnect", "code": 1001}
        await asyncio.sleep(3600)

    if via == "session-http":
        scope = {"type": "http", "method": "GET", "path": "/", "headers": [], "query_string": b""}

        @websocket_session
        async def app(ws):
            ran.append("websocket view")

        _run(app(scope, receive, send))
        if ran:
            r.fail("C11:denial:session-http:view-ran", f"the websocket view ran for an http scope; sent {sent!r}")
        types = [e.get("type") for e in sent]
        if types[:1] != ["http.response.start"] or sent[0].get("status") != 404 or types[1:] != ["http.response.body"] or sent[1].get("more_body"):
            r.fail("C11:denial:session-http", f"websocket_session on http scope sent {sent!r}")
        r.label("via=session-http")
        r.nontrivial = True
        return r
    scope = {"type": "websocket", "path": "/", "headers": [], "subprotocols": [], "method": "GET"}
    if ext == "other":
        # extensions on offer, but not the denial-response one
        scope["extensions"] = {"tls": {}, "http.response.pathsend": {}}
        ext = False
    elif ext:
        scope["extensions"] = {"websocket.http.response": {}}
    if kind == "file" and ext:
        scope["extensions"]["http.response.zerocopysend"] = {}
    if via == "denial":
        app = WebsocketDenialResponse(make_response(kind))
    else:

        @request_response
        async def app(request):
            ran.append("http view")
            return PlainTextResponse("from the http view")

    raised = None
    try:
        _run(app(scope, receive, send))
    except (ValueError, OSError) as exc:
        raised = exc  # an event that cannot be expressed as a denial response may be refused ...
    except _ProducerFailed as exc:
        raised = exc  # the producer's own exception may escape; what was forwarded must still be a legal prefix
    if ran:
        r.fail(f"C11:denial:{via}:view-ran", f"{case!r}: the http view ran for a websocket scope; events {sent!r}")
    foreign = [e.get("type") for e in sent if not str(e.get("type", "")).startswith("websocket.")]
    if foreign:
        # ... but it must never be forwarded to the websocket server as it is
        r.fail(f"C11:denial:{via}:foreign-event-forwarded", f"{case!r}: forwarded {foreign!r} to a websocket connection; events {sent!r}")
    if rx["late"]:
        r.fail(f"C11:denial:{via}:receive-after-disconnect", f"{case!r}: {rx['late']} receive call(s) after the disconnect was delivered")
    import os as _os

    while _TMP:
        try:
            _os.unlink(_TMP.pop())
        except OSError:
            pass
    if kind == "none":
        # no response object to send: the only way to refuse is a close, whatever the server offers
        bad = denial_sequence_legal(sent, False)
    else:
        if kind.startswith("fail"):
            bad = denial_prefix_legal(sent, ext is True)
        else:
            bad = None if (raised is not None and kind == "file") else denial_sequence_legal(sent, ext)
    if bad:
        r.fail(f"C11:denial:{via}:{'ext' if ext else 'noext'}", f"{case!r}: {bad}; events {sent!r}")
    r.label(f"via={via}", f"ext={case['extension']}", f"resp={kind}", f"recv={recv}")
    if recv == "disconnect":
        r.nontrivial = rx["disconnect_delivered"]
    else:
        r.nontrivial = bool(ext) or kind == "stream"
    return r


async def _await_op(ws, op):
    if op == "accept":
        return await ws.accept()
    if op == "accept_sub":
        return await ws.accept("sp")
    if op == "receive":
        return await ws.receive()
    if op == "receive_text":
        return await ws.receive_text()
    if op == "receive_bytes":
        return await ws.receive_bytes()
    if op == "send_text":
        return await ws.send_text("hello")
    if op == "send_bytes":
        return await ws.send_bytes(b"hello")
    if op == "close":
        return await ws.close()
    if op == "close_code":
        return await ws.close(4000)
    if op in RAW:
        return await ws.send(dict(RAW[op]))
    raise core.HarnessError(op)


def oracle_session(case) -> Result:
    """The same call sequences issued from inside a `websocket_session` view, where the first call
    that raises ends the view with that exception: whatever the shortcut itself does around the view,
    the events that reach the server must still form a legal application sequence.  A view that parks
    (nothing more to receive) is cancelled - the coroutine is closed, or CancelledError is thrown into
    it like a server shutting down does."""
    r = Result()
    script = build_script(case["script"])
    ops = case["ops"]
    cancel = case.get("cancel", "close")
    server = Server(script, case["script"])
    ran = []

    @websocket_session
    async def app(ws):
        for op in ops:
            ran.append(op)
            await _await_op(ws, op)

    scope = {"type": "websocket", "path": "/", "headers": [], "subprotocols": ["sp"]}
    out = drive(app(scope, server.receive, server.send), cancel)
    ctx = f"script={case['script']!r} cancel={cancel} ops={ops!r} (view ended: {out[0]}{' ' + type(out[1]).__name__ if out[0] == 'raise' else ''} after {ran!r})"
    bad = app_sequence_legal(server.forwarded)
    if bad:
        r.fail("C11:session:illegal-forwarded-sequence", f"{ctx}: {bad}; forwarded {server.forwarded!r}")
    if server.late_receive:
        r.fail("C11:session:receive-after-disconnect", f"{ctx}: receive issued after the disconnect was delivered")
    r.nontrivial = out[0] == "raise" or (out[0] == "blocked" and cancel == "throw" and bool(server.forwarded))
    r.label(f"end={out[0]}", f"len={len(ops)}", f"cancel={cancel}")
    return r


SUBS = {
    "exh": oracle, "long": oracle, "guided": oracle, "ext": oracle, "iters": oracle, "guided2": oracle,
    "denial": oracle_denial, "session": oracle_session,
}


def scripts(maxframes):
    for n in range(maxframes + 1):
        for fr in itertools.product("TB", repeat=n):
            for end in ("disconnect", "silence"):
                yield {"frames": "".join(fr), "end": end}
    # fault: the server's send raises on the (first) close frame
    for fr in ("", "T"):
        yield {"frames": fr, "end": "silence", "fail_close": True}


def ext_scripts(thorough=False):
    """Server scripts outside the `exh` family."""
    out = []
    # empty frames and frames that carry both keys
    for fr in ["t", "b", "U", "C", "u", "c"] + ["tT", "bB", "UC", "CU", "uT", "cB"]:
        out.append({"frames": fr, "end": "disconnect"})
    for fr in ("t", "C"):
        out.append({"frames": fr, "end": "silence"})
    # disconnect codes and reasons
    out += [
        {"frames": "", "end": "disconnect", "code": 1000, "reason": ""},
        {"frames": "T", "end": "disconnect", "code": 1006},
        {"frames": "", "end": "disconnect", "code": 1005, "reason": None},
        {"frames": "B", "end": "disconnect", "code": 4000, "reason": "bye"},
    ]
    # receive calls that park and are cancelled; the next call goes on
    for cancel in ("throw", "close"):
        out += [
            {"frames": "T", "end": "disconnect", "park_connect": True, "cancel": cancel},
            {"frames": ".T", "end": "disconnect", "cancel": cancel},
            {"frames": "T.", "end": "disconnect", "cancel": cancel},
        ]
    out += [
        {"frames": "", "end": "disconnect", "park_connect": True, "cancel": "throw"},
        {"frames": ".", "end": "disconnect", "cancel": "throw"},
        {"frames": "B.B", "end": "silence", "cancel": "throw"},
    ]
    # the server's send fails (raises / never completes and the caller is cancelled) on the n-th forwarded event
    for n in (0, 1, 2):
        out += [
            {"frames": "T", "end": "disconnect", "fail_at": n, "fail_how": "raise"},
            {"frames": "", "end": "silence", "fail_at": n, "fail_how": "park", "cancel": "close"},
            {"frames": "T", "end": "disconnect", "fail_at": n, "fail_how": "park", "cancel": "throw"},
        ]
    _ = thorough  # the thorough tier spends its budget on longer histories over the same scripts
    return out


def iter_scripts(thorough=False):
    out = [
        {"frames": "TT", "end": "disconnect"},
        {"frames": "TB", "end": "disconnect"},
        {"frames": "BB", "end": "disconnect"},
        {"frames": "T", "end": "silence"},
        {"frames": "", "end": "disconnect"},
        {"frames": "T.T", "end": "disconnect", "cancel": "throw"},
        {"frames": "tT", "end": "disconnect"},
        {"frames": "TT", "end": "silence", "fail_close": True},
    ]
    if thorough:
        out += [{"frames": "".join(fr), "end": end} for fr in itertools.product("TB", repeat=3) for end in ("disconnect", "silence")]
        out += [{"frames": "".join(fr), "end": "disconnect", "cancel": "throw"} for fr in itertools.product("TBt.", repeat=3)]
    return out


ENUMS = {
    # sub-check -> (operations, scripts(thorough))
    "ext": (EXT_OPS, ext_scripts),
    "iters": (ITER_OPS, iter_scripts),
}


def _enumerate(rec, sub, k, nshards, alphabet, scr, maxlen):
    g = core.guarded(oracle)
    i = 0
    for n in range(0, maxlen + 1):
        for seq in itertools.product(alphabet, repeat=n):
            i += 1
            if i % nshards != k:
                continue
            for s in scr:
                case = {"script": s, "ops": list(seq)}
                res = g(case)
                rec.count(sub, case, res)
                new, old = rec.split(res)
                rec.note_known(old)
                for f in new:
                    rec.add_violation(sub, f, case)
                    rec.skip.add(f.bucket)


def exh_shard(rec, k, nshards, maxlen, maxframes):
    _enumerate(rec, "exh", k, nshards, OPS, list(scripts(maxframes)), maxlen)


def enum_shard(rec, k, nshards, sub, maxlen):
    alphabet, scr = ENUMS[sub]
    _enumerate(rec, sub, k, nshards, alphabet, scr(rec.tier != "quick"), maxlen)


def long_case():
    return st.fixed_dictionaries(
        {
            "script": st.fixed_dictionaries(
                {"frames": st.text(alphabet="TB", max_size=6), "end": st.sampled_from(["disconnect", "silence"]), "fail_close": st.sampled_from([False, False, True])}
            ),
            "ops": st.lists(st.sampled_from(OPS + ["raw_http"]), min_size=1, max_size=14),
        }
    )


def guided_case():
    """Histories that start like a real session so that frames and the disconnect are reached."""
    pre = st.sampled_from([["accept"], ["accept_sub"], ["receive", "accept"], ["raw_accept"], ["accept", "send_text"]])
    body = st.lists(
        st.sampled_from(
            ["receive", "receive_text", "receive_bytes", "iter_text", "iter_bytes"] * 4
            + ["send_text", "send_bytes"] * 3
            + ["close", "close_code", "raw_close", "raw_send", "accept", "raw_accept", "raw_garbage"]
        ),
        min_size=1,
        max_size=12,
    )
    return st.fixed_dictionaries(
        {
            "script": st.fixed_dictionaries(
                {"frames": st.text(alphabet="TB", max_size=5), "end": st.sampled_from(["disconnect", "disconnect", "silence"]), "fail_close": st.sampled_from([False, False, True])}
            ),
            "ops": st.builds(lambda a, b: a + b, pre, body),
        }
    )


def guided2_case():
    """Guided histories over the extended operations and the whole extended script family."""
    pre = st.sampled_from([["accept"], ["accept"], ["receive", "accept"], ["raw_accept"], ["receive"], []])
    body = st.lists(
        st.sampled_from(
            ["receive", "receive_text", "receive_bytes", "iter_text", "iter_bytes", "itT_next", "itB_next"] * 4
            + ["send_text", "send_bytes", "send_text_empty", "send_bytes_empty"] * 2
            + ["close", "close_code", "close_reason", "raw_close", "raw_send", "accept", "raw_accept", "raw_garbage"]
            + ["raw_denial_start", "raw_denial_body", "raw_http"]
        ),
        min_size=1,
        max_size=12,
    )
    optional = {
        "park_connect": st.booleans(),
        "code": st.sampled_from([1000, 1001, 1005, 1006, 1011, 4000]),
        "reason": st.sampled_from([None, "", "bye"]),
        "cancel": st.sampled_from(["close", "throw"]),
        "fail_close": st.booleans(),
        "fail_at": st.integers(0, 5),
        "fail_how": st.sampled_from(["raise", "park"]),
    }
    script = st.fixed_dictionaries(
        {"frames": st.text(alphabet="TTBBtbUCuc.", max_size=6), "end": st.sampled_from(["disconnect", "disconnect", "silence"])},
        optional=optional,
    )
    return st.fixed_dictionaries({"script": script, "ops": st.builds(lambda a, b: a + b, pre, body)})


def denial_cases():
    for kind in ("empty404", "plain", "json", "redirect", "stream", "file", "none"):
        for ext in (False, True, "other"):
            yield {"via": "denial", "response": kind, "extension": ext}
    for ext in (False, True, "other"):
        yield {"via": "request_response", "response": "empty404", "extension": ext}
    yield {"via": "session-http", "response": "empty404", "extension": False}
    # the client disconnects while the denial response is being streamed
    for kind in ("slowstream", "plain"):
        for ext in (False, True):
            yield {"via": "denial", "response": kind, "extension": ext, "recv": "disconnect"}
    yield {"via": "request_response", "response": "empty404", "extension": True, "recv": "disconnect"}
    # the denial response fails after it has started
    for kind in ("failstream0", "failstream1", "failstream3", "failsse1"):
        for ext in (False, True, "other"):
            yield {"via": "denial", "response": kind, "extension": ext}


def session_cases(maxlen):
    ops = ["accept", "receive", "receive_text", "send_text", "close", "close_code", "raw_close", "raw_send", "raw_garbage"]
    specs = ({"frames": "", "end": "disconnect"}, {"frames": "T", "end": "silence"}, {"frames": "TB", "end": "disconnect"})
    for spec in specs:
        for n in range(1, maxlen + 1):
            for combo in itertools.product(ops, repeat=n):
                yield {"script": spec, "ops": list(combo)}
    # views that park and are cancelled by CancelledError (a server shutting down, a timeout around the view)
    for spec in ({"frames": "", "end": "silence"}, {"frames": "T", "end": "silence"}, {"frames": ".", "end": "disconnect"}):
        for n in range(1, maxlen + 1):
            for combo in itertools.product(ops, repeat=n):
                yield {"script": spec, "ops": list(combo), "cancel": "throw"}
    # ... or that fail because the server's send raises on the accept / the first data frame
    for spec in ({"frames": "T", "end": "disconnect", "fail_at": 0}, {"frames": "T", "end": "disconnect", "fail_at": 1}):
        for n in range(1, maxlen + 1):
            for combo in itertools.product(ops, repeat=n):
                yield {"script": spec, "ops": list(combo)}


def _want(rec, sub):
    return rec.only is None or sub in rec.only


def run(rec, only=None):
    quick = rec.tier == "quick"
    if _want(rec, "exh"):
        if quick:
            core.run_sharded(rec, exh_shard, 16, core.ncpu(), (4, 2))
        else:
            core.run_sharded(rec, exh_shard, 128, core.ncpu(), (5, 3))
    rec.exhaustive["exh"] = True
    if _want(rec, "ext"):
        core.run_sharded(rec, enum_shard, 16 if quick else 128, core.ncpu(), ("ext", 3 if quick else 4))
    rec.exhaustive["ext"] = True
    if _want(rec, "iters"):
        core.run_sharded(rec, enum_shard, 16 if quick else 64, core.ncpu(), ("iters", 4 if quick else 5))
    rec.exhaustive["iters"] = True
    core.drive_hypothesis(rec, "long", long_case(), oracle, 2000 if quick else 50000)
    core.drive_hypothesis(rec, "guided", guided_case(), oracle, 2000 if quick else 50000, seed_offset=5)
    core.drive_hypothesis(rec, "guided2", guided2_case(), oracle, 2000 if quick else 50000, seed_offset=9)
    core.drive_cases(rec, "denial", denial_cases(), oracle_denial)
    core.drive_cases(rec, "session", session_cases(3 if quick else 4), oracle_session, sample=True)
    rec.exhaustive["session"] = True
    rec.exhaustive["long"] = rec.exhaustive["guided"] = rec.exhaustive["guided2"] = False
    rec.exhaustive["denial"] = True
