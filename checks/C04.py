"""C04 - The WSGI and ASGI stacks are observationally equivalent."""
from __future__ import annotations

import json
import re

from hypothesis import strategies as st

from harness import core, gateways as gw, gen, recipes, x_c04
from harness.core import Result
from harness.refs import multipart as mref

LEVEL = "exploration"
RULES = {
    "echo": "Hypothesis: abstract requests (method, Unicode path, query bytes, 0..8 headers from a dictionary of real names with "
    "grammar-built values - Cookie, Accept, Content-Type incl. charset/boundary, Content-Length, Date, Referer, Host, Range, "
    "conditionals - plus noise, body partition, client, server, scheme, root path) presented as WSGI environ and as ASGI scope + "
    "messages to a view that echoes the whole request view (method, url and components, headers, query, cookies, content type and "
    "options, content length, accepted types and accepts(), client, date, referrer, body / json / form / stream in a generated access "
    "order, uploaded files, path params); the two echoes must be equal; non-trivial = the request carries a header the echo "
    "interprets, or a body",
    "responses": "Hypothesis: every response recipe (8 classes, cookies, header operations) used as application and as view result; "
    "status, header multiset and body must be equal on both interfaces",
    "filegrid": "enumerated: FileResponse (size, chunk) pairs x Range shapes (shorter/longer than a chunk, multiples and non-multiples of it, ending "
    "inside the file, multi-range, refused) x GET/HEAD x app/view result x zero-copy send extension offered by the ASGI server or not, "
    "compared across the two interfaces",
    "conditional": "Hypothesis: Files / Pages (bare and mounted) and FileResponse over files whose mtime and ctime are set apart through the harness's "
    "stat clock; a plain GET, then a revalidation built from the validators the server itself handed out (own Last-Modified, dates around "
    "mtime and ctime, own/weak/foreign ETag, Range + If-Range); non-trivial = mtime and ctime fall in different seconds",
    "apps": "Hypothesis: Router / Subpaths / Hosts compositions with echo and response leaves, Files / Pages over a generated tree with "
    "Range and conditional headers (optionally with a handle_404 application), view decorators and middleware stacks; same comparison "
    "plus path parameters; non-trivial = the request reaches a view or file (not a bare 404)",
    "presentations": "enumerated: 12 applications x 10 abstract requests x 4 pairs of presentations of the same abstract request: a PEP 3333 "
    "environ that omits the empty SCRIPT_NAME / PATH_INFO / QUERY_STRING and / or carries the CGI variables real servers add (HTTPS, REQUEST_URI ...), an "
    "ASGI scope without the optional keys (root_path, scheme, client, raw_path, spec_version), http.request messages without the optional "
    "body / more_body keys, header pairs as lists; every presentation on one interface must agree with every presentation on the other",
    "sequences": "enumerated: every sequence of 1..3 request accessors (body, json, form, stream - repetitions included) plus sequences around "
    "close() and sequences whose last accessor lets its exception leave the view (answered through the HTTP-exception translation), on one "
    "request object, x 10 bodies (none, JSON, JSON in latin-1, url-encoded with blank values, url-encoded in UTF-8, url-encoded that does not "
    "decode, multipart with an upload, malformed JSON, multipart without boundary, multipart in a declared gbk charset); the outcome of every "
    "step (value or exception class) and the answer must be the same on both interfaces",
    "ctor": "enumerated: response constructions the random recipes do not draw - JSON keywords (indent, sort_keys, ensure_ascii), a caller's own "
    "Content-Type / Content-Length header on every response class and edited afterwards, event streams with a charset and events without data, "
    "cookie paths and repeated cookie names - as application and as view result, GET and HEAD",
    "bulk": "enumerated: request bodies at the size limits of the request side - 323..326 multipart parts (fields, uploads, mixed), text fields "
    "of more than 1 MiB, uploads across the 1 MiB spool limit, bodies longer than one 64 KiB read - in one piece and in slices",
    "mounts": "enumerated: Subpaths (non-ASCII and nested prefixes, prefixes that are prefixes of one another, the default mount) x paths at, "
    "below and beside the prefixes x root paths; Hosts tables x Host header present / absent x server names; leaves echo the request view",
    "static": "enumerated: Files / Pages over a tree with non-ASCII, blank and reserved characters in directory names and a file larger than "
    "one chunk, bare / mounted / with a handle_404 application, x paths x Range and conditional headers x zero-copy extension offered or not",
    "inm_lines": "enumerated: Files / Pages (bare, mounted) and FileResponse, a plain GET and then a revalidation whose If-None-Match arrives on two "
    "or three header lines - the file's own tag first / last / in the middle / absent, weak form, `*`, a list on one line, near-miss tags - alone "
    "and next to If-Modified-Since, GET and HEAD",
    "reuse": "enumerated: one response object (file, plain, JSON, empty, redirect, HTML) used as application for a sequence of requests "
    "(plain, Range, HEAD, refused Range, zero-copy); every answer of the sequence must be the same on both interfaces",
    "history": "enumerated: one Files / Pages application object per interface kept over a history of requests and file-system changes "
    "(touch, rewrite, delete, create); every answer of the history must be the same on both interfaces",
}
ASSUMPTIONS = [
    "sanctioned difference: the hop-by-hop Connection header of the ASGI event-stream response; the random multipart/byteranges boundary and "
    "the wall-clock second of cookie Expires are normalised; reason phrase and body chunking are ignored",
    "header names without underscores (a WSGI environ cannot tell '_' from '-'); repeated request headers are joined with ', ' by the WSGI gateway as baize's header mapping does",
    "paths are valid UTF-8 (invalid UTF-8 belongs to C12)",
    "presentations stay inside the specifications: only keys PEP 3333 / the ASGI HTTP specification call optional are left out, and only "
    "when they carry their default; the ASGI zero-copy send extension counts as the ASGI interface (the server model reads the announced "
    "file range itself)",
    "If-None-Match is list-valued and is also sent on several lines (one list, RFC 7230 3.2.2); If-Modified-Since, Range and If-Range are "
    "single-valued and stay on one line",
]


def norm_headers(pairs, kind=None):
    out = []
    boundary = None
    for k, v in pairs:
        k = k.lower()
        m = re.match(r"^multipart/byteranges; boundary=([a-z0-9]+)$", v) if k == "content-type" else None
        if m:
            boundary = m.group(1)
    for k, v in pairs:
        k = k.lower()
        if k == "connection" and kind == "sse":
            continue
        if boundary:
            v = v.replace(boundary, "BOUNDARY")
        if k == "set-cookie":
            v = re.sub(r"expires=[^;]+", "expires=<T>", v)
        out.append((k, v))
    return sorted(out), boundary


def run_pair(app_recipe, rq):
    out = {}
    for side in ("wsgi", "asgi"):
        built = recipes.build_app(app_recipe, side)
        rq_copy = {**rq, "body": list(rq.get("body", []))}
        if side == "wsgi":
            rq_copy["body"] = [c for c in rq_copy["body"] if c]
            run = gw.call_wsgi(built.app, rq_copy)
            heads = [(k, v) for k, v in run.headers]
        else:
            run = gw.call_asgi(built.app, rq_copy)
            heads = [(k.decode("latin-1"), v.decode("latin-1")) for k, v in run.headers]
        out[side] = (run, heads, built)
    return out


def compare_runs(r, out, ctx, kind=None):
    (wr, wh, wb), (ar, ah, ab) = out["wsgi"], out["asgi"]
    wexc = type(wr.exc).__name__ if wr.exc is not None else None
    aexc = type(ar.exc).__name__ if ar.exc is not None else None
    if wexc != aexc:
        r.fail(f"C04:exception-differs:{wexc}-vs-{aexc}", f"{ctx}: wsgi raised {wr.exc!r}, asgi raised {ar.exc!r}")
        return
    if wexc is not None:
        r.label("both-raise")
        return
    if wr.status_code != ar.status_code:
        r.fail("C04:status-differs", f"{ctx}: wsgi {wr.status_code}, asgi {ar.status_code}")
    nwh, wbnd = norm_headers(wh, kind)
    nah, abnd = norm_headers(ah, kind)
    if nwh != nah:
        only_w = [h for h in nwh if h not in nah]
        only_a = [h for h in nah if h not in nwh]
        names = sorted({h[0] for h in only_w + only_a})
        r.fail(f"C04:headers-differ:{','.join(names)[:60]}", f"{ctx}: only wsgi {only_w!r}; only asgi {only_a!r}")
    wbody, abody = wr.body, ar.body
    if wbnd:
        wbody = wbody.replace(wbnd.encode(), b"BOUNDARY")
    if abnd:
        abody = abody.replace(abnd.encode(), b"BOUNDARY")
    if wbody != abody:
        r.fail("C04:body-differs", f"{ctx}: wsgi {wbody[:80]!r} ({len(wbody)} bytes), asgi {abody[:80]!r} ({len(abody)} bytes)")
    if wb.stash != ab.stash:
        diff = []
        for i, (we, ae) in enumerate(zip(wb.stash, ab.stash)):
            for k in sorted(set(we) | set(ae)):
                if we.get(k) != ae.get(k):
                    diff.append((k, we.get(k), ae.get(k)))
        if len(wb.stash) != len(ab.stash):
            diff.append(("echo-count", len(wb.stash), len(ab.stash)))
        keys = sorted({d[0] for d in diff})
        r.fail(f"C04:request-view-differs:{','.join(keys)[:60]}", f"{ctx}: (accessor, wsgi, asgi) = {diff[:4]!r}")
    wl = [c for c in wb.calls]
    al = [c for c in ab.calls]
    if wl != al:
        r.fail("C04:dispatch-differs", f"{ctx}: wsgi ran {wl!r}, asgi ran {al!r}")
    r.label(f"status={wr.status_code}")
    return wr.status_code


def oracle_echo(case) -> Result:
    r = Result()
    rq = case["request"]
    app = {"app": "echo", "order": case["order"]}
    out = run_pair(app, rq)
    compare_runs(r, out, f"request {core.to_jsonable(rq)!r} order {case['order']!r}")
    interesting = {"cookie", "accept", "content-type", "content-length", "date", "referer", "host"}
    r.nontrivial = bool(interesting & {k.lower() for k, _ in rq["headers"]}) or any(rq.get("body") or [])
    for k, _ in rq["headers"]:
        r.label(f"hdr={k.lower()}")
    r.label(f"body={case.get('body_kind')}")
    return r


def oracle_responses(case) -> Result:
    r = Result()
    recipe = case["response"]
    rq = case["request"]
    app = {"app": "view" if case.get("as_view") else "response", "response": recipe}
    out = run_pair(app, rq)
    compare_runs(r, out, f"recipe {recipe!r} as_view={case.get('as_view')} request {core.to_jsonable(rq)!r}", kind=recipe["kind"])
    r.nontrivial = recipe["kind"] in ("file", "stream", "sse") or bool(recipe.get("cookies")) or bool(recipe.get("header_ops"))
    r.label(f"kind={recipe['kind']}")
    return r


def oracle_apps(case) -> Result:
    r = Result()
    rq = case["request"]
    out = run_pair(case["app"], rq)
    status = compare_runs(r, out, f"app {case['app']!r} request {core.to_jsonable(rq)!r}")
    built = out["wsgi"][2]
    r.nontrivial = bool(built.calls) or status in (200, 206, 304, 307)
    r.label(f"app={case['app']['app']}")
    return r


def _httpdate(t):
    from email.utils import formatdate

    return formatdate(t, usegmt=True)


def oracle_conditional(case) -> Result:
    """Revalidation of files whose mtime and ctime differ (the harness owns the file clock): the
    validators handed out and the 304/200/206 decision must be the same on both interfaces."""
    import os

    from harness import vfs

    r = Result()
    app = case["app"]
    prefix = case.get("prefix", "")
    root = recipes.materialise(TREE)
    fr_root = None
    if app["app"] in ("response", "view"):
        rec_ = app["response"]
        fr_root = recipes.materialise({rec_.get("name", "f.txt"): recipes.pattern(rec_["size"])})
    mtime, ctime = case["mtime"], case["ctime"]
    try:
        for base in filter(None, (root, fr_root)):
            for d, _dirs, files in os.walk(base):
                for f in files:
                    vfs.set_times(os.path.join(d, f), mtime, mtime, ctime)
        rq0 = gw.areq(method="GET", path=prefix + case["path"], headers=[])
        out0 = run_pair(app, rq0)
        st0 = compare_runs(r, out0, f"app {app!r} clock mtime={mtime} ctime={ctime} plain GET {case['path']!r}")
        heads = {k.lower(): v for k, v in out0["wsgi"][1]}
        lm, etag = heads.get("last-modified"), heads.get("etag")
        r.label(f"first={st0}")
        if st0 == 200 and lm:
            stamps = {
                "own-last-modified": lm,
                "mtime": _httpdate(mtime),
                "ctime": _httpdate(ctime),
                "between": _httpdate((mtime + ctime) / 2),
                "before-both": _httpdate(min(mtime, ctime) - 86400),
                "after-both": _httpdate(max(mtime, ctime) + 86400),
                "mtime-1": _httpdate(mtime - 1),
                "mtime+1": _httpdate(mtime + 1),
                "ctime-1": _httpdate(ctime - 1),
            }
            tags = {"own-etag": etag or '"none"', "weak-own": "W/" + (etag or '"none"'), "other": '"other"', "star": "*", "list": '"x", ' + (etag or '"y"'),
                    "other2": 'W/"0123456789abcdef"', "other3": '"' + (etag or '"none"').strip('"')[:-1] + '"', "two-others": '"p", "q"'}
            hs = []
            for kind, key in case["conds"]:
                if kind == "ims":
                    hs.append(["If-Modified-Since", stamps[key]])
                elif kind == "inm":
                    hs.append(["If-None-Match", tags[key]])
                elif kind == "inm-lines":  # one list-valued field on several header lines
                    hs.extend(["If-None-Match", tags[k]] for k in key)
                elif kind == "range":
                    hs.append(["Range", key])
                elif kind == "if-range-date":
                    hs.append(["If-Range", stamps[key]])
                elif kind == "if-range-tag":
                    hs.append(["If-Range", tags[key]])
            names = [h[0] for h in hs if h[0] != "If-None-Match"]
            if len(set(names)) == len(names):
                rq1 = gw.areq(method=case.get("method", "GET"), path=prefix + case["path"], headers=hs)
                out1 = run_pair(app, rq1)
                st1 = compare_runs(r, out1, f"app {app!r} clock mtime={mtime} ctime={ctime} revalidation {hs!r} of {case['path']!r}")
                r.label(f"second={st1}", *[f"cond={k}:{v if isinstance(v, str) else '+'.join(v)}" for k, v in case["conds"] if k != "range"])
                r.nontrivial = int(mtime) != int(ctime)
    finally:
        vfs.clear_times(root)
        if fr_root:
            vfs.clear_times(fr_root)
    return r


@st.composite
def conditional_case(draw):
    shape = draw(st.sampled_from(["files", "pages", "files-mounted", "pages-mounted", "fileresponse"]))
    prefix = ""
    if shape == "fileresponse":
        app = {"app": draw(st.sampled_from(["response", "view"])), "response": {"kind": "file", "size": draw(st.sampled_from([0, 1, 12, 64])), "name": "f.txt"}}
        path = "/"
    else:
        app = {"app": shape.split("-")[0], "tree": TREE}
        if shape.endswith("mounted"):
            app = {"app": "subpaths", "mounts": [["/static", app]]}
            prefix = "/static"
        path = draw(st.sampled_from(["/file.txt", "/index.html", "/", "/p", "/p.html", "/dir/", "/dir/a.txt", "/é.txt", "/empty.bin", "/d2"]))
    base = draw(st.sampled_from([1_000_000_000, 1_445_412_480, 1_700_000_000, 86_400 * 365]))
    delta = draw(st.sampled_from([0, 1, -1, 2, 3600, -3600, 86400 * 30, -86400 * 30, 0.5, 59]))
    keys = ["own-last-modified", "mtime", "ctime", "between", "before-both", "after-both", "mtime-1", "mtime+1", "ctime-1"]
    tkeys = ["own-etag", "weak-own", "other", "star", "list"]
    conds = []
    mode = draw(st.integers(0, 6))
    if mode == 6:
        conds.append(["inm-lines", draw(st.lists(st.sampled_from(tkeys + ["other2", "other3", "two-others"]), min_size=2, max_size=3))])
        if draw(st.booleans()):
            conds.append(["ims", draw(st.sampled_from(keys))])
    elif mode <= 2:
        conds.append(["ims", draw(st.sampled_from(keys))])
    elif mode == 3:
        conds.append(["inm", draw(st.sampled_from(tkeys))])
    elif mode == 4:
        conds.append(["inm", draw(st.sampled_from(tkeys))])
        conds.append(["ims", draw(st.sampled_from(keys))])
    else:
        conds.append(["range", draw(st.sampled_from(["bytes=0-3", "bytes=1-", "bytes=-2", "bytes=0-0,2-3"]))])
        conds.append(draw(st.sampled_from([["if-range-date", k] for k in keys] + [["if-range-tag", k] for k in tkeys[:3]])))
    return {"app": app, "prefix": prefix, "path": path, "mtime": base, "ctime": base + delta, "conds": conds, "method": draw(st.sampled_from(["GET", "GET", "HEAD"]))}



# ------------------------------------------------------------------------------------------
# oracles of the enumerated sub-checks


def oracle_presentations(case) -> Result:
    """The same abstract request in two presentations per interface: every WSGI presentation must agree with
    every ASGI presentation (base x variant, variant x base, variant x variant; base x base is `echo`/`apps`)."""
    r = Result()
    rq, app = case["request"], case["app"]
    wf, af = case["wsgi_flags"], case["asgi_flags"]
    bw = x_c04.run_presented(app, rq, "wsgi", [])
    ba = x_c04.run_presented(app, rq, "asgi", [])
    vw = x_c04.run_presented(app, rq, "wsgi", wf) if wf else bw
    va = x_c04.run_presented(app, rq, "asgi", af) if af else ba
    ctx = f"app {case['name']!r} request {core.to_jsonable(rq)!r}"
    status = None
    if wf:
        status = compare_runs(r, {"wsgi": vw, "asgi": ba}, f"{ctx}: environ variant {wf!r} against the plain scope")
    if af:
        status = compare_runs(r, {"wsgi": bw, "asgi": va}, f"{ctx}: plain environ against scope variant {af!r}")
    if wf and af:
        compare_runs(r, {"wsgi": vw, "asgi": va}, f"{ctx}: environ variant {wf!r} against scope variant {af!r}")
    r.weight = 4
    r.nontrivial = bool(bw[2].calls) or status in (200, 206, 304, 307)
    r.label(f"app={case['name']}", *[f"wsgi:{f}" for f in wf], *[f"asgi:{f}" for f in af])
    return r


def oracle_sequences(case) -> Result:
    r = Result()
    rq, ops = case["request"], case["ops"]
    out = {}
    for side in ("wsgi", "asgi"):
        built = x_c04.build_seq_app(side, ops)
        if side == "wsgi":
            run = gw.call_wsgi(built.app, {**rq, "body": [c for c in rq["body"] if c]})
            heads = list(run.headers)
        else:
            run = gw.call_asgi(built.app, rq)
            heads = [(k.decode("latin-1"), v.decode("latin-1")) for k, v in run.headers]
        out[side] = (run, heads, built)
    compare_runs(r, out, f"accessor sequence {ops!r} on {case['body_kind']!r} body, request {core.to_jsonable(rq)!r}")
    ws = out["wsgi"][2].stash
    if ws:
        for op, val in ws[0]["steps"]:
            r.label(f"{op}={'raises' if isinstance(val, str) and val.startswith('!') else 'value'}")
    r.nontrivial = len(ops) > 1
    r.label(f"kind={case['body_kind']}", f"len={len(ops)}")
    return r


def oracle_bulk(case) -> Result:
    r = Result()
    spec = case["spec"]
    headers, body = x_c04.bulk_body(spec)
    rq = gw.areq(method="POST", path="/", headers=headers, body=x_c04.slices(body, case.get("slice")))
    out = run_pair({"app": "echo", "order": case["order"]}, rq)
    compare_runs(r, out, f"bulk body {spec!r} in slices of {case.get('slice')!r} read with {case['order']!r}")
    ws = out["wsgi"][2].stash
    if ws:
        for k in case["order"]:
            v = ws[0].get(k)
            r.label(f"{spec['kind']}:{k}={v if isinstance(v, str) else 'value'}")
            if k == "form" and isinstance(v, list):
                r.label(f"items={len(v)}")
    r.nontrivial = True
    r.note = {"body_bytes": len(body)}
    return r


def oracle_history(case) -> Result:
    r = Result()
    h = x_c04.StaticHistory(case["kind"], case["tree"], case.get("mount"), case.get("handle_404", False))
    try:
        remembered = {}
        for i, step in enumerate(case["steps"]):
            if step[0] != "req":
                h.fs(step)
                continue
            path, conds = step[1], step[2]
            hs = []
            for name, src in conds:
                if src[0] == "literal":
                    hs.append([name, src[1]])
                elif src[0] == "from" and remembered.get(src[1], {}).get(src[2]):
                    hs.append([name, remembered[src[1]][src[2]]])
            rq = gw.areq(method=step[3] if len(step) > 3 else "GET", path=(case.get("mount") or "") + path, headers=hs)
            out = h.request(rq)
            st = compare_runs(r, out, f"history {case['name']!r} step {i} {step!r} (headers {hs!r})")
            remembered[i] = {k.lower(): v for k, v in out["wsgi"][1]}
            r.label(f"step-status={st}")
        r.nontrivial = True
        r.weight = sum(1 for s_ in case["steps"] if s_[0] == "req")
        r.label(f"history={case['name']}")
    finally:
        h.close()
    return r


def oracle_reuse(case) -> Result:
    """One response object used as application for a sequence of requests (a module-level response is a common
    way to write a fixed answer): every answer of the sequence must be the same on both interfaces."""
    r = Result()
    apps = {side: recipes.build_app({"app": "response", "response": case["response"]}, side) for side in ("wsgi", "asgi")}
    for i, rq in enumerate(case["requests"]):
        out = {}
        for side in ("wsgi", "asgi"):
            if side == "wsgi":
                run = gw.call_wsgi(apps[side].app, rq)
                heads = list(run.headers)
            else:
                run = gw.call_asgi(apps[side].app, rq)
                heads = [(k.decode("latin-1"), v.decode("latin-1")) for k, v in run.headers]
            out[side] = (run, heads, recipes.Built(None))
        compare_runs(r, out, f"response object {case['response']!r} reused: request {i} of {[(q['method'], q['headers']) for q in case['requests']]!r}", kind=case["response"]["kind"])
    r.weight = len(case["requests"])
    r.nontrivial = len(case["requests"]) > 1
    r.label(f"kind={case['response']['kind']}")
    return r


SUBS = {"reuse": oracle_reuse, "inm_lines": oracle_conditional, "echo": oracle_echo, "responses": oracle_responses, "apps": oracle_apps, "conditional": oracle_conditional, "filegrid": oracle_responses,
        "presentations": oracle_presentations, "sequences": oracle_sequences, "ctor": oracle_responses, "bulk": oracle_bulk, "mounts": oracle_apps,
        "static": oracle_apps, "history": oracle_history}

# ------------------------------------------------------------------------------------------
# generators

_token_val = st.sampled_from(["1", "abc", "a, b", "x y", "é", "", "q=0.5"])

HEADER_VALUES = {
    "Cookie": ["a=1", "a=1; b=2", 'k="quoted; value"', "a=1; a=2", "=x", "flag", 'e="\\303\\251"', "a=b=c", " a = 1 ; b=2 "],
    "Accept": ["*/*", "text/html", "text/html, application/json;q=0.9, */*;q=0.1", "application/*", "text/*;q=0", "", "image/png,,text/plain", "TEXT/HTML"],
    "Content-Type": ["application/json", "application/json; charset=utf-8", "application/json; charset=latin-1", "application/x-www-form-urlencoded",
                     "application/x-www-form-urlencoded; charset=utf-8", 'multipart/form-data; boundary="XbX"', "multipart/form-data; boundary=XbX", "text/plain", "",
                     "APPLICATION/JSON", "multipart/form-data", "application/json; charset=nope"],
    "Content-Length": ["0", "5", "abc", "-1", " 7"],
    "Date": ["Wed, 21 Oct 2015 07:28:00 GMT", "Wed, 21 Oct 2015 07:28:00 +0200", "21 Oct 2015 07:28:00", "garbage", ""],
    "Referer": ["https://example.org/a?b=1", "/x", "http://[", ""],
    "Host": ["example.com", "example.com:8080", "[::1]:8000", "EXAMPLE.com", "a:b", ""],
    "Range": ["bytes=0-4", "bytes=-3", "bytes=0-0,2-3", "bytes=9999-", "junk", ""],
    "If-Range": ['"x"', "Wed, 21 Oct 2015 07:28:00 GMT", ""],
    "If-None-Match": ["*", '"abc"', 'W/"abc", "def"', ""],
    "If-Modified-Since": ["Wed, 21 Oct 2015 07:28:00 GMT", "Fri, 31 Dec 2100 23:59:59 GMT", "garbage", ""],
    "Transfer-Encoding": ["chunked", "identity"],
    "X-Custom": ["1", "a, b", "é", ""],
    "User-Agent": ["curl/8", "Mozilla/5.0 (X11; Linux) é"],
    "Accept-Language": ["en", "de, en;q=0.5"],
    # names that stress the CGI-variable <-> header-name mapping of the WSGI side
    "X-HTTP-Method-Override": ["PUT", "delete"],
    "HTTP2-Settings": ["AAMAAABkAAQCAAAAAAIAAAAA"],
    "Content-MD5": ["Q2hlY2sgSW50ZWdyaXR5IQ=="],
    "Content-Encoding": ["gzip", "identity"],
    "X-Content-Type": ["a/b"],
    "Http-Https": ["1"],
}

_path = st.one_of(
    st.sampled_from(["/", "", "/a", "/a/b", "/é", "/中/文", "/a b", "/a%20b", "/a?b", "/a#b", "/x.y/", "//", "/a//b", "/index.html", "/file.txt", "/dir", "/dir/", "/p", "/missing"]),
    st.lists(st.sampled_from(["a", "b", "é", "x y", "1", "2021-03-07", "3.14", "%", "..", "."]), max_size=4).map(lambda s: "/" + "/".join(s)),
)
_query = st.sampled_from([b"", b"a=1", b"a=1&a=2&b=", b"q=%C3%A9", b"q=\xe9", b"x", b"a=b=c&&", b"%zz", b"a+b=c+d", b"k=v;w=x"])


_FORCED = {}


def _body(draw, ctype):
    _FORCED.clear()
    kind = draw(st.sampled_from(["none", "json", "urlencoded", "multipart", "raw", "badjson"]))
    if kind == "none":
        raw = b""
    elif kind == "json":
        value = draw(st.one_of(gen.json_values, st.sampled_from([{"name": "Zoë", "city": "Köln"}, ["é", "中文"], "ü"])))
        raw = json.dumps(value, ensure_ascii=draw(st.sampled_from([False, False, True]))).encode("utf-8")
        if draw(st.integers(0, 2)) == 0:
            # the declared charset and the actual encoding of the body, in every combination that
            # matters: agreeing non-UTF-8, disagreeing, unknown, byte-order marks, undeclared UTF-16/32
            text = json.dumps(draw(st.sampled_from([{"name": "Zoë"}, ["é", "ü"], "ñ", {"k": [1, "ß"]}, ["中文"]])), ensure_ascii=False)
            declared, actual = draw(st.sampled_from([
                ("latin-1", "latin-1"), ("iso-8859-1", "latin-1"), ("utf-16", "utf-16"), ("utf-16-le", "utf-16-le"), ("gbk", "gbk"), ("cp1252", "cp1252"),
                ("nope", "utf-8"), ("latin-1", "utf-8"), ("utf-8", "latin-1"), (None, "utf-8-sig"), ("utf-8", "utf-8-sig"), (None, "utf-16"), (None, "utf-32"),
                (None, "utf-16-le"), ("ascii", "utf-8"), ("utf-8-sig", "utf-8-sig"), ("utf-7", "utf-7"),
            ]))
            try:
                raw = text.encode(actual)
            except UnicodeEncodeError:
                raw = json.dumps(["x"]).encode(actual)
            _FORCED["ctype"] = "application/json" + (f"; charset={declared}" if declared else "")
    elif kind == "badjson":
        raw = draw(st.sampled_from([b"{", b"\xff", b"[1,", b"nul"]))
    elif kind == "urlencoded":
        raw = draw(st.sampled_from([b"a=1&b=2", b"a=%C3%A9&a=2", b"x=\xe9", b"", b"&=&", b"k=v" * 30]))
    elif kind == "multipart":
        form = draw(gen.forms(max_parts=3, max_pieces=3))
        form["boundary"] = "XbX"
        if draw(st.booleans()):
            # a text field whose value is mostly multi-byte characters
            cs = form["charset"]
            text = draw(st.sampled_from(["café", "Zoë Köln", "中文字段", "naïve — “quoted”", "ééééé", "日本語のテキスト"]))
            text = "".join(ch for ch in text if gen._enc_ok(ch, cs))
            form["parts"].append({"name": "txt", "filename": None, "headers": [], "content": text.encode(cs)})
        for p in form["parts"]:
            while b"--XbX" in p["content"]:
                p["content"] = p["content"].replace(b"--XbX", b"")
        raw = mref.encode(form)
        _FORCED["form_charset"] = form["charset"]
    else:
        raw = draw(st.binary(max_size=40))
    mode = draw(st.integers(0, 5))
    if mode == 0 and 0 < len(raw) <= 600:
        # every message boundary the server could choose: fixed-size slices of 1..3 bytes cut through
        # multi-byte characters, CRLF pairs and delimiters alike
        k = draw(st.integers(1, 3))
        return kind, [raw[i:i + k] for i in range(0, len(raw), k)]
    if mode == 1 and raw:
        # one cut right inside a non-ASCII character, where there is one
        hi = [i for i, b in enumerate(raw) if b >= 0x80 and i > 0]
        if hi:
            return kind, mref.chunks_from_cuts(raw, [draw(st.sampled_from(hi))])
    cuts = draw(st.lists(st.integers(0, max(len(raw), 1)), max_size=4))
    return kind, mref.chunks_from_cuts(raw, cuts)


@st.composite
def requests(draw, methods=("GET", "POST", "PUT", "HEAD", "DELETE")):
    names = draw(st.lists(st.sampled_from(sorted(HEADER_VALUES)), max_size=8, unique=True))
    headers = [[n, draw(st.sampled_from(HEADER_VALUES[n]))] for n in names]
    if draw(st.integers(0, 3)) == 0:
        # a header sent on several lines (the WSGI server joins them with ", ", the ASGI scope keeps the lines)
        # (If-None-Match is list-valued as well; If-Modified-Since and Range are not and stay on one line)
        rep = draw(st.sampled_from(["Accept", "Accept-Language", "X-Custom", "X-Forwarded-For", "Cache-Control", "Via", "If-None-Match"]))
        vals = {"Accept": ["text/html", "application/json;q=0.9", "*/*;q=0.1"], "Accept-Language": ["de", "en;q=0.5"], "X-Custom": ["1", "2", "3"],
                "If-None-Match": draw(st.permutations(['"abc"', 'W/"def"', '"nope"', "*"])),
                "X-Forwarded-For": ["10.0.0.1", "192.168.0.7"], "Cache-Control": ["no-cache", "no-store"], "Via": ["1.1 a", "1.1 b"]}[rep]
        headers = [h for h in headers if h[0] != rep] + [[rep, v] for v in vals[: draw(st.integers(2, 3))]]
    ctype = next((v for k, v in headers if k == "Content-Type"), "")
    body_kind, body = _body(draw, ctype)
    # most of the time the Content-Type matches the body, so that json/form parsing is reached
    matching = {
        "json": ["application/json", "application/json", "application/json; charset=utf-8"],
        "badjson": ["application/json"],
        "urlencoded": ["application/x-www-form-urlencoded", "application/x-www-form-urlencoded; charset=utf-8", "application/x-www-form-urlencoded"],
        "multipart": ['multipart/form-data; boundary="XbX"', "multipart/form-data; boundary=XbX", "multipart/form-data; boundary=XbX; charset=utf-8"],
    }
    if _FORCED.get("form_charset"):
        # the charset the form really uses, declared (so that field names and values decode on both sides alike)
        cs = _FORCED.pop("form_charset")
        matching["multipart"] = matching["multipart"] + [f"multipart/form-data; boundary=XbX; charset={cs}", f"multipart/form-data; charset={cs}; boundary=XbX"]
    forced = _FORCED.pop("ctype", None)
    if forced is not None:
        headers = [h for h in headers if h[0] != "Content-Type"] + [["Content-Type", forced]]
    elif body_kind in matching and draw(st.integers(0, 3)) > 0:
        headers = [h for h in headers if h[0] != "Content-Type"] + [["Content-Type", draw(st.sampled_from(matching[body_kind]))]]
    scheme = draw(st.sampled_from(["http", "https"]))
    rq = gw.areq(
        method=draw(st.sampled_from(methods)),
        path=draw(_path),
        query=draw(_query),
        headers=headers,
        body=body,
        client=draw(st.sampled_from([None, ["127.0.0.1", 54321], ["::1", 1], ["10.0.0.1", 65535]])),
        server=draw(st.sampled_from([["testserver", 80], ["example.org", 443], ["127.0.0.1", 8000], ["::1", 8080]])),
        scheme=scheme,
        root_path=draw(st.sampled_from(["", "", "/root", "/é"])),
    )
    return rq, body_kind


@st.composite
def echo_case(draw):
    rq, body_kind = draw(requests())
    order = draw(st.lists(st.sampled_from(["body", "json", "form", "stream"]), min_size=1, max_size=4, unique=True))
    return {"request": rq, "order": order, "body_kind": body_kind}


@st.composite
def response_case(draw):
    recipe = draw(gen.response_recipes())
    if recipe["kind"] == "json" and draw(st.booleans()):
        recipe.update(draw(st.fixed_dictionaries({}, optional={"indent": st.sampled_from([0, 1, 4]), "sort_keys": st.booleans(), "ensure_ascii": st.booleans()})))
    if recipe["kind"] == "sse" and draw(st.integers(0, 2)) == 0:
        recipe["charset"] = draw(st.sampled_from(["latin-1", "utf-16", "cp1252"]))  # every generated event text is Latin-1
    if draw(st.integers(0, 5)) == 0:
        # the caller's own framing headers
        own = draw(st.dictionaries(st.sampled_from(["Content-Type", "content-type", "Content-Length", "Location", "Content-Disposition", "Last-Modified", "Accept-Ranges"]),
                                   st.sampled_from(["text/csv", "3", "0", "/own", "inline", "x/y; charset=utf-16"]), min_size=1, max_size=2))
        if len({k.lower() for k in own}) == len(own):
            recipe["headers"] = {**recipe.get("headers", {}), **own}
    if recipe.get("cookies") and draw(st.booleans()):
        for c in recipe["cookies"]:
            if not c.get("delete"):
                c["path"] = draw(st.sampled_from(["/", "/app", "/a b", ""]))
    rq, _ = draw(requests(methods=("GET", "GET", "HEAD", "POST")))
    if recipe["kind"] != "file":
        rq["headers"] = [h for h in rq["headers"] if h[0] not in ("Range", "If-Range")]
    elif draw(st.integers(0, 3)) > 0:
        rng = draw(st.sampled_from(["bytes=0-4", "bytes=1-9", "bytes=0-6", "bytes=2-", "bytes=-7", "bytes=0-0,5-9", "bytes=0-3,8-", "bytes=0-63", "bytes=10-100", "bytes=5-4", "bytes=999-"]))
        rq["headers"] = [h for h in rq["headers"] if h[0] not in ("Range", "If-Range")] + [["Range", rng]]
        if draw(st.integers(0, 3)) == 0:
            rq["headers"].append(["If-Range", draw(st.sampled_from(['"nope"', "Wed, 21 Oct 2015 07:28:00 GMT", "x"]))])
    return {"response": recipe, "request": rq, "as_view": draw(st.booleans())}


TREE = {"index.html": b"<root>", "file.txt": recipes.pattern(12), "p.html": b"<p>", "dir/index.html": b"<dir>", "dir/a.txt": b"A", "é.txt": b"e-acute", "empty.bin": b"", "d2/x": b"x", "d2.html": b"<d2>"}


@st.composite
def leaf(draw):
    kind = draw(st.sampled_from(["echo", "echo", "view", "response", "files", "pages"]))
    if kind == "echo":
        return {"app": "echo", "order": draw(st.lists(st.sampled_from(["body", "json", "form"]), max_size=2, unique=True)), "label": draw(st.sampled_from(["e1", "e2", "e3"])),
                "decorators": draw(st.lists(st.sampled_from(["identity", "add"]), max_size=1))}
    if kind in ("view", "response"):
        return {"app": kind, "response": draw(gen.response_recipes(kinds=("empty", "plain", "json", "redirect", "stream", "file"))), "label": draw(st.sampled_from(["r1", "r2"]))}
    out = {"app": kind, "tree": TREE, "cacheability": draw(st.sampled_from(["public", "private", "no-cache", "no-store"])), "max_age": draw(st.sampled_from([0, 600]))}
    if draw(st.integers(0, 2)) == 0:
        out["handle_404"] = draw(st.sampled_from([{"app": "response", "response": {"kind": "plain", "content": "custom 404", "status": 404}, "label": "nf"}, {"app": "echo", "order": ["body"], "label": "nf-echo"}]))
    return out


@st.composite
def app_case(draw):
    shape = draw(st.sampled_from(["router", "subpaths", "hosts", "files", "pages", "mw", "nested", "router-in-router"]))
    if shape == "router":
        templates = ["/", "/a", "/a/{p}", "/i/{n:int}", "/d/{x:decimal}", "/t/{d:date}", "/u/{u:uuid}", "/any/{rest:any}", "/{p}", "/é", "/{a}/{b:int}"]
        routes = [[draw(st.sampled_from(templates)), draw(leaf())] for _ in range(draw(st.integers(1, 4)))]
        app = {"app": "router", "routes": routes}
    elif shape == "subpaths":
        mounts = [[draw(st.sampled_from(["", "/a", "/a/b", "/é", "/static"])), draw(leaf())] for _ in range(draw(st.integers(1, 3)))]
        app = {"app": "subpaths", "mounts": mounts}
    elif shape == "hosts":
        table = [[draw(st.sampled_from([r"example\.com", r"(www\.)?example\.com(:\d+)?", r".*", r"\[::1\]:8000", r"testserver", r"example\.org(:443)?", r"127\.0\.0\.1", r""])), draw(leaf())] for _ in range(draw(st.integers(1, 3)))]
        app = {"app": "hosts", "table": table}
    elif shape in ("files", "pages"):
        app = {"app": shape, "tree": TREE}
        if draw(st.integers(0, 3)) == 0:
            app["handle_404"] = {"app": "response", "response": {"kind": "plain", "content": "custom 404", "status": 404}, "label": "nf"}
        if draw(st.booleans()):
            app = {"app": "subpaths", "mounts": [["/static", app], ["", {"app": "response", "response": {"kind": "plain", "content": "fallback"}}]]}
    elif shape == "router-in-router":
        # a router as endpoint of a route of another router (both see the whole path), optionally through a mount
        inner = {"app": "router", "routes": [["/o/{a}/i/{n:int}", draw(leaf())], ["/o/{a}/s/{name}", draw(leaf())], ["/o/{b}/{rest:any}", draw(leaf())]]}
        if draw(st.booleans()):
            inner = {"app": "subpaths", "mounts": [["", inner]]}
        app = {"app": "router", "routes": [["/o/{outer}/{tail:any}", inner], ["/{rest:any}", draw(leaf())]]}
    elif shape == "mw":
        inner = draw(leaf())
        app = inner
        for k in draw(st.lists(st.sampled_from(["identity", "add", "replace", "delete"]), min_size=1, max_size=2)):
            app = {"app": "middleware", "kind": k, "inner": app}
    else:
        app = {"app": "subpaths", "mounts": [["/api", {"app": "router", "routes": [["/v/{n:int}", draw(leaf())], ["/{rest:any}", draw(leaf())]]}], ["", draw(leaf())]]}
    rq, _ = draw(requests(methods=("GET", "GET", "HEAD", "POST")))
    if shape in ("files", "pages") and draw(st.integers(0, 4)) > 0:
        prefix = "/static" if app["app"] == "subpaths" else ""
        rq["path"] = prefix + draw(st.sampled_from(["/", "/file.txt", "/p", "/p.html", "/dir", "/dir/", "/dir/a.txt", "/é.txt", "/empty.bin", "/d2", "/d2/", "/d2/x", "/missing", "/index.html", "/dir/index.html", "/file.txt/", "/../file.txt"]))
        if draw(st.integers(0, 2)) == 0:
            cond = draw(st.sampled_from([["If-None-Match", "*"], ["If-Modified-Since", "Fri, 31 Dec 2100 23:59:59 GMT"], ["If-None-Match", '"nope"'], ["Range", "bytes=0-3"], ["Range", "bytes=0-0,5-"], None]))
            lines = [cond] if cond is not None else [["If-None-Match", v] for v in draw(st.permutations(['"nope"', "*", 'W/"x"']))[: draw(st.integers(2, 3))]]
            rq["headers"] = [h for h in rq["headers"] if h[0] not in ("If-None-Match", "If-Modified-Since", "Range", "If-Range")] + lines
    if shape == "router-in-router" and draw(st.integers(0, 4)) > 0:
        rq["path"] = draw(st.sampled_from(["/o/x/i/42", "/o/x/s/bob", "/o/é/i/7", "/o/x/zzz/y", "/o/x/i/notint", "/o/x/", "/other"]))
    if shape == "hosts" and draw(st.integers(0, 3)) > 0:
        rq["headers"] = [h for h in rq["headers"] if h[0] != "Host"] + [["Host", draw(st.sampled_from(["example.com", "EXAMPLE.com", "www.example.com", "example.com:8080", "Example.Com:80", "[::1]:8000", "x.example.com"]))]]
    if shape == "router" and draw(st.integers(0, 3)) > 0:
        tpl = draw(st.sampled_from([t for t, _ in app["routes"]]))
        fill = {"{p}": draw(st.sampled_from(["x", "é", "a b"])), "{n:int}": draw(st.sampled_from(["0", "42", "007"])), "{x:decimal}": draw(st.sampled_from(["1.50", "100", "0"])),
                "{d:date}": draw(st.sampled_from(["2021-03-07", "2020-02-29"])), "{u:uuid}": "9047848a-0988-45fc-91fe-757d90136892", "{rest:any}": draw(st.sampled_from(["a/b", "", "x"])),
                "{a}": "seg", "{b:int}": "7"}
        for k, v in fill.items():
            tpl = tpl.replace(k, v)
        rq["path"] = tpl
    elif draw(st.booleans()):
        rq["path"] = draw(st.sampled_from(["/", "/a", "/a/x", "/i/42", "/i/x", "/d/1.50", "/t/2021-03-07", "/t/2021-13-45", "/u/9047848a-0988-45fc-91fe-757d90136892", "/any/a/b", "/é", "/x/7",
                                           "/static/file.txt", "/static/dir/", "/static/dir", "/static/é.txt", "/file.txt", "/dir/", "/dir", "/p", "/d2", "/empty.bin", "/api/v/3", "/api/zzz", "/static/../file.txt"]))
    return {"app": app, "request": rq}


def file_grid(quick):
    """Deterministic product for the file response on both interfaces: ranges shorter / longer than the
    chunk size, multiples and non-multiples of it, ending before the end of the file, multi-range, refused."""
    shapes = [(12, 5), (64, 3), (200, 64)] + ([] if quick else [(200, 1), (4623, 4096), (130, 64)])
    ranges = [None, "bytes=0-6", "bytes=1-9", "bytes=0-63", "bytes=0-127", "bytes=5-100", "bytes=2-", "bytes=-7", "bytes=0-0,5-9", "bytes=0-3,8-", "bytes=0-70,100-190", "bytes=999999-", "bytes=5-4", "junk"]
    for size, chunk in shapes:
        for rng in ranges:
            for method in ("GET", "HEAD"):
                for as_view in (False, True):
                    for zerocopy in (False, True):  # the ASGI server offers the zero-copy send extension or not
                        headers = [] if rng is None else [["Range", rng]]
                        yield {"response": {"kind": "file", "name": "f.txt", "size": size, "chunk": chunk},
                               "request": gw.areq(method=method, path="/", headers=headers, extensions=_ZC if zerocopy else None), "as_view": as_view}


# ------------------------------------------------------------------------------------------
# enumerated sub-checks added after the injection review (see RULES)

_ZC = {"http.response.zerocopysend": {}}


def _e(label, order=()):
    return {"app": "echo", "order": list(order), "label": label}


def presentation_cases(quick):
    e_body = _e("e", ["body", "form"])
    e_json = _e("j", ["json", "body"])
    apps = [
        ("echo", e_body),
        ("echo-json", e_json),
        ("mount-echo", {"app": "subpaths", "mounts": [["/m", e_body], ["", _e("d", ["body"])]]}),
        ("nested-mount", {"app": "subpaths", "mounts": [["/m", {"app": "subpaths", "mounts": [["/n", e_json], ["", e_body]]}]]}),
        ("router-echo", {"app": "router", "routes": [["/m/{p}", e_body], ["/{rest:any}", e_json]]}),
        ("hosts-echo", {"app": "hosts", "table": [[r"example\.com(:\d+)?", e_body], [r".*", e_json]]}),
        ("mw-echo", {"app": "middleware", "kind": "add", "inner": e_body}),
        ("decorated-echo", {"app": "echo", "order": ["form", "body"], "label": "dec", "decorators": ["add"]}),
        ("pages-mounted", {"app": "subpaths", "mounts": [["/m", {"app": "pages", "tree": TREE}]]}),
        ("files", {"app": "files", "tree": TREE}),
        ("pages", {"app": "pages", "tree": TREE}),
        ("file-response", {"app": "response", "response": {"kind": "file", "name": "f.txt", "size": 64, "chunk": 5}}),
    ]
    mp = mref.encode({"boundary": "XbX", "charset": "utf-8", "preamble": None, "epilogue": None, "padding": b"",
                      "parts": [{"name": "t", "filename": None, "headers": [], "content": "Zoë".encode()}, {"name": "u", "filename": "a.bin", "headers": [["Content-Type", "image/png"]], "content": b"\x89PNG\r\n--Xb"}]})
    odd = [["X-HTTP-Method-Override", "PUT"], ["HTTP2-Settings", "AAMAAABk"], ["Content-MD5", "Q2hlY2sgSW50ZWdyaXR5IQ=="], ["X-Http-Https", "1"]]
    reqs = [
        gw.areq(method="GET", path="/", client=None),
        gw.areq(method="GET", path="/m/x", query=b"a=1&b=", scheme="https", server=["example.org", 443], headers=odd[:2]),
        gw.areq(method="POST", path="/m/n/y", root_path="/root", headers=[["Content-Type", "application/json"]] + odd[2:], body=[b'{"a":', b"", b' "\xc3\xa9"}'], client=["::1", 1]),
        gw.areq(method="POST", path="/m", headers=[["Content-Type", "application/x-www-form-urlencoded"], ["Content-Length", "11"]] + odd, body=[b"a=1&b=%C3%A9"[:11]], client=None),
        gw.areq(method="POST", path="/m/dir", query=b"x=1", headers=[["Content-Type", "multipart/form-data; boundary=XbX"]], body=[mp[i:i + 7] for i in range(0, len(mp), 7)]),
        gw.areq(method="GET", path="", root_path="/root", headers=[["Host", "example.com:8080"]]),
        gw.areq(method="GET", path="/m/dir", query=b"x=1", headers=[["Host", "example.com:8080"], ["Accept", "text/html"]], scheme="https", client=None),
        gw.areq(method="HEAD", path="/m/file.txt", headers=[["Range", "bytes=2-5"]]),
        gw.areq(method="GET", path="/file.txt", headers=[["If-None-Match", "*"], ["Cookie", "a=1; b=2"]], root_path="/é"),
        gw.areq(method="PUT", path="/m/é", query=b"q=%C3%A9", body=[b"", b"raw", b""], headers=[["Content-Type", "text/plain"]], client=None, root_path="/é"),
    ]
    pairs = [([], ["omit-scope"]), (["omit-empty"], ["omit-message"]), (["server-extras"], ["header-lists", "spec-2.0"]),
             (["omit-empty", "server-extras"], ["omit-scope", "omit-message", "header-lists", "spec-2.0"])]
    for name, app in apps:
        for rq in reqs:
            for wf, af in pairs:
                yield {"name": name, "app": app, "request": rq, "wsgi_flags": wf, "asgi_flags": af}


def sequence_cases(quick):
    import itertools

    mp = mref.encode({"boundary": "XbX", "charset": "utf-8", "preamble": None, "epilogue": None, "padding": b"",
                      "parts": [{"name": "t", "filename": None, "headers": [], "content": "café".encode()},
                                {"name": "u", "filename": "a.txt", "headers": [["Content-Type", "text/plain"], ["X-Extra", "1"]], "content": b"upload\r\nbytes"},
                                {"name": "t", "filename": None, "headers": [], "content": b"2"}]})
    mp_gbk = mref.encode({"boundary": "XbX", "charset": "gbk", "preamble": None, "epilogue": None, "padding": b"",
                          "parts": [{"name": "字段", "filename": None, "headers": [], "content": "中文值".encode("gbk")}, {"name": "f", "filename": "文件.txt", "headers": [], "content": b"\xd6\xd0"}]})
    bodies = [
        ("none", [], [b""]),
        ("json", [["Content-Type", "application/json"]], [b'{"a": "\xc3', b'\xa9", "n": [1, 2.5, null]}']),
        ("urlencoded", [["Content-Type", "application/x-www-form-urlencoded"]], [b"a=1&b=%C3%A9", b"&a=3&empty=&=x&&b"]),
        ("urlencoded-utf8", [["Content-Type", "application/x-www-form-urlencoded; charset=utf-8"]], [b"b=\xc3\xa9&empty="]),
        ("urlencoded-undecodable", [["Content-Type", "application/x-www-form-urlencoded; charset=utf-8"]], [b"x=\xe9"]),
        ("json-latin1", [["Content-Type", "application/json; charset=latin-1"]], ['{"k": "é"}'.encode("latin-1")]),
        ("multipart", [["Content-Type", "multipart/form-data; boundary=XbX"]], [mp[i:i + 11] for i in range(0, len(mp), 11)]),
        ("badjson", [["Content-Type", "application/json"]], [b"{"]),
        ("multipart-gbk", [["Content-Type", "multipart/form-data; charset=gbk; boundary=XbX"]], [mp_gbk[:30], mp_gbk[30:]]),
        ("multipart-no-boundary", [["Content-Type", "multipart/form-data"]], [mp]),
    ]
    ops = ["body", "json", "form", "stream"]
    seqs = [list(t) for n in (1, 2, 3) for t in itertools.product(ops, repeat=n)]
    seqs += [["close"], ["close", "form"], ["form", "close"], ["form", "close", "form"], ["form", "form", "close"], ["form", "close", "body"], ["form", "close", "stream"],
             ["json!"], ["form!"], ["body", "json!"], ["body", "form!"], ["stream", "body!"], ["form", "form!"],  # '!': the exception leaves the view
             ["stream", "close"], ["body", "close", "form"], ["json", "close", "json"], ["close", "close"], ["form", "close", "close"], ["form", "form", "form", "form"]]
    for kind, headers, body in bodies:
        for method in ("POST",) if quick else ("POST", "GET"):
            for seq in seqs:
                yield {"ops": seq, "body_kind": kind, "request": gw.areq(method=method, path="/s", headers=headers, body=body)}


def oracle_ctor(case) -> Result:
    r = oracle_responses(case)
    r.nontrivial = True
    r.label(f"ctor={case['name']}")
    return r


def ctor_cases(quick):
    doc = {"b": [1, {"é": "ü", "a": None}], "a": "中", "z": {"y": 1.5, "x": []}}
    own = [{"Content-Type": "text/csv"}, {"content-type": "application/problem+json; charset=utf-16"}, {"Content-Length": "3"}, {"content-length": "42", "Content-Type": "x/y"},
           {"Location": "/elsewhere"}, {"ETag": '"mine"', "Last-Modified": "Thu, 01 Jan 1970 00:00:00 GMT", "Content-Disposition": "inline", "Accept-Ranges": "none"}]
    edits = [[["set", "Content-Type", "text/csv"]], [["setdefault", "content-type", "a/b"], ["append", "Content-Type", "c/d"]], [["set", "content-length", "7"]],
             [["append", "Content-Length", "1"]], [["del", "content-type"], ["del", "content-length"]], [["update", [["Content-Type", "e/f"], ["Content-Length", "0"]]]]]
    recipes_ = []
    for kw in ({"indent": 2}, {"indent": 0}, {"indent": 4, "sort_keys": True}, {"sort_keys": True}, {"ensure_ascii": True}, {"ensure_ascii": True, "indent": 1, "sort_keys": True}):
        for content in (doc, [doc, "é"], "é", []):
            recipes_.append((f"json-kw:{sorted(kw)}", {"kind": "json", "content": content, **kw}))
    for content in ([1.5, float("nan")], {"a": float("inf")}, [float("-inf")]):  # not JSON: refused by default on both sides
        recipes_.append(("json-nan", {"kind": "json", "content": content}))
    bases = [
        ("empty", {"kind": "empty"}), ("empty-204", {"kind": "empty", "status": 204}),
        ("plain", {"kind": "plain", "content": "abc"}), ("plain-empty", {"kind": "plain", "content": ""}), ("plain-bytes", {"kind": "plain", "content": b"\xff\x00"}),
        ("plain-charset", {"kind": "plain", "content": "é", "charset": "latin-1", "media_type": "text/csv"}),
        ("html", {"kind": "html", "content": "<b>é</b>"}), ("json", {"kind": "json", "content": doc}), ("json-404", {"kind": "json", "content": None, "status": 404}),
        ("redirect", {"kind": "redirect", "url": "/é?x=1"}), ("redirect-301", {"kind": "redirect", "url": "https://example.org/", "status": 301}),
        ("stream", {"kind": "stream", "chunks": [b"ab", b"", b"cdef"]}), ("stream-ct", {"kind": "stream", "chunks": [b"x"], "content_type": "text/plain"}),
        ("sse", {"kind": "sse", "events": [{"data": "x"}]}),
        ("file", {"kind": "file", "name": "f.txt", "size": 12, "chunk": 5}), ("file-download", {"kind": "file", "name": "data", "size": 5, "chunk": 64, "download_name": "naïve.txt"}),
    ]
    # media_type argument spellings (with its own parameters, other case, non-text types) x charset argument, plain and html
    for kind in ("plain", "html"):
        for mt in ("text/csv; charset=utf-8", "text/plain; charset=latin-1", "text/plain;charset=UTF-8", "TEXT/CSV", "Text/Html; Charset=utf-8", "text/plain; format=flowed",
                   "text/x; q=\"charset=\"", "application/xml", "application/xml; charset=utf-8", "image/svg+xml", "texture/x", "text", "text/"):
            for cs in (None, "latin-1", "utf-16"):
                rcp = {"kind": kind, "content": "h\u00e9", "media_type": mt}
                if cs:
                    rcp["charset"] = cs
                recipes_.append((f"{kind}-media-type:{mt}:{cs}", rcp))
                recipes_.append((f"{kind}-media-type+own:{mt}:{cs}", {**rcp, "headers": {"content-type": "a/b"}}))
    for name, base in bases:
        recipes_.append((name, base))
        for h in own:
            recipes_.append((f"{name}+own:{sorted(k.lower() for k in h)}", {**base, "headers": h}))
        for ops in edits:
            recipes_.append((f"{name}+edit:{ops[0][0]}", {**base, "header_ops": ops}))
        recipes_.append((f"{name}+own+edit", {**base, "headers": {"Content-Type": "text/csv", "X-A": "1"}, "header_ops": [["append", "content-type", "q/r"], ["del", "x-a"]]}))
    for cs, texts in (("latin-1", ["é", "a\nü"]), ("gbk", ["中文", "x"]), ("utf-16", ["é"]), ("utf-8", ["日本"])):
        events = [{"data": t, "event": texts[0]} for t in texts] + [{"event": "only-event"}, {"id": "7", "retry": 10}, {"data": ""}, {"data": "l1\r\nl2\rl3"}]
        recipes_.append((f"sse-charset:{cs}", {"kind": "sse", "events": events, "charset": cs}))
        recipes_.append((f"sse-charset+headers:{cs}", {"kind": "sse", "events": events, "charset": cs, "status": 201, "headers": {"Cache-Control": "no-store", "X-Accel-Buffering": "no", "content-type": "text/plain"}}))
    cookies = [
        [{"name": "sid", "value": "v", "path": "/app"}], [{"name": "sid", "value": "v", "path": "/app/x y", "domain": "example.com", "secure": True, "httponly": True, "samesite": "strict", "max_age": 60, "expires": 3600}],
        [{"name": "sid", "value": "1"}, {"name": "sid", "value": "2", "path": "/b"}, {"name": "SID", "value": "3"}], [{"name": "gone", "delete": True}, {"name": "gone", "value": "again"}],
        [{"name": "q", "value": 'a"b\\c;d,e f'}, {"name": "n", "value": "", "samesite": "none"}],
    ]
    for i, cl in enumerate(cookies):
        for name, base in bases[:1] + bases[2:3] + bases[9:10] + bases[11:12] + bases[13:15]:
            recipes_.append((f"cookies{i}:{name}", {**base, "cookies": cl}))
    for name, recipe in recipes_:
        for method in ("GET", "HEAD"):
            for as_view in (False, True):
                yield {"name": name, "response": recipe, "request": gw.areq(method=method, path="/", headers=[["Accept", "*/*"]]), "as_view": as_view}


def bulk_cases(quick):
    K = 1024
    cases = [
        ({"kind": "fields", "n": 323}, None, ["form"]), ({"kind": "fields", "n": 324}, None, ["form"]), ({"kind": "fields", "n": 325}, None, ["form"]),
        ({"kind": "files", "n": 324}, 4096, ["form"]), ({"kind": "files", "n": 325}, None, ["form"]), ({"kind": "mixed", "n": 324}, 1000, ["form"]), ({"kind": "mixed", "n": 326}, 64 * K, ["form"]),
        ({"kind": "bigfield", "sizes": [K * K + 16]}, 64 * K, ["form"]), ({"kind": "bigfield", "sizes": [600 * K, 600 * K]}, 256 * K, ["form"]),
        ({"kind": "bigfile", "sizes": [K * K + 5]}, 64 * K, ["form"]), ({"kind": "bigfile", "sizes": [2 * K * K + 1, 10]}, None, ["form"]), ({"kind": "bigfile", "sizes": [K * K, K * K - 1]}, 100 * K, ["form"]),
        ({"kind": "bigfile", "sizes": [400 * K]}, 1000, ["form"]), ({"kind": "bigfield", "sizes": [400 * K]}, 1000, ["form"]),
        ({"kind": "raw", "size": 70000}, None, ["body", "stream"]), ({"kind": "raw", "size": 3 * 65536}, 65536, ["stream"]), ({"kind": "raw", "size": 200000}, 65537, ["body"]),
        ({"kind": "urlencoded", "n": 2000, "width": 40}, None, ["form", "body"]), ({"kind": "json", "n": 500, "width": 100}, 65536, ["json"]),
    ]
    if not quick:
        cases += [({"kind": "fields", "n": n}, sl, ["form"]) for n in (322, 324, 325, 400, 1000) for sl in (1000, 4096, 65536)]
        cases += [({"kind": "bigfield", "sizes": [K * K - 200 + d]}, 64 * K, ["form"]) for d in range(0, 400, 50)]
        cases += [({"kind": "bigfile", "sizes": [K * K - 2 + d]}, sl, ["form"]) for d in range(5) for sl in (None, 64 * K, K * K)]
        cases += [({"kind": "raw", "size": 65536 * k + d}, sl, ["body"]) for k in (1, 2) for d in (-1, 0, 1) for sl in (None, 65536, 65535)]
    for spec, sl, order in cases:
        yield {"spec": spec, "slice": sl, "order": order}


TREE2 = {"index.html": b"<root>", "dé/index.html": b"<de>", "dé/a.txt": b"A", "sp ace/index.html": b"<sp>", "q?d/index.html": b"<q>", "pc%20t/index.html": b"<pc>",
         "h#sh/x.txt": b"x", "n.html": b"<n>", "plain/b.txt": b"B", "日本/語.txt": b"nihon",
         "dd.html/x.txt": b"in a directory whose name ends in .html", "w.html.html": b"<w>", "idx/index.html/keep.txt": b"index.html is a directory here"}
TREE_BIG = {"big.bin": recipes.pattern(300000), "dir/index.html": b"<dir>"}  # one file longer than the default chunk of the file response (256 KiB)


def mount_cases(quick):
    e1, e2, e3, e4 = _e("e1"), _e("e2"), _e("e3"), _e("e4")
    tables = [
        [["/é", e1], ["/a/b", e2], ["/a", e3], ["", e4]],
        [["/a", e1], ["/a/b", e2]],
        [["/é", {"app": "subpaths", "mounts": [["/ü", e1], ["", e2]]}], ["/x y", e3]],
        [["/é", {"app": "router", "routes": [["/u/{p}", e1], ["/{rest:any}", e2]]}]],
        [["", e1]],
        [["/日本", {"app": "subpaths", "mounts": [["/語", e1]]}], ["/日", e2]],
        [["/é", {"app": "middleware", "kind": "add", "inner": e1}], ["", {"app": "response", "response": {"kind": "redirect", "url": "/é/"}}]],
    ]
    paths = ["", "/", "/é", "/é/", "/é/x", "/éx", "/é/ü", "/é/ü/z", "/é/u/v", "/a", "/a/b", "/a/b/c", "/a/bc", "/ab", "/x y", "/x y/z", "/日本/語/k", "/日本/語", "/日本語", "/日/本"]
    for t in tables:
        for path in paths:
            for root in ("", "/r", "/é"):
                yield {"app": {"app": "subpaths", "mounts": t}, "request": gw.areq(method="GET", path=path, query=b"q=1", root_path=root, headers=[["Accept", "text/html"]])}
    hosts = [
        [[r"testserver", e1], [r"example\.org(:\d+)?", e2]],
        [[r"", e1], [r".+", e2]],
        [[r"127\.0\.0\.1(:8000)?", e1]],
        [[r"(?i)example\.org", e1], [r"[a-z.]+", e2]],
    ]
    for t in hosts:
        for host in (None, "testserver", "example.org", "example.org:443", "EXAMPLE.org", "127.0.0.1:8000", "127.0.0.1", ""):
            for server in (["testserver", 80], ["example.org", 443], ["127.0.0.1", 8000]):
                headers = [] if host is None else [["Host", host]]
                yield {"app": {"app": "hosts", "table": t}, "request": gw.areq(method="GET", path="/h", headers=headers, server=server, scheme="https" if server[1] == 443 else "http")}


def static_cases(quick):
    nf = {"app": "response", "response": {"kind": "plain", "content": "custom 404", "status": 404}, "label": "nf"}
    apps = [
        ("", {"app": "files", "tree": TREE2}), ("", {"app": "pages", "tree": TREE2}),
        ("", {"app": "pages", "tree": TREE2, "handle_404": nf}), ("", {"app": "files", "tree": TREE2, "handle_404": _e("nf-echo")}),
        ("/é", {"app": "subpaths", "mounts": [["/é", {"app": "pages", "tree": TREE2}]]}),
        ("/static", {"app": "subpaths", "mounts": [["/static", {"app": "files", "tree": TREE2, "handle_404": nf}]]}),
    ]
    paths = ["/", "/dé", "/dé/", "/dé/a.txt", "/sp ace", "/q?d", "/pc%20t", "/h#sh/x.txt", "/h#sh", "/n", "/n.html", "/plain", "/plain/", "/missing", "/missing/", "/dé/missing",
             "/../x", "/index.html/", "/日本", "/日本/語.txt", "/dd", "/dd/", "/dd.html", "/dd.html/x.txt", "/w", "/w.html", "/idx", "/idx/", "/idx/index.html"]
    shapes = [("GET", [], False), ("GET", [], True), ("HEAD", [], False), ("GET", [["If-None-Match", "*"]], False), ("GET", [["Range", "bytes=-5"]], True), ("GET", [["Range", "bytes=1-2,4-"]], True),
              ("GET", [["If-Modified-Since", "Fri, 31 Dec 2100 23:59:59 GMT"]], True)]
    big = [("GET", [], False), ("GET", [], True), ("GET", [["Range", "bytes=262140-262149"]], True), ("GET", [["Range", "bytes=262140-262149"]], False),
           ("GET", [["Range", "bytes=0-0,262143-262145,299999-"]], True), ("GET", [["Range", "bytes=0-0,262143-262145,299999-"]], False), ("GET", [["Range", "bytes=100-"]], True), ("HEAD", [], True)]
    for kind in ("files", "pages"):
        for method, headers, zc in big:
            yield {"app": {"app": kind, "tree": TREE_BIG}, "request": gw.areq(method=method, path="/big.bin", headers=headers, extensions=_ZC if zc else None)}
    for prefix, app in apps:
        for path in paths:
            for method, headers, zc in shapes:
                for root, query in (("", b""), ("/é", b"a=1")) if path in ("/dé", "/sp ace", "/q?d", "/plain", "/missing", "/日本") else (("", b""),):
                    yield {"app": app, "request": gw.areq(method=method, path=prefix + path, query=query, headers=headers, root_path=root, extensions=_ZC if zc else None)}


def reuse_cases(quick):
    def rq(method="GET", rng=None, zc=False):
        return gw.areq(method=method, path="/", headers=[] if rng is None else [["Range", rng]], extensions=_ZC if zc else None)

    file_seqs = [
        [rq(), rq(rng="bytes=2-5"), rq(), rq("HEAD"), rq(rng="bytes=0-0,5-9"), rq(), rq(rng="junk"), rq(), rq(rng="bytes=999-"), rq("HEAD"), rq()],
        [rq(rng="bytes=-3", zc=True), rq(zc=True), rq(rng="bytes=1-2,4-", zc=True), rq(zc=True)],
        [rq(rng="bytes=999-"), rq(rng="bytes=0-1")],
    ]
    for recipe in ({"kind": "file", "name": "f.txt", "size": 64, "chunk": 5}, {"kind": "file", "name": "data", "size": 12, "chunk": 64, "download_name": "d.bin", "headers": {"X-A": "1"}, "cookies": [{"name": "c", "value": "v"}]}):
        for seq in file_seqs:
            yield {"response": recipe, "requests": seq}
    small = [{"kind": "plain", "content": "abc"}, {"kind": "plain", "content": "", "headers": {"Content-Length": "9"}}, {"kind": "json", "content": {"a": [1, "é"]}, "indent": 1},
             {"kind": "empty", "status": 204}, {"kind": "empty", "cookies": [{"name": "c", "value": "v", "max_age": 5}]}, {"kind": "redirect", "url": "/é"}, {"kind": "html", "content": "<p>", "header_ops": [["append", "Vary", "Accept"]]}]
    for recipe in small:
        yield {"response": recipe, "requests": [rq(), rq("HEAD"), rq("POST"), rq()]}


def inm_lines_cases(quick):
    """If-None-Match on two and three lines: the file's own tag first / last / in the middle / absent, weak form, `*`, a list on
    one of the lines, near-miss tags; alone and next to If-Modified-Since (which the entity tag overrides)."""
    T0 = 1_500_000_000
    arrangements = [["own-etag", "other"], ["other", "own-etag"], ["other", "other2"], ["own-etag", "own-etag"], ["weak-own", "other"], ["other", "weak-own"], ["other3", "other"],
                    ["star", "other"], ["other", "star"], ["list", "other"], ["other", "list"], ["two-others", "own-etag"], ["two-others", "other"],
                    ["own-etag", "other", "other2"], ["other", "own-etag", "other2"], ["other", "other2", "own-etag"], ["other", "other2", "other3"], ["other", "two-others", "weak-own"],
                    ["two-others", "list", "other"], ["other3", "other2", "two-others"]]
    targets = [({"app": "files", "tree": TREE}, "", "/file.txt"), ({"app": "pages", "tree": TREE}, "", "/dir/"), ({"app": "pages", "tree": TREE}, "", "/p"),
               ({"app": "subpaths", "mounts": [["/static", {"app": "files", "tree": TREE}]]}, "/static", "/é.txt"),
               ({"app": "subpaths", "mounts": [["/static", {"app": "pages", "tree": TREE}]]}, "/static", "/"),
               ({"app": "response", "response": {"kind": "file", "size": 12, "name": "f.txt"}}, "", "/")]
    for app, prefix, path in targets:
        for arr in arrangements:
            for extra in ([], [["ims", "after-both"]], [["ims", "before-both"]]):
                for method in ("GET", "HEAD") if not extra else ("GET",):
                    yield {"app": app, "prefix": prefix, "path": path, "mtime": T0, "ctime": T0 + 7, "conds": [["inm-lines", arr]] + extra, "method": method}


def history_cases(quick):
    T0 = 1_600_000_000
    own = lambda step, name: ["from", step, name]  # noqa: E731 - the value of a response header of an earlier step
    tree = {"f.txt": b"first version", "d/index.html": b"<d>", "p.html": b"<p>"}
    scen = [
        ("touch-then-ims", [["touch", "f.txt", T0, T0], ["req", "/f.txt", []], ["touch", "f.txt", T0 + 100, T0 + 100], ["req", "/f.txt", [["If-Modified-Since", own(1, "last-modified")]]],
                            ["req", "/f.txt", [["If-None-Match", own(1, "etag")]]], ["req", "/f.txt", [["If-None-Match", own(3, "etag")]]]]),
        ("rewrite-longer", [["req", "/f.txt", []], ["write", "f.txt", b"second version, longer"], ["req", "/f.txt", []], ["req", "/f.txt", [["Range", ["literal", "bytes=-6"]]]], ["req", "/f.txt", [], "HEAD"]]),
        ("rewrite-shorter", [["touch", "f.txt", T0, T0], ["req", "/f.txt", [["Range", ["literal", "bytes=5-"]]]], ["write", "f.txt", b"v2"], ["touch", "f.txt", T0 + 1, T0 + 1], ["req", "/f.txt", [["Range", ["literal", "bytes=5-"]]]],
                             ["req", "/f.txt", [["Range", ["literal", "bytes=0-"]], ["If-Range", own(1, "etag")]]]]),
        ("delete", [["req", "/f.txt", []], ["delete", "f.txt"], ["req", "/f.txt", []], ["req", "/f.txt", [["If-None-Match", own(0, "etag")]]]]),
        ("create", [["req", "/new.txt", []], ["write", "new.txt", b"now here"], ["req", "/new.txt", []], ["req", "/new.txt", [], "HEAD"]]),
        ("create-dir", [["req", "/e", []], ["req", "/e/", []], ["write", "e/index.html", b"<e>"], ["req", "/e", []], ["req", "/e/", []], ["delete", "e/index.html"], ["req", "/e/", []]]),
        ("html-fallback-appears", [["req", "/q", []], ["write", "q.html", b"<q>"], ["req", "/q", []], ["delete", "q.html"], ["req", "/q", []]]),
        ("ctime-only", [["touch", "f.txt", T0, T0], ["req", "/f.txt", []], ["touch", "f.txt", T0, T0 + 500], ["req", "/f.txt", [["If-Modified-Since", own(1, "last-modified")]]], ["req", "/f.txt", [["If-None-Match", own(1, "etag")]]]]),
        ("same-request-thrice", [["req", "/d/", []], ["req", "/d/", []], ["req", "/d", []], ["req", "/d/", [["If-None-Match", own(0, "etag")]]], ["req", "/p", []], ["req", "/p", []]]),
    ]
    for kind in ("files", "pages"):
        for mount in (None, "/st"):
            for h404 in (False, True):
                for name, steps in scen:
                    yield {"name": name, "kind": kind, "tree": tree, "mount": mount, "handle_404": h404, "steps": steps}


def run(rec, only=None):
    quick = rec.tier == "quick"
    enumerated = [
        ("filegrid", file_grid(quick), oracle_responses),
        ("presentations", presentation_cases(quick), oracle_presentations),
        ("sequences", sequence_cases(quick), oracle_sequences),
        ("ctor", ctor_cases(quick), oracle_ctor),
        ("mounts", mount_cases(quick), oracle_apps),
        ("static", static_cases(quick), oracle_apps),
        ("inm_lines", inm_lines_cases(quick), oracle_conditional),
        ("history", history_cases(quick), oracle_history),
        ("reuse", reuse_cases(quick), oracle_reuse),
        ("bulk", bulk_cases(quick), oracle_bulk),
    ]
    for name, cases, oracle in enumerated:
        core.drive_cases(rec, name, cases, oracle)
    core.drive_hypothesis(rec, "echo", echo_case(), oracle_echo, 1500 if quick else 360000)
    core.drive_hypothesis(rec, "responses", response_case(), oracle_responses, 1000 if quick else 80000, seed_offset=1)
    core.drive_hypothesis(rec, "apps", app_case(), oracle_apps, 1200 if quick else 90000, seed_offset=2)
    core.drive_hypothesis(rec, "conditional", conditional_case(), oracle_conditional, 500 if quick else 36000, seed_offset=3)
    for k in SUBS:
        rec.exhaustive[k] = False
    for name, _cases, _oracle in enumerated:
        rec.exhaustive[name] = True
