"""C04 - The WSGI and ASGI stacks are observationally equivalent."""
from __future__ import annotations

import json
import re

from hypothesis import strategies as st

from harness import core, gateways as gw, gen, recipes
from harness.core import Result
from harness.refs import multipart as mref

LEVEL = "exploration"
RULES = {
    "echo": "Hypothesis: abstract requests (method, Unicode path, query bytes, 0..8 headers from a dictionary of real names with "
    "grammar-built values - Cookie, Accept, Content-Type incl. charset/boundary, Content-Length, Date, Referer, Host, Range, "
    "conditionals - plus noise, body partition, client, server, scheme, root path) presented as WSGI environ and as ASGI scope + "
    "messages to a view that echoes the whole request view (method, url and components, headers, query, cookies, content type and "
    "options, content length, accepted types and accepts(), client, date, referrer, body / json / form / stream in a generated access "
    "order, uploaded files, path params); the two echoes must be equal; non-trivial = the request carries a header the echo "
    "interprets, or a body",
    "responses": "Hypothesis: every response recipe (8 classes, cookies, header operations) used as application and as view result; "
    "status, header multiset and body must be equal on both interfaces",
    "filegrid": "enumerated: FileResponse (size, chunk) pairs x Range shapes (shorter/longer than a chunk, multiples and non-multiples of it, ending "
    "inside the file, multi-range, refused) x GET/HEAD x app/view result, compared across the two interfaces",
    "conditional": "Hypothesis: Files / Pages (bare and mounted) and FileResponse over files whose mtime and ctime are set apart through the harness's "
    "stat clock; a plain GET, then a revalidation built from the validators the server itself handed out (own Last-Modified, dates around "
    "mtime and ctime, own/weak/foreign ETag, Range + If-Range); non-trivial = mtime and ctime fall in different seconds",
    "apps": "Hypothesis: Router / Subpaths / Hosts compositions with echo and response leaves, Files / Pages over a generated tree with "
    "Range and conditional headers, view decorators and middleware stacks; same comparison plus path parameters; non-trivial = the "
    "request reaches a view or file (not a bare 404)",
}
ASSUMPTIONS = [
    "sanctioned difference: the hop-by-hop Connection header of the ASGI event-stream response; the random multipart/byteranges boundary and "
    "the wall-clock second of cookie Expires are normalised; reason phrase and body chunking are ignored",
    "header names without underscores (a WSGI environ cannot tell '_' from '-'); repeated request headers are joined with ', ' by the WSGI gateway as baize's header mapping does",
    "paths are valid UTF-8 (invalid UTF-8 belongs to C12)",
]


def norm_headers(pairs, kind=None):
    out = []
    boundary = None
    for k, v in pairs:
        k = k.lower()
        m = re.match(r"^multipart/byteranges; boundary=([a-z0-9]+)$", v) if k == "content-type" else None
        if m:
            boundary = m.group(1)
    for k, v in pairs:
        k = k.lower()
        if k == "connection" and kind == "sse":
            continue
        if boundary:
            v = v.replace(boundary, "BOUNDARY")
        if k == "set-cookie":
            v = re.sub(r"expires=[^;]+", "expires=<T>", v)
        out.append((k, v))
    return sorted(out), boundary


def run_pair(app_recipe, rq):
    out = {}
    for side in ("wsgi", "asgi"):
        built = recipes.build_app(app_recipe, side)
        rq_copy = {**rq, "body": list(rq.get("body", []))}
        if side == "wsgi":
            rq_copy["body"] = [c for c in rq_copy["body"] if c]
            run = gw.call_wsgi(built.app, rq_copy)
            heads = [(k, v) for k, v in run.headers]
        else:
            run = gw.call_asgi(built.app, rq_copy)
            heads = [(k.decode("latin-1"), v.decode("latin-1")) for k, v in run.headers]
        out[side] = (run, heads, built)
    return out


def compare_runs(r, out, ctx, kind=None):
    (wr, wh, wb), (ar, ah, ab) = out["wsgi"], out["asgi"]
    wexc = type(wr.exc).__name__ if wr.exc is not None else None
    aexc = type(ar.exc).__name__ if ar.exc is not None else None
    if wexc != aexc:
        r.fail(f"C04:exception-differs:{wexc}-vs-{aexc}", f"{ctx}: wsgi raised {wr.exc!r}, asgi raised {ar.exc!r}")
        return
    if wexc is not None:
        r.label("both-raise")
        return
    if wr.status_code != ar.status_code:
        r.fail("C04:status-differs", f"{ctx}: wsgi {wr.status_code}, asgi {ar.status_code}")
    nwh, wbnd = norm_headers(wh, kind)
    nah, abnd = norm_headers(ah, kind)
    if nwh != nah:
        only_w = [h for h in nwh if h not in nah]
        only_a = [h for h in nah if h not in nwh]
        names = sorted({h[0] for h in only_w + only_a})
        r.fail(f"C04:headers-differ:{','.join(names)[:60]}", f"{ctx}: only wsgi {only_w!r}; only asgi {only_a!r}")
    wbody, abody = wr.body, ar.body
    if wbnd:
        wbody = wbody.replace(wbnd.encode(), b"BOUNDARY")
    if abnd:
        abody = abody.replace(abnd.encode(), b"BOUNDARY")
    if wbody != abody:
        r.fail("C04:body-differs", f"{ctx}: wsgi {wbody[:80]!r} ({len(wbody)} bytes), asgi {abody[:80]!r} ({len(abody)} bytes)")
    if wb.stash != ab.stash:
        diff = []
        for i, (we, ae) in enumerate(zip(wb.stash, ab.stash)):
            for k in sorted(set(we) | set(ae)):
                if we.get(k) != ae.get(k):
                    diff.append((k, we.get(k), ae.get(k)))
        if len(wb.stash) != len(ab.stash):
            diff.append(("echo-count", len(wb.stash), len(ab.stash)))
        keys = sorted({d[0] for d in diff})
        r.fail(f"C04:request-view-differs:{','.join(keys)[:60]}", f"{ctx}: (accessor, wsgi, asgi) = {diff[:4]!r}")
    wl = [c for c in wb.calls]
    al = [c for c in ab.calls]
    if wl != al:
        r.fail("C04:dispatch-differs", f"{ctx}: wsgi ran {wl!r}, asgi ran {al!r}")
    r.label(f"status={wr.status_code}")
    return wr.status_code


def oracle_echo(case) -> Result:
    r = Result()
    rq = case["request"]
    app = {"app": "echo", "order": case["order"]}
    out = run_pair(app, rq)
    compare_runs(r, out, f"request {core.to_jsonable(rq)!r} order {case['order']!r}")
    interesting = {"cookie", "accept", "content-type", "content-length", "date", "referer", "host"}
    r.nontrivial = bool(interesting & {k.lower() for k, _ in rq["headers"]}) or any(rq.get("body") or [])
    for k, _ in rq["headers"]:
        r.label(f"hdr={k.lower()}")
    r.label(f"body={case.get('body_kind')}")
    return r


def oracle_responses(case) -> Result:
    r = Result()
    recipe = case["response"]
    rq = case["request"]
    app = {"app": "view" if case.get("as_view") else "response", "response": recipe}
    out = run_pair(app, rq)
    compare_runs(r, out, f"recipe {recipe!r} as_view={case.get('as_view')} request {core.to_jsonable(rq)!r}", kind=recipe["kind"])
    r.nontrivial = recipe["kind"] in ("file", "stream", "sse") or bool(recipe.get("cookies")) or bool(recipe.get("header_ops"))
    r.label(f"kind={recipe['kind']}")
    return r


def oracle_apps(case) -> Result:
    r = Result()
    rq = case["request"]
    out = run_pair(case["app"], rq)
    status = compare_runs(r, out, f"app {case['app']!r} request {core.to_jsonable(rq)!r}")
    built = out["wsgi"][2]
    r.nontrivial = bool(built.calls) or status in (200, 206, 304, 307)
    r.label(f"app={case['app']['app']}")
    return r


def _httpdate(t):
    from email.utils import formatdate

    return formatdate(t, usegmt=True)


def oracle_conditional(case) -> Result:
    """Revalidation of files whose mtime and ctime differ (the harness owns the file clock): the
    validators handed out and the 304/200/206 decision must be the same on both interfaces."""
    import os

    from harness import vfs

    r = Result()
    app = case["app"]
    prefix = case.get("prefix", "")
    root = recipes.materialise(TREE)
    fr_root = None
    if app["app"] in ("response", "view"):
        rec_ = app["response"]
        fr_root = recipes.materialise({rec_.get("name", "f.txt"): recipes.pattern(rec_["size"])})
    mtime, ctime = case["mtime"], case["ctime"]
    try:
        for base in filter(None, (root, fr_root)):
            for d, _dirs, files in os.walk(base):
                for f in files:
                    vfs.set_times(os.path.join(d, f), mtime, mtime, ctime)
        rq0 = gw.areq(method="GET", path=prefix + case["path"], headers=[])
        out0 = run_pair(app, rq0)
        st0 = compare_runs(r, out0, f"app {app!r} clock mtime={mtime} ctime={ctime} plain GET {case['path']!r}")
        heads = {k.lower(): v for k, v in out0["wsgi"][1]}
        lm, etag = heads.get("last-modified"), heads.get("etag")
        r.label(f"first={st0}")
        if st0 == 200 and lm:
            stamps = {
                "own-last-modified": lm,
                "mtime": _httpdate(mtime),
                "ctime": _httpdate(ctime),
                "between": _httpdate((mtime + ctime) / 2),
                "before-both": _httpdate(min(mtime, ctime) - 86400),
                "after-both": _httpdate(max(mtime, ctime) + 86400),
                "mtime-1": _httpdate(mtime - 1),
                "mtime+1": _httpdate(mtime + 1),
                "ctime-1": _httpdate(ctime - 1),
            }
            tags = {"own-etag": etag or '"none"', "weak-own": "W/" + (etag or '"none"'), "other": '"other"', "star": "*", "list": '"x", ' + (etag or '"y"')}
            hs = []
            for kind, key in case["conds"]:
                if kind == "ims":
                    hs.append(["If-Modified-Since", stamps[key]])
                elif kind == "inm":
                    hs.append(["If-None-Match", tags[key]])
                elif kind == "range":
                    hs.append(["Range", key])
                elif kind == "if-range-date":
                    hs.append(["If-Range", stamps[key]])
                elif kind == "if-range-tag":
                    hs.append(["If-Range", tags[key]])
            names = [h[0] for h in hs]
            if len(set(names)) == len(names):
                rq1 = gw.areq(method=case.get("method", "GET"), path=prefix + case["path"], headers=hs)
                out1 = run_pair(app, rq1)
                st1 = compare_runs(r, out1, f"app {app!r} clock mtime={mtime} ctime={ctime} revalidation {hs!r} of {case['path']!r}")
                r.label(f"second={st1}", *[f"cond={k}:{v}" for k, v in case["conds"] if k != "range"])
                r.nontrivial = int(mtime) != int(ctime)
    finally:
        vfs.clear_times(root)
        if fr_root:
            vfs.clear_times(fr_root)
    return r


@st.composite
def conditional_case(draw):
    shape = draw(st.sampled_from(["files", "pages", "files-mounted", "pages-mounted", "fileresponse"]))
    prefix = ""
    if shape == "fileresponse":
        app = {"app": draw(st.sampled_from(["response", "view"])), "response": {"kind": "file", "size": draw(st.sampled_from([0, 1, 12, 64])), "name": "f.txt"}}
        path = "/"
    else:
        app = {"app": shape.split("-")[0], "tree": TREE}
        if shape.endswith("mounted"):
            app = {"app": "subpaths", "mounts": [["/static", app]]}
            prefix = "/static"
        path = draw(st.sampled_from(["/file.txt", "/index.html", "/", "/p", "/p.html", "/dir/", "/dir/a.txt", "/é.txt", "/empty.bin", "/d2"]))
    base = draw(st.sampled_from([1_000_000_000, 1_445_412_480, 1_700_000_000, 86_400 * 365]))
    delta = draw(st.sampled_from([0, 1, -1, 2, 3600, -3600, 86400 * 30, -86400 * 30, 0.5, 59]))
    keys = ["own-last-modified", "mtime", "ctime", "between", "before-both", "after-both", "mtime-1", "mtime+1", "ctime-1"]
    tkeys = ["own-etag", "weak-own", "other", "star", "list"]
    conds = []
    mode = draw(st.integers(0, 5))
    if mode <= 2:
        conds.append(["ims", draw(st.sampled_from(keys))])
    elif mode == 3:
        conds.append(["inm", draw(st.sampled_from(tkeys))])
    elif mode == 4:
        conds.append(["inm", draw(st.sampled_from(tkeys))])
        conds.append(["ims", draw(st.sampled_from(keys))])
    else:
        conds.append(["range", draw(st.sampled_from(["bytes=0-3", "bytes=1-", "bytes=-2", "bytes=0-0,2-3"]))])
        conds.append(draw(st.sampled_from([["if-range-date", k] for k in keys] + [["if-range-tag", k] for k in tkeys[:3]])))
    return {"app": app, "prefix": prefix, "path": path, "mtime": base, "ctime": base + delta, "conds": conds, "method": draw(st.sampled_from(["GET", "GET", "HEAD"]))}


SUBS = {"echo": oracle_echo, "responses": oracle_responses, "apps": oracle_apps, "conditional": oracle_conditional, "filegrid": oracle_responses}

# ------------------------------------------------------------------------------------------
# generators

_token_val = st.sampled_from(["1", "abc", "a, b", "x y", "é", "", "q=0.5"])

HEADER_VALUES = {
    "Cookie": ["a=1", "a=1; b=2", 'k="quoted; value"', "a=1; a=2", "=x", "flag", 'e="\\303\\251"', "a=b=c", " a = 1 ; b=2 "],
    "Accept": ["*/*", "text/html", "text/html, application/json;q=0.9, */*;q=0.1", "application/*", "text/*;q=0", "", "image/png,,text/plain", "TEXT/HTML"],
    "Content-Type": ["application/json", "application/json; charset=utf-8", "application/json; charset=latin-1", "application/x-www-form-urlencoded",
                     "application/x-www-form-urlencoded; charset=utf-8", 'multipart/form-data; boundary="XbX"', "multipart/form-data; boundary=XbX", "text/plain", "",
                     "APPLICATION/JSON", "multipart/form-data", "application/json; charset=nope"],
    "Content-Length": ["0", "5", "abc", "-1", " 7"],
    "Date": ["Wed, 21 Oct 2015 07:28:00 GMT", "Wed, 21 Oct 2015 07:28:00 +0200", "21 Oct 2015 07:28:00", "garbage", ""],
    "Referer": ["https://example.org/a?b=1", "/x", "http://[", ""],
    "Host": ["example.com", "example.com:8080", "[::1]:8000", "EXAMPLE.com", "a:b", ""],
    "Range": ["bytes=0-4", "bytes=-3", "bytes=0-0,2-3", "bytes=9999-", "junk", ""],
    "If-Range": ['"x"', "Wed, 21 Oct 2015 07:28:00 GMT", ""],
    "If-None-Match": ["*", '"abc"', 'W/"abc", "def"', ""],
    "If-Modified-Since": ["Wed, 21 Oct 2015 07:28:00 GMT", "Fri, 31 Dec 2100 23:59:59 GMT", "garbage", ""],
    "Transfer-Encoding": ["chunked", "identity"],
    "X-Custom": ["1", "a, b", "é", ""],
    "User-Agent": ["curl/8", "Mozilla/5.0 (X11; Linux) é"],
    "Accept-Language": ["en", "de, en;q=0.5"],
}

_path = st.one_of(
    st.sampled_from(["/", "", "/a", "/a/b", "/é", "/中/文", "/a b", "/a%20b", "/a?b", "/a#b", "/x.y/", "//", "/a//b", "/index.html", "/file.txt", "/dir", "/dir/", "/p", "/missing"]),
    st.lists(st.sampled_from(["a", "b", "é", "x y", "1", "2021-03-07", "3.14", "%", "..", "."]), max_size=4).map(lambda s: "/" + "/".join(s)),
)
_query = st.sampled_from([b"", b"a=1", b"a=1&a=2&b=", b"q=%C3%A9", b"q=\xe9", b"x", b"a=b=c&&", b"%zz", b"a+b=c+d", b"k=v;w=x"])


_FORCED = {}


def _body(draw, ctype):
    _FORCED.clear()
    kind = draw(st.sampled_from(["none", "json", "urlencoded", "multipart", "raw", "badjson"]))
    if kind == "none":
        raw = b""
    elif kind == "json":
        value = draw(st.one_of(gen.json_values, st.sampled_from([{"name": "Zoë", "city": "Köln"}, ["é", "中文"], "ü"])))
        raw = json.dumps(value, ensure_ascii=draw(st.sampled_from([False, False, True]))).encode("utf-8")
        if draw(st.integers(0, 2)) == 0:
            # the declared charset and the actual encoding of the body, in every combination that
            # matters: agreeing non-UTF-8, disagreeing, unknown, byte-order marks, undeclared UTF-16/32
            text = json.dumps(draw(st.sampled_from([{"name": "Zoë"}, ["é", "ü"], "ñ", {"k": [1, "ß"]}, ["中文"]])), ensure_ascii=False)
            declared, actual = draw(st.sampled_from([
                ("latin-1", "latin-1"), ("iso-8859-1", "latin-1"), ("utf-16", "utf-16"), ("utf-16-le", "utf-16-le"), ("gbk", "gbk"), ("cp1252", "cp1252"),
                ("nope", "utf-8"), ("latin-1", "utf-8"), ("utf-8", "latin-1"), (None, "utf-8-sig"), ("utf-8", "utf-8-sig"), (None, "utf-16"), (None, "utf-32"),
                (None, "utf-16-le"), ("ascii", "utf-8"), ("utf-8-sig", "utf-8-sig"), ("utf-7", "utf-7"),
            ]))
            try:
                raw = text.encode(actual)
            except UnicodeEncodeError:
                raw = json.dumps(["x"]).encode(actual)
            _FORCED["ctype"] = "application/json" + (f"; charset={declared}" if declared else "")
    elif kind == "badjson":
        raw = draw(st.sampled_from([b"{", b"\xff", b"[1,", b"nul"]))
    elif kind == "urlencoded":
        raw = draw(st.sampled_from([b"a=1&b=2", b"a=%C3%A9&a=2", b"x=\xe9", b"", b"&=&", b"k=v" * 30]))
    elif kind == "multipart":
        form = draw(gen.forms(max_parts=3, max_pieces=3))
        form["boundary"] = "XbX"
        if draw(st.booleans()):
            # a text field whose value is mostly multi-byte characters
            cs = form["charset"]
            text = draw(st.sampled_from(["café", "Zoë Köln", "中文字段", "naïve — “quoted”", "ééééé", "日本語のテキスト"]))
            text = "".join(ch for ch in text if gen._enc_ok(ch, cs))
            form["parts"].append({"name": "txt", "filename": None, "headers": [], "content": text.encode(cs)})
        for p in form["parts"]:
            while b"--XbX" in p["content"]:
                p["content"] = p["content"].replace(b"--XbX", b"")
        raw = mref.encode(form)
    else:
        raw = draw(st.binary(max_size=40))
    mode = draw(st.integers(0, 5))
    if mode == 0 and 0 < len(raw) <= 600:
        # every message boundary the server could choose: fixed-size slices of 1..3 bytes cut through
        # multi-byte characters, CRLF pairs and delimiters alike
        k = draw(st.integers(1, 3))
        return kind, [raw[i:i + k] for i in range(0, len(raw), k)]
    if mode == 1 and raw:
        # one cut right inside a non-ASCII character, where there is one
        hi = [i for i, b in enumerate(raw) if b >= 0x80 and i > 0]
        if hi:
            return kind, mref.chunks_from_cuts(raw, [draw(st.sampled_from(hi))])
    cuts = draw(st.lists(st.integers(0, max(len(raw), 1)), max_size=4))
    return kind, mref.chunks_from_cuts(raw, cuts)


@st.composite
def requests(draw, methods=("GET", "POST", "PUT", "HEAD", "DELETE")):
    names = draw(st.lists(st.sampled_from(sorted(HEADER_VALUES)), max_size=8, unique=True))
    headers = [[n, draw(st.sampled_from(HEADER_VALUES[n]))] for n in names]
    if draw(st.integers(0, 3)) == 0:
        # a header sent on several lines (the WSGI server joins them with ", ", the ASGI scope keeps the lines)
        rep = draw(st.sampled_from(["Accept", "Accept-Language", "X-Custom", "X-Forwarded-For", "Cache-Control", "Via"]))
        vals = {"Accept": ["text/html", "application/json;q=0.9", "*/*;q=0.1"], "Accept-Language": ["de", "en;q=0.5"], "X-Custom": ["1", "2", "3"],
                "X-Forwarded-For": ["10.0.0.1", "192.168.0.7"], "Cache-Control": ["no-cache", "no-store"], "Via": ["1.1 a", "1.1 b"]}[rep]
        headers = [h for h in headers if h[0] != rep] + [[rep, v] for v in vals[: draw(st.integers(2, 3))]]
    ctype = next((v for k, v in headers if k == "Content-Type"), "")
    body_kind, body = _body(draw, ctype)
    # most of the time the Content-Type matches the body, so that json/form parsing is reached
    matching = {
        "json": ["application/json", "application/json", "application/json; charset=utf-8"],
        "badjson": ["application/json"],
        "urlencoded": ["application/x-www-form-urlencoded", "application/x-www-form-urlencoded; charset=utf-8", "application/x-www-form-urlencoded"],
        "multipart": ['multipart/form-data; boundary="XbX"', "multipart/form-data; boundary=XbX", "multipart/form-data; boundary=XbX; charset=utf-8"],
    }
    forced = _FORCED.pop("ctype", None)
    if forced is not None:
        headers = [h for h in headers if h[0] != "Content-Type"] + [["Content-Type", forced]]
    elif body_kind in matching and draw(st.integers(0, 3)) > 0:
        headers = [h for h in headers if h[0] != "Content-Type"] + [["Content-Type", draw(st.sampled_from(matching[body_kind]))]]
    scheme = draw(st.sampled_from(["http", "https"]))
    rq = gw.areq(
        method=draw(st.sampled_from(methods)),
        path=draw(_path),
        query=draw(_query),
        headers=headers,
        body=body,
        client=draw(st.sampled_from([None, ["127.0.0.1", 54321], ["::1", 1], ["10.0.0.1", 65535]])),
        server=draw(st.sampled_from([["testserver", 80], ["example.org", 443], ["127.0.0.1", 8000], ["::1", 8080]])),
        scheme=scheme,
        root_path=draw(st.sampled_from(["", "", "/root", "/é"])),
    )
    return rq, body_kind


@st.composite
def echo_case(draw):
    rq, body_kind = draw(requests())
    order = draw(st.lists(st.sampled_from(["body", "json", "form", "stream"]), min_size=1, max_size=4, unique=True))
    return {"request": rq, "order": order, "body_kind": body_kind}


@st.composite
def response_case(draw):
    recipe = draw(gen.response_recipes())
    rq, _ = draw(requests(methods=("GET", "GET", "HEAD", "POST")))
    if recipe["kind"] != "file":
        rq["headers"] = [h for h in rq["headers"] if h[0] not in ("Range", "If-Range")]
    elif draw(st.integers(0, 3)) > 0:
        rng = draw(st.sampled_from(["bytes=0-4", "bytes=1-9", "bytes=0-6", "bytes=2-", "bytes=-7", "bytes=0-0,5-9", "bytes=0-3,8-", "bytes=0-63", "bytes=10-100", "bytes=5-4", "bytes=999-"]))
        rq["headers"] = [h for h in rq["headers"] if h[0] not in ("Range", "If-Range")] + [["Range", rng]]
        if draw(st.integers(0, 3)) == 0:
            rq["headers"].append(["If-Range", draw(st.sampled_from(['"nope"', "Wed, 21 Oct 2015 07:28:00 GMT", "x"]))])
    return {"response": recipe, "request": rq, "as_view": draw(st.booleans())}


TREE = {"index.html": b"<root>", "file.txt": recipes.pattern(12), "p.html": b"<p>", "dir/index.html": b"<dir>", "dir/a.txt": b"A", "é.txt": b"e-acute", "empty.bin": b"", "d2/x": b"x", "d2.html": b"<d2>"}


@st.composite
def leaf(draw):
    kind = draw(st.sampled_from(["echo", "echo", "view", "response", "files", "pages"]))
    if kind == "echo":
        return {"app": "echo", "order": draw(st.lists(st.sampled_from(["body", "json", "form"]), max_size=2, unique=True)), "label": draw(st.sampled_from(["e1", "e2", "e3"])),
                "decorators": draw(st.lists(st.sampled_from(["identity", "add"]), max_size=1))}
    if kind in ("view", "response"):
        return {"app": kind, "response": draw(gen.response_recipes(kinds=("empty", "plain", "json", "redirect", "stream", "file"))), "label": draw(st.sampled_from(["r1", "r2"]))}
    return {"app": kind, "tree": TREE, "cacheability": draw(st.sampled_from(["public", "private", "no-cache"])), "max_age": draw(st.sampled_from([0, 600]))}


@st.composite
def app_case(draw):
    shape = draw(st.sampled_from(["router", "subpaths", "hosts", "files", "pages", "mw", "nested", "router-in-router"]))
    if shape == "router":
        templates = ["/", "/a", "/a/{p}", "/i/{n:int}", "/d/{x:decimal}", "/t/{d:date}", "/u/{u:uuid}", "/any/{rest:any}", "/{p}", "/é", "/{a}/{b:int}"]
        routes = [[draw(st.sampled_from(templates)), draw(leaf())] for _ in range(draw(st.integers(1, 4)))]
        app = {"app": "router", "routes": routes}
    elif shape == "subpaths":
        mounts = [[draw(st.sampled_from(["", "/a", "/a/b", "/é", "/static"])), draw(leaf())] for _ in range(draw(st.integers(1, 3)))]
        app = {"app": "subpaths", "mounts": mounts}
    elif shape == "hosts":
        table = [[draw(st.sampled_from([r"example\.com", r"(www\.)?example\.com(:\d+)?", r".*", r"\[::1\]:8000"])), draw(leaf())] for _ in range(draw(st.integers(1, 3)))]
        app = {"app": "hosts", "table": table}
    elif shape in ("files", "pages"):
        app = {"app": shape, "tree": TREE}
        if draw(st.booleans()):
            app = {"app": "subpaths", "mounts": [["/static", app], ["", {"app": "response", "response": {"kind": "plain", "content": "fallback"}}]]}
    elif shape == "router-in-router":
        # a router as endpoint of a route of another router (both see the whole path), optionally through a mount
        inner = {"app": "router", "routes": [["/o/{a}/i/{n:int}", draw(leaf())], ["/o/{a}/s/{name}", draw(leaf())], ["/o/{b}/{rest:any}", draw(leaf())]]}
        if draw(st.booleans()):
            inner = {"app": "subpaths", "mounts": [["", inner]]}
        app = {"app": "router", "routes": [["/o/{outer}/{tail:any}", inner], ["/{rest:any}", draw(leaf())]]}
    elif shape == "mw":
        inner = draw(leaf())
        app = inner
        for k in draw(st.lists(st.sampled_from(["identity", "add", "replace", "delete"]), min_size=1, max_size=2)):
            app = {"app": "middleware", "kind": k, "inner": app}
    else:
        app = {"app": "subpaths", "mounts": [["/api", {"app": "router", "routes": [["/v/{n:int}", draw(leaf())], ["/{rest:any}", draw(leaf())]]}], ["", draw(leaf())]]}
    rq, _ = draw(requests(methods=("GET", "GET", "HEAD", "POST")))
    if shape in ("files", "pages") and draw(st.integers(0, 4)) > 0:
        prefix = "/static" if app["app"] == "subpaths" else ""
        rq["path"] = prefix + draw(st.sampled_from(["/", "/file.txt", "/p", "/p.html", "/dir", "/dir/", "/dir/a.txt", "/é.txt", "/empty.bin", "/d2", "/d2/", "/d2/x", "/missing", "/index.html", "/dir/index.html", "/file.txt/", "/../file.txt"]))
        if draw(st.integers(0, 2)) == 0:
            cond = draw(st.sampled_from([["If-None-Match", "*"], ["If-Modified-Since", "Fri, 31 Dec 2100 23:59:59 GMT"], ["If-None-Match", '"nope"'], ["Range", "bytes=0-3"], ["Range", "bytes=0-0,5-"]]))
            rq["headers"] = [h for h in rq["headers"] if h[0] not in ("If-None-Match", "If-Modified-Since", "Range", "If-Range")] + [cond]
    if shape == "router-in-router" and draw(st.integers(0, 4)) > 0:
        rq["path"] = draw(st.sampled_from(["/o/x/i/42", "/o/x/s/bob", "/o/é/i/7", "/o/x/zzz/y", "/o/x/i/notint", "/o/x/", "/other"]))
    if shape == "hosts" and draw(st.integers(0, 3)) > 0:
        rq["headers"] = [h for h in rq["headers"] if h[0] != "Host"] + [["Host", draw(st.sampled_from(["example.com", "EXAMPLE.com", "www.example.com", "example.com:8080", "Example.Com:80", "[::1]:8000", "x.example.com"]))]]
    if shape == "router" and draw(st.integers(0, 3)) > 0:
        tpl = draw(st.sampled_from([t for t, _ in app["routes"]]))
        fill = {"{p}": draw(st.sampled_from(["x", "é", "a b"])), "{n:int}": draw(st.sampled_from(["0", "42", "007"])), "{x:decimal}": draw(st.sampled_from(["1.50", "100", "0"])),
                "{d:date}": draw(st.sampled_from(["2021-03-07", "2020-02-29"])), "{u:uuid}": "9047848a-0988-45fc-91fe-757d90136892", "{rest:any}": draw(st.sampled_from(["a/b", "", "x"])),
                "{a}": "seg", "{b:int}": "7"}
        for k, v in fill.items():
            tpl = tpl.replace(k, v)
        rq["path"] = tpl
    elif draw(st.booleans()):
        rq["path"] = draw(st.sampled_from(["/", "/a", "/a/x", "/i/42", "/i/x", "/d/1.50", "/t/2021-03-07", "/t/2021-13-45", "/u/9047848a-0988-45fc-91fe-757d90136892", "/any/a/b", "/é", "/x/7",
                                           "/static/file.txt", "/static/dir/", "/static/dir", "/static/é.txt", "/file.txt", "/dir/", "/dir", "/p", "/d2", "/empty.bin", "/api/v/3", "/api/zzz", "/static/../file.txt"]))
    return {"app": app, "request": rq}


def file_grid(quick):
    """Deterministic product for the file response on both interfaces: ranges shorter / longer than the
    chunk size, multiples and non-multiples of it, ending before the end of the file, multi-range, refused."""
    shapes = [(12, 5), (64, 3), (200, 64)] + ([] if quick else [(200, 1), (4623, 4096), (130, 64)])
    ranges = [None, "bytes=0-6", "bytes=1-9", "bytes=0-63", "bytes=0-127", "bytes=5-100", "bytes=2-", "bytes=-7", "bytes=0-0,5-9", "bytes=0-3,8-", "bytes=0-70,100-190", "bytes=999999-", "bytes=5-4", "junk"]
    for size, chunk in shapes:
        for rng in ranges:
            for method in ("GET", "HEAD"):
                for as_view in (False, True):
                    headers = [] if rng is None else [["Range", rng]]
                    yield {"response": {"kind": "file", "name": "f.txt", "size": size, "chunk": chunk}, "request": gw.areq(method=method, path="/", headers=headers), "as_view": as_view}


def run(rec, only=None):
    quick = rec.tier == "quick"
    core.drive_cases(rec, "filegrid", file_grid(quick), oracle_responses)
    rec.exhaustive["filegrid"] = True
    core.drive_hypothesis(rec, "echo", echo_case(), oracle_echo, 1500 if quick else 40000)
    core.drive_hypothesis(rec, "responses", response_case(), oracle_responses, 1000 if quick else 25000, seed_offset=1)
    core.drive_hypothesis(rec, "apps", app_case(), oracle_apps, 1200 if quick else 30000, seed_offset=2)
    core.drive_hypothesis(rec, "conditional", conditional_case(), oracle_conditional, 500 if quick else 12000, seed_offset=3)
    for k in SUBS:
        rec.exhaustive[k] = False
