"""C06 - Streaming responses always terminate and release the producer."""
from __future__ import annotations

import asyncio

import time

from hypothesis import strategies as st

import baize.asgi as A
import baize.wsgi as W

from baize.concurrency import run_in_threadpool

from harness import core, gateways as gw, vtime, wsched, x_c06
from harness.core import Result
from harness.recipes import ProducerError

LEVEL = "fault_enumeration"
RULES = {
    "asgi": "Hypothesis on a virtual-time event loop: StreamResponse / SendEventResponse (bare and inside request_response), producer "
    "of 0..6 items with per-item delays, send delay (up to 1.5 s, i.e. also slower than the ping), ping interval and disconnect instant all "
    "drawn from a 0.25 grid (ties included), optional producer exception at step k, send() swallowing or raising after the disconnect; in a "
    "third of the cases one or two of: producer object without aclose, cleanup code that awaits, an event without fields, the server "
    "cancelling the call instead of a disconnect; in a fifth of the cases one kind of write (k-th data chunk, first / every ping chunk, closing message, "
    "response start) takes up to 3.25 s longer; non-trivial = a disconnect or cancellation strictly inside the stream, a producer exception, or an "
    "undisturbed event stream in which a send outlasts the ping interval",
    "asgi_grid": "exhaustive: every disconnect instant on the 0.25 grid from 0 to the end of a fixed 4-item scenario x {stream, sse} x "
    "{send swallows, send raises} x {producer fast, slow, raising}",
    "wsgi_sse": "exhaustive (shortest first): every feasible schedule over {P producer step, C consume, c consume issued while nothing "
    "is available (consumer waits inside the response until the next producer step), X close, E producer raises, F producer finishes} up to length n against baize.wsgi.SendEventResponse with a gated generator, consumer thread and watchdog; "
    "a server-side close is appended when the schedule has none; non-trivial = a close/exception before the stream was consumed",
    "wsgi_sse_ping": "the same with a 10 ms ping interval so that keep-alive comments interleave (C with nothing available returns a ping), "
    "plus schedules in which the consumer stalls for five ping intervals (S) while the producer is ahead",
    "wsgi_sse_long": "Hypothesis: schedules up to length 12",
    "wsgi_stream": "exhaustive: WSGI StreamResponse with producers of 0..4 items, raising/finishing at every step, closed by the server after every k items",
    "wsgi_sse_cleanup": "every schedule again with a producer whose cleanup code (finally) takes 50 ms, against the 30 s ping interval",
    "wsgi_pool": "9/10/12 blocked event streams saturate the shared relay pool; one more is opened, consumed 0/1/3 items and closed",
    "wsgi_sources": "exhaustive: WSGI SendEventResponse / StreamResponse (bare and returned from a request_response view) over producers that are "
    "not generators (list, tuple, plain iterator - no close()) and over generators (finishing or raising at the end), 0..4 items, an event "
    "without any field at every position, consumed completely or closed by the server after every k chunks; free-running producers under a "
    "10 s watchdog (confirmed with 30 s); plus a StreamResponse producer that never ends (cut off by the harness after 3000 steps) closed "
    "after 0/1/3 chunks: reaching the cut-off means an endless producer would never have been released",
    "wsgi_latency": "wall-clock: close() of a WSGI event stream must come back with the producer's next step (+ the producer's own cleanup "
    "time of 0 / 50 / 200 ms + 0.5 s tolerance) at ping intervals 30 s / 3 s / 0.5 s, with the producer mid-step or ahead of the client; a "
    "late measurement is repeated three times and only counts if all four are late",
    "asgi_requests": "exhaustive grid: ten request shapes (Expect: 100-continue, Connection, Last-Event-ID, Content-Length / chunked bodies whose messages arrive "
    "before the disconnect, HEAD / OPTIONS / PUT) x response kinds x disconnect / cancellation instants; non-trivial = a disconnect before the producer's end",
    "asgi_blanks": "exhaustive grid: byte and event streams whose producer continues with empty items (b'' chunks, events without fields) from step k on, "
    "disconnect / cancellation at every quarter second: empty items are producer steps like any other; non-trivial = a disconnect inside the empty tail",
    "asgi_sources": "exhaustive grid: the producer is an AsyncIterable object without aclose() (not a generator), or the event stream "
    "contains an event without any field at position 0/2/3; x 4 response kinds x 4 delay patterns x send delay x disconnect instants x "
    "send swallows/raises",
    "asgi_cleanup": "the asgi_grid scenarios (4 kinds) with a producer whose finally awaits 0.75 virtual seconds (thorough: also 0.25, 2.0), plus a coarser grid with 5 s of cleanup (disconnect and cancellation): "
    "bounds are extended by exactly that time, no task may be left (event streams: after the producer's own cleanup time has passed)",
    "asgi_cancel": "exhaustive grid: instead of a disconnect the server cancels the application task at every instant of the 0.25 grid "
    "(4 kinds x 5 delay patterns incl. raising producers x send delay 0/0.25/0.5 x cleanup 0/0.5 x generator / plain iterator): the call "
    "ends (CancelledError, a normal return or the producer's own exception) within the same bounds, the producer is closed once, no task is left",
    "asgi_slow_sends": "exhaustive grid of runs WITHOUT any disconnect, cancellation or producer failure in which writes take 0.5 / 1 / 1.5 / 2.5 / 3.25 "
    "ping intervals (ping 1.0 / 0.5): every message, or only the k-th event, the first / every keep-alive chunk, the closing message, or one event on "
    "top of a uniformly slow client; producer ahead of / below the ping but step + write above it / tied with the ping timer / behind (pings between "
    "events) / irregular / in step with the client; event streams (bare and in a view) and byte streams as control. The call must return normally - a "
    "CancelledError / TimeoutError that nobody injected is not the producer's own exception -, every event arrives once and in order, the producer ran "
    "to its end and is closed once, no task is left; non-trivial = an event stream's fault-free run in which at least one send outlasts the ping interval",
    "asgi_slow_client": "exhaustive grid: the client needs 0.75 / 1.5 / 2.5 s per event with ping intervals 0.5 / 1.0 (send slower than "
    "ping) and the producer ahead; nothing may be lost without a disconnect",
    "asgi_threads": "exhaustive grid on a thread-aware virtual-time loop (harness/x_c06.py): the producer's steps await baize's own run_in_threadpool "
    "around a blocking function owned by the harness (real worker thread; the harness opens its gate at a virtual instant, or not before the "
    "verdict was taken = a blocking call that does not return); 8 step patterns (plain asyncio.sleep control, first / later / every step blocks, "
    "blocking functions that return at once, one that raises, first / later call never returns) x 4 response kinds x send delay x disconnect "
    "(send swallows / raises) or server cancellation at every quarter second; after the call has ended and ten loop turns the producer must be "
    "closed once and no task left - while the worker is still blocked; every gate is opened and every worker joined before the next case; "
    "non-trivial = the client left / the server cancelled while a worker thread was inside the blocking function",
    "asgi_threads_h": "Hypothesis over the same class: 0..5 items, per-step delay and sleep / worker-thread choice, optional never-returning call "
    "(event streams), ping interval, send delay, producer exception (raised inside the worker thread), cleanup code that awaits, producer object "
    "without aclose, disconnect / cancellation instant",
    "asgi_endless": "a producer that never ends and never waits (3000 steps without delay stand for it), client reading at 0.25 / 0.5 s per "
    "chunk and leaving / the server cancelling at 0, 0.5, 1, 3: a producer driven to the cut-off means the call would never have returned",
}
ASSUMPTIONS = [
    "the schedule is owned at the granularity of producer step / consumer step / close; interleavings inside a queue hand-off are "
    "left to CPython's scheduler",
    "ASGI runs use asyncio's FIFO ready-queue semantics on a deterministic virtual-time loop",
    "when the harness makes send() raise after the disconnect the call may end with that injected OSError",
    "a hang is a watchdog expiry of 5 s (normal latency < 50 ms), confirmed by a second run with a 20 s watchdog",
    "an ASGI server 'closes the response' by cancelling the application task; a call that ends with CancelledError, returns or raises "
    "the producer's own exception within the bound has terminated; a CancelledError out of a call that the harness did not cancel is an "
    "exception like any other that is not the producer's own (reported, not a harness event)",
    "a producer may be any (Async)Iterable: objects without close()/aclose() are judged on termination and delivery only; an event "
    "without fields is a legitimate event and does not end the stream",
    "cleanup code that awaits is run to its end by an awaited aclose(); for ASGI event streams (relay task cancelled, not awaited) the "
    "'cleanup already scheduled on the event loop' is given the producer's own cleanup time before tasks are counted",
    "wsgi_latency tolerates 0.5 s of scheduling noise and needs four late measurements in a row before it reports",
    "asgi_threads: a blocking function running in a worker thread cannot be interrupted, so the worker itself may stay blocked in the user's "
    "function (it is not counted as a leaked pool thread); what must not wait for it is the producer's closing and the response's own tasks. "
    "A byte-stream call may wait for the step in progress: its bound runs from the instant the blocking function returns. Real time is only a "
    "10 s budget on the two thread hand-offs (worker entered the function / worker's completion queued on the loop); an exhausted budget makes "
    "the case inconclusive (label, no verdict)",
]

EPS = 1e-9


# ------------------------------------------------------------------------------------------
# ASGI on virtual time


def oracle_asgi(case) -> Result:
    r = Result()
    kind = case["kind"]
    n = case["items"]
    delays = case["delays"]
    D = case.get("disconnect_at")
    raise_at = case.get("raise_at")
    send_delay = case.get("send_delay", 0.0)
    ping = case.get("ping", 1.0)
    info = {"entered": 0, "finalized": 0, "steps": [], "yielded": [], "tasks_left": [], "finalized_at": None}

    source = case.get("source", "gen")  # "gen": async generator; "iter": async iterator object without aclose()
    cleanup = float(case.get("cleanup") or 0.0)  # virtual seconds the producer's cleanup code (its finally) awaits
    blank_at = case.get("blank_at")  # (event streams) item k is an event without any field
    blank_from = case.get("blank_from")  # every item from step k on is empty: b"" for byte streams, {} for event streams

    def is_blank(i):
        return (i == blank_at and "sse" in kind) or (blank_from is not None and i >= blank_from)
    cancel_at = case.get("cancel_at")  # the server cancels the application task at this instant (no disconnect)
    # individual sends that take longer (back-pressure on one write): {"at": k | "ping" | "ping0" | "final" | "start", "delay": x}
    # = the k-th data chunk / every keep-alive chunk / the first keep-alive chunk / the closing message / the response start
    # needs x virtual seconds more than send_delay
    slow = case.get("slow")
    slow_delay = float(slow["delay"]) if slow else 0.0
    sd_max = send_delay + slow_delay
    info["slowed"] = []  # (what, begin, end) of the sends the extra time was applied to
    info["completed"] = False
    info["cleanup_done"] = 0
    # steps whose wait is a blocking function run through baize's run_in_threadpool (a real worker thread, released by
    # the harness delays[i] virtual seconds after the step began); `stuck`: that step's blocking function does not
    # return while the case lasts
    threads = set(case.get("threads") or ())
    stuck = case.get("stuck")
    threaded = "threads" in case or stuck is not None
    info["gates"] = []
    info["natural_ends"] = []

    async def step(i):
        """One producer step; returns the item, or None at the end of the stream."""
        loop = asyncio.get_running_loop()
        begin = loop.time()
        st_ = [begin, None]
        info["steps"].append(st_)
        d = delays[i] if i < len(delays) else 0
        if i in threads or i == stuck:
            # the documented way for an async producer to call blocking code
            gate = x_c06.Gate(loop, exc=ProducerError(f"producer raised at step {i}") if i == raise_at else None)
            info["gates"].append(gate)
            if i != stuck:
                loop.call_later(d, loop.release, gate)
                # a blocking function cannot be interrupted: this is when the step ends, whoever still waits for it
                info["natural_ends"].append(begin + d)
            loop.announce(gate)
            try:
                await run_in_threadpool(gate.block)
            except Exception:
                st_[1] = loop.time()  # the blocking function raised: that is the end of this step
                raise
            finally:
                loop.announced = None
        elif d:
            await asyncio.sleep(d)
        st_[1] = loop.time()
        if raise_at is not None and i == raise_at:
            raise ProducerError(f"producer raised at step {i}")
        if i == n:
            info["completed"] = True
            return None
        if "sse" in kind:
            item = {} if is_blank(i) else {"data": f"item-{i}", "id": str(i)}
        else:
            item = b"" if is_blank(i) else b"item-%d;" % i
        if not is_blank(i):
            info["yielded"].append(i)
        return item

    async def gen_producer():
        loop = asyncio.get_running_loop()
        info["entered"] += 1
        try:
            for i in range(n + 1):
                item = await step(i)
                if item is None:
                    return
                yield item
        finally:
            info["finalized"] += 1
            info["finalized_at"] = loop.time()
            if cleanup:
                await asyncio.sleep(cleanup)
                info["cleanup_done"] += 1

    class IterProducer:
        """A legitimate AsyncIterable that is not a generator: no aclose(), no cleanup code."""

        def __init__(self):
            self.i = 0
            self.over = False

        def __aiter__(self):
            return self

        async def __anext__(self):
            if self.over:
                raise StopAsyncIteration
            i = self.i
            self.i += 1
            try:
                item = await step(i)
            except ProducerError:
                self.over = True
                raise
            if item is None:
                self.over = True
                raise StopAsyncIteration
            return item

    def producer():
        return IterProducer() if source == "iter" else gen_producer()

    def make_response():
        if "sse" in kind:
            return A.SendEventResponse(producer(), ping_interval=ping)
        return A.StreamResponse(producer())

    async def main():
        if kind.endswith("-view"):

            @A.request_response
            async def app(request):
                return make_response()

        else:
            app = make_response()
        if slow:
            app = _slow_sends(app, slow, info)
        box = {}

        def on_send(run_, _msg):
            box["run"] = run_

        call = asyncio.ensure_future(
            gw.run_asgi(
                app,
                gw.make_scope(gw.areq(method=case.get("method", "GET"), headers=[list(h) for h in case.get("headers", [])])),
                body=[bytes(b) for b in case.get("body", [])] or None,
                disconnect_at=D,
                send_raises_after_disconnect=case.get("send_raises", False),
                send_delay=send_delay,
                on_send=on_send,
            )
        )
        loop = asyncio.get_running_loop()
        if cancel_at is not None:
            # the server gives up on the application task (shutdown, its own timeout, a lost connection)
            def _cancel():
                if not call.done():
                    info["cancelled_at"] = loop.time()
                    call.cancel()

            loop.call_later(cancel_at, _cancel)
        try:
            run = await call
        except asyncio.CancelledError as exc:
            if info.get("cancelled_at") is None:
                if not call.done():
                    raise  # this (harness) task is being torn down, the call is still running
                # the call ended with CancelledError although neither the client nor the server did anything to it:
                # that is an exception of the response's own making (a timer of its own fired into the call)
                run = box.get("run") or gw.AsgiRun()
                run.exc = exc
                run.returned_at = loop.time()
                info["self_cancelled"] = True
            else:
                run = box.get("run") or gw.AsgiRun()
                run.exc = None
                run.returned_at = loop.time()
                info["call_cancelled"] = True
        for _ in range(10):
            await asyncio.sleep(0)
        if cleanup and "sse" in kind:
            # an event stream's relay task is cancelled, not awaited: the producer's own cleanup code is the "cleanup
            # already scheduled on the event loop"; give it the time the producer itself asked for
            await asyncio.sleep(cleanup + 0.125)
            for _ in range(10):
                await asyncio.sleep(0)
        cur = asyncio.current_task()
        info["tasks_left"] = [repr(t) for t in asyncio.all_tasks() if t is not cur and not t.done()]
        # snapshot now: the harness's own loop shutdown (shutdown_asyncgens) would close a leaked producer
        info["snap"] = (info["entered"], info["finalized"])
        return run

    ctx = f"{case!r}"
    try:
        run, _loop = x_c06.run_threads(main, workers=n + 3) if threaded else vtime.run_virtual(main)
    except vtime.Hang as exc:
        r.fail(f"C06:asgi:{kind}:hang", f"{ctx}: {exc}; producer steps {info['steps']!r}")
        _classify_asgi(r, case, None)
        return r
    if threaded and _loop.inconclusive:
        # a thread hand-off ran out of its real-time budget (loaded machine): the interleaving that was asked for did
        # not take place, so nothing is concluded from this run
        r.label("inconclusive-thread-handoff")
        return r
    R = run.returned_at
    # (a) outcome
    if run.exc is not None:
        allowed = False
        if isinstance(run.exc, ProducerError) and raise_at is not None:
            allowed = True
        if isinstance(run.exc, OSError) and case.get("send_raises") and run.disconnected:
            allowed = True
        if not allowed:
            extra = " although nobody cancelled it and the client was still connected" if info.get("self_cancelled") and not run.disconnected else ""
            r.fail(f"C06:asgi:{kind}:raised:{type(run.exc).__name__}", f"{ctx}: call raised {run.exc!r}{extra}; {len(run.chunks)} chunks delivered, {len(info['yielded'])} items yielded")
    elif raise_at is not None and raise_at <= n and (D is None or D > sum(delays[: raise_at + 1]) + (raise_at + 2) * send_delay + EPS) and False:
        pass
    # protocol prefix
    if run.errors:
        r.fail(f"C06:asgi:{kind}:protocol:{run.errors[0][0]}", f"{ctx}: {run.errors[:3]!r}")
    # (b) return time, counted from the instant T at which the client went away or the server cancelled the call
    disconnected_mid = D is not None and run.disconnected_at is not None and R is not None and run.disconnected_at <= R
    C = info.get("cancelled_at")
    T = D if disconnected_mid else C
    if T is not None and R is not None:
        what = "disconnected" if disconnected_mid else "cancelled by the server"
        if "sse" in kind:
            # after the disconnect: the send in flight, at most one wait of one ping interval, the send of
            # what that wait produced and the final body event (send time is the server's, not the app's);
            # a cancelled call additionally runs the producer's cleanup code on its way out
            bound = T + ping + 3 * sd_max + (cleanup if C is not None else 0.0)
            if R > bound + EPS:
                r.fail(f"C06:asgi:{kind}:late-return", f"{ctx}: {what} at {T}, call returned at {R} > T + ping + 3*send_delay (+ cleanup) = {bound}")
        else:
            after = [s for s in info["steps"] if s[0] > T + EPS]
            if len(after) > 1:
                r.fail(f"C06:asgi:{kind}:steps-after-disconnect", f"{ctx}: {len(after)} producer steps began after the call was {what} at {T}: {info['steps'][:12]!r}")
            ends = [s[1] for s in info["steps"] if s[1] is not None] + info["natural_ends"]
            bound = max([T] + ends) + 2 * sd_max + cleanup
            if R > bound + EPS:
                r.fail(f"C06:asgi:{kind}:late-return", f"{ctx}: {what} at {T}, call returned at {R}, bound {bound}; steps {info['steps'][:12]!r}")
    if case.get("endless") and T is not None and info["completed"]:
        # the producer stands for one that never ends (it never waits either): only the harness's cut-off stopped it
        r.fail(
            f"C06:asgi:{kind}:runaway-producer",
            f"{ctx}: the producer was driven through all of its {n} steps (the harness's cut-off for an endless producer) although the call was "
            f"{'disconnected' if disconnected_mid else 'cancelled'} at {T}; {len(run.chunks)} chunks had been delivered",
        )
    # (c) cleanup
    entered, finalized = info["snap"]
    if entered > 1:
        r.fail(f"C06:asgi:{kind}:producer-entered-twice", ctx)
    if finalized != entered:
        r.fail(
            f"C06:asgi:{kind}:producer-cleanup-count",
            f"{ctx}: producer try entered {entered}x, finally ran {finalized}x after the call returned (+10 loop turns)",
        )
    if info["tasks_left"]:
        r.fail(f"C06:asgi:{kind}:task-left", f"{ctx}: pending tasks after the call: {info['tasks_left'][:3]!r}")
    # (d) delivery
    if "sse" in kind:
        got = []
        for c in run.chunks:
            if c.startswith(b": ping") or c == b"":
                continue
            if (blank_at is not None or blank_from is not None) and c.strip(b"\r\n") == b"":
                continue  # the event without fields: a bare event terminator, dispatches nothing
            text = c.decode()
            ids = [ln[4:] for ln in text.split("\n") if ln.startswith("id: ")]
            datas = [ln[6:] for ln in text.split("\n") if ln.startswith("data: ")]
            if len(ids) != 1 or datas != [f"item-{ids[0]}"]:
                r.fail(f"C06:asgi:{kind}:garbled-event", f"{ctx}: chunk {c!r}")
                continue
            got.append(int(ids[0]))
    else:
        body = b"".join(run.chunks)
        got = [int(x[5:]) for x in body.decode().split(";") if x]
    if got != info["yielded"][: len(got)]:
        r.fail(f"C06:asgi:{kind}:delivery-order", f"{ctx}: delivered {got!r}, yielded {info['yielded']!r}")
    undisturbed = D is None and C is None and run.exc is None
    if undisturbed and got != info["yielded"]:
        r.fail(f"C06:asgi:{kind}:lost-items", f"{ctx}: delivered {got!r}, yielded {info['yielded']!r} without any disconnect")
    if undisturbed and not run.complete:
        r.fail(f"C06:asgi:{kind}:incomplete", f"{ctx}: no final body event")
    if undisturbed and raise_at is None and not info["completed"]:
        # nobody left and nothing failed, yet the producer was stopped before it had finished: whatever it still had to say is lost
        r.fail(f"C06:asgi:{kind}:producer-cut-short", f"{ctx}: the call returned at {R} without a disconnect, but the producer was closed before its end; delivered {got!r}")
    _classify_asgi(r, case, run, info)
    r.note = {"returned_at": R, "delivered": got, "finalized_at": info["finalized_at"], "call_cancelled": bool(info.get("call_cancelled"))}
    return r


def _slow_sends(app, slow, info):
    """The same application behind a client that accepts some messages slowly: the selected sends take slow["delay"]
    virtual seconds longer (see oracle_asgi for the selectors)."""
    at, extra = slow["at"], float(slow["delay"])

    async def wrapped(scope, receive, send):
        seen = {"data": 0, "ping": 0}

        async def slow_send(message):
            what = None
            if message.get("type") == "http.response.start":
                what = "start"
            elif message.get("type") == "http.response.body":
                body = message.get("body", b"")
                if not message.get("more_body", False):
                    what = "final"
                elif body.startswith(b": ping"):
                    what = "ping0" if seen["ping"] == 0 else "ping"
                    seen["ping"] += 1
                else:
                    what = seen["data"]
                    seen["data"] += 1
            if what == at or (at == "ping" and what == "ping0"):
                loop = asyncio.get_running_loop()
                span = [what, loop.time(), None]
                info["slowed"].append(span)
                await asyncio.sleep(extra)
                await send(message)
                span[2] = loop.time()
            else:
                await send(message)

        await app(scope, receive, slow_send)

    return wrapped


def _classify_asgi(r, case, run, info=None):
    D = case.get("disconnect_at")
    total = sum(case["delays"]) + 0.0
    slow = case.get("slow")
    slow_delay = float(slow["delay"]) if slow else 0.0
    inside = D is not None and 0 < D < total + case.get("send_delay", 0) * (case["items"] + 1) + slow_delay + EPS
    r.nontrivial = bool(inside or case.get("raise_at") is not None)
    r.label(f"kind={case['kind']}")
    if D is None:
        r.label("no-disconnect")
    elif inside:
        r.label("disconnect-inside")
    else:
        r.label("disconnect-outside")
    if case.get("raise_at") is not None:
        r.label("producer-raises")
    if case.get("send_raises"):
        r.label("send-raises")
    if D is not None and any(abs(D - t) < EPS for t in _cum(case["delays"])):
        r.label("tie-with-producer-step")
    if case.get("cancel_at") is not None:
        r.label("server-cancels-call")
        if 0 < case["cancel_at"] < total + case.get("send_delay", 0) * (case["items"] + 1) + slow_delay + EPS:
            r.nontrivial = True
    if case.get("source", "gen") != "gen":
        r.label(f"source={case['source']}")
    if case.get("cleanup"):
        r.label("slow-producer-cleanup")
    if case.get("blank_at") is not None:
        r.label("event-without-fields")
    if case.get("endless"):
        r.label("endless-producer")
    if case.get("send_delay", 0) > case.get("ping", 1.0):
        r.label("client-slower-than-ping")
    if slow:
        r.label("one-kind-of-send-slow", f"slow-send-at={slow['at'] if isinstance(slow['at'], str) else 'data-chunk'}")
    # sends that took longer than the ping interval: every one (send_delay) or the selected ones that did take place
    spans = [sp for sp in (info or {}).get("slowed", []) if sp[2] is not None]
    outlasts = case.get("send_delay", 0) > case.get("ping", 1.0) + EPS or any(sp[2] - sp[1] > case.get("ping", 1.0) + EPS for sp in spans)
    fault_free = D is None and case.get("cancel_at") is None and case.get("raise_at") is None and case.get("stuck") is None
    if outlasts:
        r.label("send-outlasts-ping-interval")
        if fault_free:
            r.label("fault-free-send-outlasts-ping-interval" if "sse" in case["kind"] else "fault-free-slow-send-byte-stream-control")
            if "sse" in case["kind"] and "threads" not in case:
                # a run nobody disturbs in which the keep-alive timer expires while an event is being written
                r.nontrivial = True
        if any(sp[0] in ("ping", "ping0") and sp[2] - sp[1] > case.get("ping", 1.0) + EPS for sp in spans):
            r.label("slow-send-of-a-ping-chunk")
    if slow and not (info or {}).get("slowed"):
        r.label("selected-send-did-not-occur")
    if "threads" in case or case.get("stuck") is not None:
        # non-trivial here: the client left / the server cancelled while a worker thread was inside the blocking function
        gates = (info or {}).get("gates", [])
        T = run.disconnected_at if run is not None and run.disconnected_at is not None else (info or {}).get("cancelled_at")
        blocked = T is not None and any(g.entered.is_set() and g.begin <= T + EPS and (g.released_at is None or g.released_at > T + EPS) for g in gates)
        r.nontrivial = bool(blocked)
        if not gates:
            r.label("control-no-blocking-call")
        else:
            r.label("producer-in-threadpool", "worker-blocked-at-disconnect" if blocked else ("blocking-calls-returned-before-disconnect" if T is not None else "blocking-calls-undisturbed"))
            if blocked:
                first = min(i for i in list(case.get("threads") or ()) + ([case["stuck"]] if case.get("stuck") is not None else []))
                k = next(j for j, g in enumerate(gates) if g.begin <= T + EPS and (g.released_at is None or g.released_at > T + EPS))
                r.label("blocked-in-first-blocking-call" if k == 0 else "blocked-in-later-blocking-call", "blocked-in-step-0" if first == 0 and k == 0 else "blocked-in-later-step")
        if case.get("stuck") is not None:
            r.label("blocking-call-never-returns")


def _cum(xs):
    out, s = [], 0.0
    for x in xs:
        s += x
        out.append(s)
    return out


# ------------------------------------------------------------------------------------------
# WSGI SendEventResponse under owned schedules


def run_sched(schedule, ping_mode, cleanup=0.0):
    out = wsched.run_schedule(schedule, ping_interval=0.01 if ping_mode else 30.0, watchdog=5.0, cleanup_sleep=cleanup)
    if out.hang is not None:
        # a loaded machine must not fabricate a violation: confirm with a long watchdog
        out2 = wsched.run_schedule(schedule, ping_interval=0.01 if ping_mode else 30.0, watchdog=20.0, cleanup_sleep=cleanup)
        if out2.hang is None:
            return out2, True
        return out2, False
    return out, False


def oracle_wsgi_sse(case) -> Result:
    r = Result()
    schedule = case["schedule"]
    ping_mode = bool(case.get("ping"))
    if not wsched.feasible(schedule, ping_mode):
        raise core.HarnessError(f"infeasible schedule {schedule!r}")
    cleanup = float(case.get("cleanup") or 0.0)
    out, retried = run_sched(schedule, ping_mode, cleanup)
    ctx = f"schedule {schedule!r}{' (ping class)' if ping_mode else ''}{f' (producer cleanup takes {cleanup}s)' if cleanup else ''}"
    if retried:
        r.label("watchdog-retry")
    if out.hang is not None:
        r.fail("C06:wsgi-sse:hang", f"{ctx}: {out.hang}; yielded {len(out.yielded)} delivered {len(out.delivered)} producer finally ran {out.finalized}x")
    if out.entered > 1:
        r.fail("C06:wsgi-sse:producer-entered-twice", ctx)
    if out.finalized != out.entered:
        r.fail("C06:wsgi-sse:producer-cleanup-count", f"{ctx}: generator try entered {out.entered}x, finally ran {out.finalized}x")
    if out.undone_futures:
        r.fail("C06:wsgi-sse:pool-thread-busy", f"{ctx}: {out.undone_futures} relay future(s) still running after the response was closed")
    for i, item in enumerate(out.delivered):
        want = f"id: {i}\ndata: event-{i}\n\n".encode()
        if item != want:
            r.fail("C06:wsgi-sse:delivery-order", f"{ctx}: delivered item #{i} is {item!r}, expected {want!r}")
            break
    if len(out.delivered) > len(out.yielded):
        r.fail("C06:wsgi-sse:delivery-invented", f"{ctx}: {len(out.delivered)} delivered, {len(out.yielded)} yielded")
    has_e = "E" in schedule
    for what, exc in (("close", out.close_exc), ("next", out.next_exc)):
        if exc is not None and not (has_e and isinstance(exc, ProducerError)):
            r.fail(f"C06:wsgi-sse:{what}-raised:{type(exc).__name__}", f"{ctx}: {what}() raised {exc!r}")
    if not ping_mode and out.pings:
        r.fail("C06:wsgi-sse:unexpected-ping", f"{ctx}: {out.pings} ping(s) with a 30 s interval")
    # complete consumption without close: nothing lost
    if "X" not in schedule and out.stopped and "E" not in schedule and len(out.delivered) != len(out.yielded):
        r.fail("C06:wsgi-sse:lost-items", f"{ctx}: stream consumed to its end, delivered {len(out.delivered)} of {len(out.yielded)}")
    p, c = schedule.count("P"), schedule.count("C")
    xi = schedule.find("X")
    r.nontrivial = ("X" in schedule and xi > 0) or has_e
    r.label(f"len={len(schedule)}")
    if "X" in schedule:
        before = schedule[:xi]
        ahead = before.count("P") - min(before.count("C"), before.count("P"))
        r.label(f"close-with-producer-ahead-by-{ahead}", "close-before-first-next" if "C" not in before else "close-mid-stream")
        post = schedule[xi + 1:]
        r.label("then-" + ({"P": "yields", "E": "raises", "F": "finishes"}.get(post, "nothing")))
    if has_e:
        r.label("producer-raises")
    if out.pings:
        r.label("pings-seen")
    if cleanup:
        r.label("slow-producer-cleanup")
    r.key = (schedule, ping_mode, cleanup)
    _ = (p, c)
    return r


# ------------------------------------------------------------------------------------------
# WSGI StreamResponse (no relay thread: the producer runs inside next())


def oracle_wsgi_stream(case) -> Result:
    r = Result()
    n, end, close_after = case["items"], case["end"], case["close_after"]
    info = {"entered": 0, "finalized": 0, "yielded": 0}

    def producer():
        info["entered"] += 1
        try:
            for i in range(n):
                info["yielded"] += 1
                yield b"item-%d;" % i
            if end == "raise":
                raise ProducerError("producer raised at the end")
        finally:
            info["finalized"] += 1

    resp = W.StreamResponse(producer())
    run = gw.run_wsgi(resp, gw.make_environ(gw.areq()), close_after=close_after)
    ctx = f"{case!r}"
    if run.exc is not None and not (isinstance(run.exc, ProducerError) and end == "raise"):
        r.fail(f"C06:wsgi-stream:raised:{type(run.exc).__name__}", f"{ctx}: {run.exc!r}")
    if run.errors:
        r.fail(f"C06:wsgi-stream:protocol:{run.errors[0][0]}", f"{ctx}: {run.errors!r}")
    if info["finalized"] != info["entered"] or info["entered"] > 1:
        r.fail("C06:wsgi-stream:producer-cleanup-count", f"{ctx}: try entered {info['entered']}x, finally ran {info['finalized']}x")
    got = [x for x in run.body.decode().split(";") if x]
    if got != [f"item-{i}" for i in range(len(got))]:
        r.fail("C06:wsgi-stream:delivery-order", f"{ctx}: {got!r}")
    if close_after is None and end != "raise" and len(got) != n:
        r.fail("C06:wsgi-stream:lost-items", f"{ctx}: {len(got)} of {n}")
    r.nontrivial = (close_after is not None and 0 < close_after < n) or end == "raise"
    r.label(f"end={end}", "closed-early" if close_after is not None else "consumed")
    return r


# ------------------------------------------------------------------------------------------
# WSGI event streams sharing the relay pool: a stream whose relay job never got a pool thread


def oracle_wsgi_pool(case) -> Result:
    """`busy` event streams are open and their producers blocked (each holds one thread of the relay
    pool shared by all event-stream responses).  One more stream is opened, consumed for `consume`
    items (it can only see keep-alive pings while its relay job waits for a thread) and closed by the
    server: the close must return although its producer never ran, the other streams must be
    unaffected, and after everything is released and closed no relay future may be left running."""
    import threading

    r = Result()
    busy, consume = case["busy"], case["consume"]
    ctx = f"{case!r}"
    release = threading.Event()
    stats = {"entered": 0, "finalized": 0}
    lock = threading.Lock()

    def blocker(tag):
        with lock:
            stats["entered"] += 1
        try:
            yield {"data": f"{tag}-first"}
            release.wait(30)
            yield {"data": f"{tag}-last"}
        finally:
            with lock:
                stats["finalized"] += 1

    late = {"entered": 0, "finalized": 0}

    def late_producer():
        late["entered"] += 1
        try:
            yield {"data": "late"}
        finally:
            late["finalized"] += 1

    env = gw.make_environ(gw.areq())
    others = []
    try:
        for i in range(busy):
            it = iter(W.SendEventResponse(blocker(f"s{i}"), ping_interval=0.02)(dict(env), lambda *a, **k: None))
            if i < 10:
                kind, val = _with_watchdog(lambda it=it: _next_data(it), 10.0)
                if kind != "ok" or val != f"data: s{i}-first\n\n".encode():
                    r.fail("C06:wsgi-pool:setup", f"{ctx}: stream {i} of the busy set gave {kind} {val!r}")
            else:
                # beyond the pool size the stream is itself waiting for a thread: it can only see pings
                _with_watchdog(lambda it=it: next(it), 10.0)
            others.append(it)
        it = iter(W.SendEventResponse(late_producer(), ping_interval=0.02)(dict(env), lambda *a, **k: None))
        got = []
        for _ in range(consume):
            kind, val = _with_watchdog(lambda: next(it), 10.0)
            got.append((kind, val))
            if kind == "hang":
                r.fail("C06:wsgi-pool:next-hang", f"{ctx}: next() on the late stream did not return within 10 s")
                break
        kind, val = _with_watchdog(it.close, 5.0)
        if kind == "hang":
            kind2, _ = _with_watchdog(lambda: (release.set(), time.sleep(0))[1], 1.0)
            r.fail("C06:wsgi-pool:close-hang", f"{ctx}: close() of a stream whose relay job was still waiting for a pool thread did not return within 5 s (items seen before: {got!r})")
        elif kind == "exc":
            r.fail(f"C06:wsgi-pool:close-raised:{type(val).__name__}", f"{ctx}: {val!r}")
    finally:
        release.set()
        for o in others:
            kind, val = _with_watchdog(o.close, 10.0)
            if kind == "hang":
                r.fail("C06:wsgi-pool:other-close-hang", f"{ctx}: closing a busy stream after its producer was released did not return within 10 s")
    deadline = time.monotonic() + 10
    while time.monotonic() < deadline and stats["finalized"] != stats["entered"]:
        time.sleep(0.01)
    if stats["finalized"] != stats["entered"]:
        r.fail("C06:wsgi-pool:producer-cleanup-count", f"{ctx}: busy producers entered {stats['entered']}x, cleaned up {stats['finalized']}x")
    if late["finalized"] != late["entered"]:
        r.fail("C06:wsgi-pool:late-producer-cleanup", f"{ctx}: late producer entered {late['entered']}x, cleaned up {late['finalized']}x")
    r.nontrivial = busy >= 10
    r.label(f"busy={busy}", f"consume={consume}")
    return r


# ------------------------------------------------------------------------------------------
# WSGI responses over producers that are not generators, events without fields, responses returned from a view


def _recording_pool():
    from baize.concurrency import ThreadPoolExecutor

    futures = []

    class Pool(ThreadPoolExecutor):
        def submit(self, *a, **kw):  # type: ignore[no-untyped-def]
            f = super().submit(*a, **kw)
            futures.append(f)
            return f

    return Pool(max_workers=2, thread_name_prefix="verif_c06_"), futures


def _sources_once(case, timeout):
    n, blank_at, end = case["items"], case.get("blank_at"), case.get("end", "finish")
    sse = case["resp"] == "sse"
    info = {"entered": 0, "finalized": 0, "made": 0}

    def item(i):
        if sse:
            return {} if i == blank_at else {"id": str(i), "data": f"event-{i}"}
        return b"item-%d;" % i

    def gen():
        info["entered"] += 1
        try:
            for i in range(n):
                info["made"] += 1
                yield item(i)
            if end == "raise":
                raise ProducerError("producer raised at the end")
        finally:
            info["finalized"] += 1

    src = case["source"]
    items = [item(i) for i in range(n)]
    iterable = {"list": lambda: items, "tuple": lambda: tuple(items), "iter": lambda: iter(items), "gen": gen}[src]()
    pool, futures = _recording_pool()
    if sse:
        cls = type("SSE", (W.SendEventResponse,), {"thread_pool": pool})
        resp = cls(iterable, ping_interval=30.0)
    else:
        resp = W.StreamResponse(iterable)
    app = resp
    if case.get("view"):

        @W.request_response
        def app(request):
            return resp

    kind, run = _with_watchdog(lambda: gw.run_wsgi(app, gw.make_environ(gw.areq()), close_after=case["close_after"]), timeout)
    deadline = time.monotonic() + (2.0 if kind != "hang" else 0.2)
    while time.monotonic() < deadline and any(not f.done() for f in futures):
        time.sleep(0.005)
    undone = sum(1 for f in futures if not f.done())
    pool.shutdown(wait=False)
    return kind, run, undone, dict(info)


_EVENT_RE = None
_HANG_CONFIRMED = []
_SOURCE_HANGS = []
_LATENCY_HANGS = []


def oracle_wsgi_sources(case) -> Result:
    import re

    global _EVENT_RE
    if _EVENT_RE is None:
        _EVENT_RE = re.compile(rb"id: (\d+)\ndata: event-(\d+)\n\n")
    r = Result()
    ctx = f"{case!r}"
    n, blank_at, end, close_after = case["items"], case.get("blank_at"), case.get("end", "finish"), case["close_after"]
    sse = case["resp"] == "sse"
    kind, run, undone, info = _sources_once(case, 3.0 if _HANG_CONFIRMED else 10.0)
    if kind == "hang" and not _HANG_CONFIRMED:
        # a loaded machine must not fabricate a violation: confirm with a long watchdog (once a hang has been
        # confirmed in this run the verdict stands; later expiries only add cases to the same bucket, cheaply)
        kind, run, undone, info = _sources_once(case, 30.0)
        r.label("watchdog-retry")
        if kind == "hang":
            _HANG_CONFIRMED.append(True)
    tag = f"C06:wsgi-src:{case['resp']}"
    if kind == "hang":
        _SOURCE_HANGS.append(1)
        r.fail(f"{tag}:hang", f"{ctx}: the server's iteration / close() did not come back within 30 s (producer made {info['made']} items)")
        return r
    if kind == "exc":
        raise core.HarnessError(f"gateway raised {run!r}")
    if run.exc is not None and not (isinstance(run.exc, ProducerError) and end == "raise"):
        r.fail(f"{tag}:raised:{type(run.exc).__name__}", f"{ctx}: {run.exc!r}")
    if run.errors:
        r.fail(f"{tag}:protocol:{run.errors[0][0]}", f"{ctx}: {run.errors[:3]!r}")
    # what the server must have received: the first `close_after` chunks (all of them when it never closes early)
    taken = n if close_after is None else min(close_after, n)
    expected = [i for i in range(taken) if not (sse and i == blank_at)]
    body = run.body
    if sse:
        got = []
        for m in _EVENT_RE.finditer(body):
            if m.group(1) != m.group(2):
                r.fail(f"{tag}:garbled-event", f"{ctx}: {m.group(0)!r}")
            got.append(int(m.group(1)))
        rest = _EVENT_RE.sub(b"", body).replace(b": ping\n\n", b"")
        if rest.strip(b"\n"):
            r.fail(f"{tag}:garbled-event", f"{ctx}: unexpected bytes in the stream: {rest[:80]!r}")
    else:
        got = [int(x[5:]) for x in body.decode().split(";") if x]
    if got != expected[: len(got)]:
        r.fail(f"{tag}:delivery-order", f"{ctx}: delivered {got!r}, the producer's items are {expected!r}")
    elif got != expected and run.exc is None:
        r.fail(f"{tag}:lost-items", f"{ctx}: the server took {'everything' if close_after is None else f'{close_after} chunks'}: delivered {got!r}, expected {expected!r}")
    if info["entered"] > 1 or info["finalized"] != info["entered"]:
        r.fail(f"{tag}:producer-cleanup-count", f"{ctx}: generator try entered {info['entered']}x, finally ran {info['finalized']}x")
    if case.get("endless") and info["made"] >= n:
        # the producer stands for one that never ends: only the harness's cut-off stopped it
        r.fail(f"{tag}:runaway-producer", f"{ctx}: the producer was driven through all of its {n} steps (the harness's cut-off for an endless producer) although the server closed the response after {close_after} chunks")
    if undone:
        r.fail(f"{tag}:pool-thread-busy", f"{ctx}: {undone} relay future(s) still running 2 s after the response was closed")
    r.nontrivial = case["source"] != "gen" or blank_at is not None or bool(case.get("view"))
    r.label(f"resp={case['resp']}", f"source={case['source']}", "closed-early" if close_after is not None and close_after < n else "consumed")
    if blank_at is not None:
        r.label("event-without-fields")
    if case.get("view"):
        r.label("returned-from-view")
    if case.get("endless"):
        r.label("endless-producer")
    return r


def _until_hangs(cases, counter, limit):
    """Cost control for a tree that dead-locks: every hanging case costs a watchdog period and leaves a stuck thread
    behind; once `limit` hangs are on record the verdict cannot change any more and the enumeration stops."""
    for case in cases:
        if len(counter) >= limit:
            return
        yield case


def wsgi_sources_cases():
    yield from _until_hangs(_wsgi_sources_cases(), _SOURCE_HANGS, 3)


def _wsgi_sources_cases():
    for resp in ("sse", "stream"):
        for source in ("list", "tuple", "iter", "gen"):
            for view in (False, True):
                for n in (0, 1, 3, 4):
                    for close_after in [None] + list(range(0, n + 2)):
                        if view and source in ("tuple",):
                            continue
                        yield {"resp": resp, "source": source, "items": n, "close_after": close_after, "view": view}
                        if source == "gen":
                            yield {"resp": resp, "source": source, "items": n, "close_after": close_after, "view": view, "end": "raise"}
    # a producer that never ends (cut off by the harness after ENDLESS_CUTOFF steps), closed by the server early; only
    # for StreamResponse, whose producer runs inside next() (how far an event stream's relay thread runs ahead of a
    # slow client is not fixed by the statement)
    for view in (False, True):
        for close_after in (0, 1, 3):
            yield {"resp": "stream", "source": "gen", "items": ENDLESS_CUTOFF, "close_after": close_after, "view": view, "endless": True}
    for source in ("list", "gen", "iter"):
        for n, blank_at in ((1, 0), (3, 0), (3, 1), (3, 2), (4, 2)):
            for close_after in [None] + list(range(0, n + 1)):
                yield {"resp": "sse", "source": source, "items": n, "close_after": close_after, "view": False, "blank_at": blank_at}


# ------------------------------------------------------------------------------------------
# WSGI event stream: how long after the producer's step does close() come back


LATENCY_SLACK = 0.5  # seconds of scheduling tolerance on top of the producer's own cleanup time


def _latency_once(ping, cleanup, ahead):
    import threading

    gate, at_gate = threading.Event(), threading.Event()
    stats = {"entered": 0, "finalized": 0}

    def ev(i):
        return {"id": str(i), "data": f"event-{i}"}

    def producer():
        stats["entered"] += 1
        try:
            yield ev(0)
            if ahead:
                yield ev(1)  # waits in the queue
                yield ev(2)  # the relay thread blocks handing this one over
            at_gate.set()
            gate.wait(30)
            yield ev(3)
            gate.wait(30)
            yield ev(4)
        finally:
            if cleanup:
                time.sleep(cleanup)
            stats["finalized"] += 1

    pool, futures = _recording_pool()
    cls = type("SSE", (W.SendEventResponse,), {"thread_pool": pool})
    it = iter(cls(producer(), ping_interval=ping)(gw.make_environ(gw.areq()), lambda *a, **k: None))
    out = {"latency": None, "hang": None, "exc": None}
    try:
        kind, first = _with_watchdog(lambda: _next_data(it), 10.0)
        if kind != "ok" or first != b"id: 0\ndata: event-0\n\n":
            out["hang"] = f"first next() gave {kind} {first!r}"
            return out, stats, 0
        if ahead:
            time.sleep(0.05)  # settle: the relay is now blocked in put() with one event queued
        elif not at_gate.wait(5):
            out["hang"] = "the producer did not come back for its second step"
            return out, stats, 0
        box = {}

        def closer():
            box["t0"] = time.monotonic()
            try:
                it.close()
            except BaseException as exc:  # noqa: BLE001
                box["exc"] = exc
            box["t1"] = time.monotonic()

        t = threading.Thread(target=closer, daemon=True)
        t.start()
        if ahead:
            t0 = None
        else:
            time.sleep(0.05)  # settle: close() is now waiting for the relay, which waits for the producer
            t0 = time.monotonic()
            gate.set()  # the producer's next step
        t.join(10.0)
        if t.is_alive():
            out["hang"] = "close() did not return within 10 s of the producer's next step"
        else:
            out["latency"] = box["t1"] - (t0 if t0 is not None else box["t0"])
            out["exc"] = box.get("exc")
    finally:
        gate.set()
    deadline = time.monotonic() + 2.0
    while time.monotonic() < deadline and any(not f.done() for f in futures):
        time.sleep(0.005)
    undone = sum(1 for f in futures if not f.done())
    pool.shutdown(wait=False)
    return out, stats, undone


def oracle_wsgi_latency(case) -> Result:
    """close() has to come back with the producer's next step (plus the producer's own cleanup time), whatever the ping
    interval.  Wall-clock: a measurement above the tolerance is repeated (4 runs in all) and only counts when every run
    is late, so that a loaded machine alone cannot produce a violation."""
    r = Result()
    ping, cleanup, ahead = case["ping"], case["cleanup"], case["ahead"]
    ctx = f"{case!r}"
    bound = cleanup + LATENCY_SLACK
    seen = []
    first = None
    for attempt in range(4):
        out, stats, undone = _latency_once(ping, cleanup, ahead)
        if first is None:
            first = (out, stats, undone)
        if out["hang"] is not None:
            break
        seen.append(round(out["latency"], 3))
        if out["latency"] <= bound:
            break
    out, stats, undone = first
    if out["hang"] is not None:
        _LATENCY_HANGS.append(1)
        r.fail("C06:wsgi-latency:hang", f"{ctx}: {out['hang']}")
        return r
    if attempt:
        r.label("latency-retry")
    if min(seen) > bound:
        r.fail(
            "C06:wsgi-latency:late-close",
            f"{ctx}: close() came back {seen!r} s after {'it was called (no producer step was needed)' if ahead else 'the producer took its next step'} in "
            f"{len(seen)} runs out of {len(seen)}; the producer's cleanup takes {cleanup} s, tolerance {LATENCY_SLACK} s",
        )
    if out["exc"] is not None:
        r.fail(f"C06:wsgi-latency:close-raised:{type(out['exc']).__name__}", f"{ctx}: {out['exc']!r}")
    if stats["entered"] != 1 or stats["finalized"] != 1:
        r.fail("C06:wsgi-latency:producer-cleanup-count", f"{ctx}: generator try entered {stats['entered']}x, finally ran {stats['finalized']}x")
    if undone:
        r.fail("C06:wsgi-latency:pool-thread-busy", f"{ctx}: {undone} relay future(s) still running 2 s after close() returned")
    r.nontrivial = True
    r.label(f"ping={ping}", f"cleanup={cleanup}", "producer-ahead" if ahead else "producer-mid-step")
    return r


def wsgi_latency_cases():
    yield from _until_hangs(_wsgi_latency_cases(), _LATENCY_HANGS, 2)


def _wsgi_latency_cases():
    for ping in (30.0, 3.0, 0.5):
        for cleanup in (0.0, 0.05, 0.2):
            for ahead in (False, True):
                yield {"ping": ping, "cleanup": cleanup, "ahead": ahead}


def _next_data(it):
    while True:
        item = next(it)
        if not item.startswith(b": ping"):
            return item


def _with_watchdog(fn, timeout):
    import threading

    box = {}

    def target():
        try:
            box["v"] = fn()
        except BaseException as exc:  # noqa: BLE001
            box["e"] = exc

    t = threading.Thread(target=target, daemon=True)
    t.start()
    t.join(timeout)
    if t.is_alive():
        return "hang", None
    if "e" in box:
        return "exc", box["e"]
    return "ok", box.get("v")


SUBS = {
    "wsgi_pool": oracle_wsgi_pool,
    "asgi": oracle_asgi,
    "asgi_grid": oracle_asgi,
    "asgi_sources": oracle_asgi,
    "asgi_blanks": oracle_asgi,
    "asgi_requests": oracle_asgi,
    "asgi_cleanup": oracle_asgi,
    "asgi_cancel": oracle_asgi,
    "asgi_slow_client": oracle_asgi,
    "asgi_endless": oracle_asgi,
    "asgi_slow_sends": oracle_asgi,
    "asgi_threads": oracle_asgi,
    "asgi_threads_h": oracle_asgi,
    "wsgi_sse": oracle_wsgi_sse,
    "wsgi_sse_ping": oracle_wsgi_sse,
    "wsgi_sse_long": oracle_wsgi_sse,
    "wsgi_sse_cleanup": oracle_wsgi_sse,
    "wsgi_stream": oracle_wsgi_stream,
    "wsgi_sources": oracle_wsgi_sources,
    "wsgi_latency": oracle_wsgi_latency,
}

# ------------------------------------------------------------------------------------------

_grid = st.sampled_from([0, 0, 0.25, 0.5, 0.75, 1.0, 1.5, 2.0, 3.0])


@st.composite
def asgi_case(draw):
    n = draw(st.integers(0, 6))
    delays = [draw(_grid) for _ in range(n + 1)]
    total = sum(delays)
    kind = draw(st.sampled_from(["stream", "sse", "sse", "stream-view", "sse-view"]))
    d_choice = draw(st.integers(0, 9))
    if d_choice <= 1:
        D = None
    else:
        D = draw(st.sampled_from([0.0, 0.25, 0.5, 0.75, 1.0, 1.25, 1.5, 2.0, 2.5, 3.0, 4.0, 6.0, total, max(total - 0.25, 0), total + 0.25, total / 2]))
        D = round(D * 4) / 4
    case = {
        "kind": kind,
        "items": n,
        "delays": delays,
        "send_delay": draw(st.sampled_from([0, 0, 0.25, 0.5, 0.5, 0.75, 1.5])),
        "ping": draw(st.sampled_from([0.5, 1.0, 1.0, 3.0])),
        "disconnect_at": D,
        "raise_at": draw(st.one_of(st.none(), st.none(), st.integers(0, n))),
        "send_raises": draw(st.booleans()),
    }
    # less common but legitimate: a producer object that is not a generator, cleanup code that takes time, an event
    # without fields, the server cancelling the call instead of a disconnect
    extra = draw(st.integers(0, 11))
    if extra in (0, 1):
        case["source"] = "iter"
    if extra in (2, 3, 4):
        case["cleanup"] = draw(st.sampled_from([0.25, 0.5, 1.0, 2.5]))
    if extra in (4, 5) and "sse" in kind and n:
        case["blank_at"] = draw(st.integers(0, n - 1))
    if n and draw(st.integers(0, 5)) == 0:
        case["blank_from"] = draw(st.integers(0, n - 1))
    if extra in (1, 3, 6, 7) and D is not None:
        case["cancel_at"], case["disconnect_at"] = D, None
        case["send_raises"] = False
    if draw(st.integers(0, 4)) == 0:
        # back-pressure on individual writes: one data chunk, the keep-alive chunks or the closing message take longer
        case["slow"] = {"at": draw(st.sampled_from([0, 1, 2, 4, "ping0", "ping", "final", "start"])), "delay": draw(st.sampled_from([0.25, 0.5, 0.75, 1.25, 1.5, 2.5, 3.25]))}
    return case


def asgi_grid():
    for kind in ("stream", "sse"):
        for delays, raise_at in (([0, 0, 0, 0, 0], None), ([0.5, 0.5, 0.5, 0.5, 0.5], None), ([0.5, 1.5, 0, 2.0, 0.25], None), ([0.5, 0.5, 0.5, 0.5, 0.5], 2)):
            total = sum(delays)
            for send_raises in (False, True):
                for send_delay in (0, 0.25):
                    d = 0.0
                    while d <= total + 1.5:
                        yield {"kind": kind, "items": 4, "delays": delays, "send_delay": send_delay, "ping": 1.0, "disconnect_at": d,
                               "raise_at": raise_at, "send_raises": send_raises}
                        d += 0.25


_PATTERNS = (([0, 0, 0, 0, 0], None), ([0.5, 0.5, 0.5, 0.5, 0.5], None), ([0.5, 1.5, 0, 2.0, 0.25], None), ([0.5, 0.5, 0.5, 0.5, 0.5], 2), ([0, 0.25, 0, 0, 0], 1))


def _base(kind, delays, raise_at, **kw):
    case = {"kind": kind, "items": 4, "delays": list(delays), "send_delay": 0, "ping": 1.0, "disconnect_at": None, "raise_at": raise_at, "send_raises": False}
    case.update(kw)
    return case


def asgi_sources_cases():
    """Producers that are not generators (an AsyncIterable object without aclose) and event streams that contain an
    event without any field, with and without a disconnect."""
    for kind in ("stream", "sse", "stream-view", "sse-view"):
        for delays, raise_at in _PATTERNS[:4]:
            for send_delay in (0, 0.25):
                for D in (None, 0.0, 0.75, 1.25, 6.0):
                    for send_raises in ((False, True) if D is not None else (False,)):
                        yield _base(kind, delays, raise_at, send_delay=send_delay, disconnect_at=D, send_raises=send_raises, source="iter")
        if "sse" in kind:
            for source in ("gen", "iter"):
                for blank_at in (0, 2, 3):
                    for delays in ([0, 0, 0, 0, 0], [0.5, 0.5, 0.5, 0.5, 0.5], [0, 0, 1.5, 0, 0]):
                        for D in (None, 1.25):
                            yield _base(kind, delays, None, send_delay=0.25, disconnect_at=D, source=source, blank_at=blank_at)


def asgi_blank_cases():
    """Producers that go on with EMPTY items (b"" chunks of an idle compressor / heartbeat, events without fields): each
    empty item is a producer step like any other - after the disconnect at most one more may begin."""
    for kind in ("stream", "sse", "stream-view", "sse-view"):
        for n, blank_from in ((6, 1), (6, 2), (8, 3), (12, 1)):
            for delay in (0.5, 0.25, 0):
                delays = [delay] * (n + 1)
                for send_delay in (0, 0.25):
                    for D in (None, 0.0, 0.25, 0.5, 0.75, 1.0, 1.25, 1.75, 2.5):
                        if delay == 0 and D not in (None, 0.0):
                            continue
                        yield _base(kind, delays, None, items=n, send_delay=send_delay, disconnect_at=D, blank_from=blank_from)
                for cancel_at in (0.75, 1.25):
                    if delay:
                        yield _base(kind, delays, None, items=n, cancel_at=cancel_at, blank_from=blank_from)


REQUEST_SHAPES = [
    {"headers": [["Expect", "100-continue"]]},
    {"headers": [["expect", "100-Continue"], ["Content-Length", "3"]], "method": "POST", "body": [b"abc"]},
    {"headers": [["Accept", "text/event-stream"], ["Last-Event-ID", "3"], ["Cache-Control", "no-cache"]]},
    {"headers": [["Connection", "close"]]},
    {"headers": [["Connection", "keep-alive, Upgrade"], ["Upgrade", "websocket"]]},
    {"headers": [["Content-Length", "0"]], "method": "POST"},
    {"headers": [["Content-Length", "6"]], "method": "POST", "body": [b"abc", b"def"]},
    {"headers": [["Transfer-Encoding", "chunked"]], "method": "PUT", "body": [b"x", b"", b"y"]},
    {"headers": [["Range", "bytes=0-1"]], "method": "HEAD"},
    {"headers": [["TE", "trailers"], ["Priority", "u=1"]], "method": "OPTIONS"},
]


def asgi_request_cases():
    """What the request looks like must not matter for termination: request headers a response might look at (Expect, Connection,
    Last-Event-ID ...), other methods, request bodies whose messages arrive before the disconnect."""
    for shape in REQUEST_SHAPES:
        for kind in ("stream", "sse", "stream-view", "sse-view"):
            for delays in ([0.5] * 7, [0, 0, 0, 0, 0, 0, 0]):
                for D in (None, 0.0, 0.75, 1.25, 2.25) if delays[0] else (None, 0.0):
                    yield _base(kind, delays, None, items=6, disconnect_at=D, **shape)
            yield _base(kind, [0.5] * 7, None, items=6, cancel_at=1.25, **shape)


def asgi_cleanup_cases(quick):
    """The producer's cleanup code (its finally) awaits: the call must take it in its stride - no task left behind."""
    for cleanup in ((0.75,) if quick else (0.75, 2.0, 0.25)):
        for kind in ("stream", "sse", "stream-view", "sse-view"):
            for delays, raise_at in _PATTERNS[:4]:
                total = sum(delays)
                for send_raises in (False, True):
                    for send_delay in (0, 0.25):
                        if kind.endswith("-view") and (send_raises or send_delay):
                            continue
                        yield _base(kind, delays, raise_at, send_delay=send_delay, cleanup=cleanup)
                        d = 0.0
                        while d <= total + 1.5:
                            yield _base(kind, delays, raise_at, send_delay=send_delay, disconnect_at=d, send_raises=send_raises, cleanup=cleanup)
                            d += 0.25 if not quick or kind == "stream" or send_delay == 0 else 0.5


    # cleanup code that takes long (5 s): nothing in the response may put a deadline on it
    for kind in ("stream", "sse", "stream-view"):
        for delays, raise_at in _PATTERNS[:2] + _PATTERNS[3:4]:
            yield _base(kind, delays, raise_at, cleanup=5.0)
            d = 0.0
            while d <= sum(delays) + 1.0:
                yield _base(kind, delays, raise_at, disconnect_at=d, cleanup=5.0)
                yield _base(kind, delays, raise_at, cancel_at=d, cleanup=5.0)
                d += 0.5


def asgi_cancel_cases(quick):
    """The server cancels the application task (its way of closing an ASGI response) at every instant of the grid."""
    for kind in ("stream", "sse", "stream-view", "sse-view"):
        for delays, raise_at in _PATTERNS:
            total = sum(delays)
            for send_delay in (0, 0.25, 0.5):
                for cleanup in (0, 0.5):
                    for source in ("gen", "iter"):
                        if source == "iter" and (cleanup or kind.endswith("-view")):
                            continue
                        if quick and kind.endswith("-view") and (cleanup or send_delay == 0.25):
                            continue
                        c = 0.0
                        while c <= total + 5 * send_delay + 0.5:
                            yield _base(kind, delays, raise_at, send_delay=send_delay, cancel_at=c, cleanup=cleanup, source=source)
                            c += 0.25


def asgi_slow_client_cases():
    """The client takes longer than one ping interval to accept an event (send slower than ping) while the producer is
    ahead: nothing may be dropped, pings or not."""
    for kind in ("sse", "sse-view", "stream"):
        for ping in (0.5, 1.0):
            for send_delay in (0.75, 1.5, 2.5):
                for delays in ([0, 0, 0, 0, 0], [0.25, 0.25, 0.25, 0.25, 0.25], [0, 1.5, 0, 0, 2.0]):
                    for D in (None, 1.0, 2.25, 4.0, 7.0):
                        yield _base(kind, delays, None, send_delay=send_delay, ping=ping, disconnect_at=D)


def asgi_slow_send_cases():
    """Nobody disconnects, nobody cancels, the producer does not fail: only the client is slow - for every message, or for
    one write only (back-pressure on the k-th event, on a keep-alive chunk, on the closing message) - and that write
    takes 0.5 .. 3.25 ping intervals.  The producer is ahead of the client, in step with it, behind it (pings in between)
    or irregular.  Byte streams (no ping timer) are the control."""
    factors = (0.5, 1.0, 1.5, 2.5, 3.25)
    for kind in ("sse", "sse-view", "stream"):
        for ping in (1.0, 0.5):
            # producer step in units of the ping interval: ahead / below the ping but step + write above it / tie with the
            # ping timer / behind (keep-alive chunks between the events) / irregular
            for steps in ([0] * 5, [0.75] * 5, [1.0] * 5, [2.25] * 5, [0, 1.5, 0, 0.5, 2.5]):
                delays = [x * ping for x in steps]
                for f in factors:
                    x = f * ping
                    yield _base(kind, delays, None, ping=ping, send_delay=x)
                    for at in (0, 1, 3, "ping0", "ping", "final"):
                        if "sse" not in kind and at in ("ping0", "ping"):
                            continue
                        if kind == "sse-view" and at in (1, "final"):
                            continue
                        yield _base(kind, delays, None, ping=ping, slow={"at": at, "delay": x})
                    # a client that is a little slow all the time and very slow once
                    yield _base(kind, delays, None, ping=ping, send_delay=0.25 * ping, slow={"at": 2, "delay": x})
    # in step: the producer's step is the client's write time
    for kind in ("sse", "stream"):
        for ping in (1.0, 0.5):
            for f in factors:
                yield _base(kind, [f * ping] * 5, None, ping=ping, send_delay=f * ping)
                yield _base(kind, [f * ping] * 7, None, items=6, ping=ping, slow={"at": 4, "delay": f * ping})


ENDLESS_CUTOFF = 3000


def asgi_endless_cases():
    """A producer that never ends and never waits (`while True: yield event`, the example of the class docstring),
    represented by ENDLESS_CUTOFF steps without any delay; the client reads at its own pace and leaves early."""
    for kind in ("sse", "sse-view", "stream"):
        for send_delay in (0.25, 0.5):
            for t in (0.0, 0.5, 1.0, 3.0):
                yield {"kind": kind, "items": ENDLESS_CUTOFF, "delays": [], "send_delay": send_delay, "ping": 1.0, "disconnect_at": t,
                       "raise_at": None, "send_raises": False, "endless": True}
                yield {"kind": kind, "items": ENDLESS_CUTOFF, "delays": [], "send_delay": send_delay, "ping": 1.0, "disconnect_at": None,
                       "raise_at": None, "send_raises": False, "endless": True, "cancel_at": t}


_THREAD_PATTERNS = (
    # delays of the 4 steps (3 items + the producer's last bit), steps that block in a worker thread, stuck step, raising step
    ([0.5, 0.5, 0.5, 0.5], [], None, None),  # control: plain `await asyncio.sleep`, same loop
    ([0.75, 0.5, 0.5, 0.5], [0], None, None),  # the first step blocks
    ([0.5, 0.5, 1.5, 0.5], [2], None, None),  # a later step blocks
    ([0.5, 0.5, 0.5, 0.5], [0, 1, 2, 3], None, None),  # every step blocks
    ([0, 0, 0, 0], [0, 1, 2, 3], None, None),  # every blocking function returns at once
    ([0.5, 0.5, 0.5, 0.5], [1, 2], None, 2),  # the blocking function of step 2 raises
    ([0, 0.5, 0.5, 0.5], [], 0, None),  # the first blocking call does not return
    ([0.5, 0.25, 0, 0.5], [1], 2, None),  # a later one does not return (an earlier one did)
)


def asgi_thread_cases(quick):
    """Producers whose steps await baize's run_in_threadpool around a blocking function owned by the harness, on the
    thread-aware virtual loop: disconnect / cancellation at every instant of the grid."""
    for delays, threads, stuck, raise_at in _THREAD_PATTERNS:
        for kind in ("sse", "stream", "sse-view", "stream-view"):
            for send_delay in (0, 0.25):
                if kind.endswith("-view") and send_delay and quick:
                    continue
                horizon = (2.5 if stuck is not None else sum(delays) + 1.0) + 4 * send_delay
                instants = [None] + [0.25 * k for k in range(int(horizon * 4) + 1)]
                for how in ("disconnect", "disconnect-send-raises", "cancel"):
                    if how == "disconnect-send-raises" and (send_delay or kind.endswith("-view")):
                        continue
                    for t in instants:
                        if t is None and (how != "disconnect" or stuck is not None):
                            continue
                        if stuck is not None and "sse" not in kind:
                            # a byte-stream call may wait for the producer's next step, and this one never ends: no bound applies
                            continue
                        case = _base(kind, delays, raise_at, items=3, send_delay=send_delay, threads=list(threads))
                        if stuck is not None:
                            case["stuck"] = stuck
                        if how == "cancel":
                            case["cancel_at"] = t
                        else:
                            case["disconnect_at"] = t
                            case["send_raises"] = how == "disconnect-send-raises"
                        yield case


@st.composite
def asgi_thread_case(draw):
    n = draw(st.integers(0, 5))
    delays = [draw(_grid) for _ in range(n + 1)]
    kind = draw(st.sampled_from(["sse", "sse", "sse-view", "stream", "stream-view"]))
    threads = [i for i in range(n + 1) if draw(st.integers(0, 2)) > 0]
    how = draw(st.sampled_from(["disconnect", "disconnect", "disconnect", "cancel", "none"]))
    stuck = None
    if how != "none" and "sse" in kind and draw(st.integers(0, 2)) == 0:
        stuck = draw(st.integers(0, n))
        delays[stuck] = 0
        threads = [i for i in threads if i != stuck]
    total = sum(delays[: stuck] if stuck is not None else delays)
    t = None
    if how != "none":
        t = draw(st.sampled_from([0.0, 0.25, 0.5, 0.75, 1.0, 1.25, 1.5, 2.0, 2.5, 3.0, 4.0, total, max(total - 0.25, 0), total + 0.25, total / 2, total + 1.0]))
        t = round(t * 4) / 4
    case = {
        "kind": kind,
        "items": n,
        "delays": delays,
        "send_delay": draw(st.sampled_from([0, 0, 0.25, 0.5, 1.5])),
        "ping": draw(st.sampled_from([0.5, 1.0, 1.0, 3.0])),
        "disconnect_at": t if how == "disconnect" else None,
        "raise_at": draw(st.one_of(st.none(), st.none(), st.none(), st.integers(0, n))),
        "send_raises": draw(st.booleans()) if how == "disconnect" else False,
        "threads": threads,
    }
    if stuck is not None:
        case["stuck"] = stuck
    if how == "cancel":
        case["cancel_at"] = t
    extra = draw(st.integers(0, 7))
    if extra == 0:
        case["source"] = "iter"
    if extra in (1, 2):
        case["cleanup"] = draw(st.sampled_from([0.25, 0.5, 1.0]))
    return case


def wsgi_stream_cases():
    for n in range(0, 5):
        for end in ("finish", "raise"):
            for close_after in [None] + list(range(0, n + 2)):
                yield {"items": n, "end": end, "close_after": close_after}


@st.composite
def long_schedule(draw):
    # build a feasible schedule incrementally
    s = ""
    for _ in range(draw(st.integers(5, 12))):
        opts = [x for x in "PPCCXEFcc" if wsched.feasible(s + x) or (x == "c" and any(wsched.feasible(s + x + y) for y in "PEF"))]
        if not opts:
            break
        s += draw(st.sampled_from(opts))
        if "X" in s and s[-1] != "X":
            break
    if s.endswith("c"):
        s += draw(st.sampled_from("PEF"))
    if not s:
        s = "P"
    return {"schedule": s}


def run(rec, only=None):
    quick = rec.tier == "quick"
    core.drive_cases(rec, "wsgi_stream", wsgi_stream_cases(), oracle_wsgi_stream)
    rec.exhaustive["wsgi_stream"] = True
    core.drive_cases(rec, "wsgi_sse", ({"schedule": s} for s in wsched.enumerate_schedules(5 if quick else 7)), oracle_wsgi_sse)
    rec.exhaustive["wsgi_sse"] = True
    stalls = ["PPSCCFC", "PPSCFCC", "PSCPPSCCFC", "PPSCCX", "PPSX", "cPPSCFC", "PPSCPSCFCC", "PSPSCCFC", "PPCSCFC", "SPPSCCFC"]
    ping_scheds = list(wsched.enumerate_schedules(3 if quick else 4, True)) + [s for s in stalls if wsched.feasible(s, True)]
    core.drive_cases(rec, "wsgi_sse_ping", ({"schedule": s, "ping": True} for s in ping_scheds), oracle_wsgi_sse)
    rec.exhaustive["wsgi_sse_ping"] = True
    # the user's cleanup code (the generator's finally) takes 50 ms: the close must still return with the producer's
    # step, not a ping interval (30 s here) later
    core.drive_cases(rec, "wsgi_sse_cleanup", ({"schedule": s, "cleanup": 0.05} for s in wsched.enumerate_schedules(4 if quick else 6) if "X" in s or "C" in s), oracle_wsgi_sse)
    rec.exhaustive["wsgi_sse_cleanup"] = True
    core.drive_cases(rec, "wsgi_pool", ({"busy": b, "consume": c} for b in (0, 9, 10, 12) for c in (0, 1, 3)), oracle_wsgi_pool)
    rec.exhaustive["wsgi_pool"] = True
    core.drive_cases(rec, "wsgi_sources", wsgi_sources_cases(), oracle_wsgi_sources)
    rec.exhaustive["wsgi_sources"] = len(_SOURCE_HANGS) < 3
    core.drive_cases(rec, "wsgi_latency", wsgi_latency_cases(), oracle_wsgi_latency)
    rec.exhaustive["wsgi_latency"] = len(_LATENCY_HANGS) < 2
    grid = list(asgi_grid())
    core.drive_cases(rec, "asgi_grid", grid, oracle_asgi)
    rec.exhaustive["asgi_grid"] = True
    for sub, cases in (("asgi_requests", asgi_request_cases()), ("asgi_blanks", asgi_blank_cases()), ("asgi_sources", asgi_sources_cases()), ("asgi_cleanup", asgi_cleanup_cases(quick)), ("asgi_cancel", asgi_cancel_cases(quick)),
                       ("asgi_slow_client", asgi_slow_client_cases()), ("asgi_slow_sends", asgi_slow_send_cases()), ("asgi_endless", asgi_endless_cases()), ("asgi_threads", asgi_thread_cases(quick))):
        core.drive_cases(rec, sub, cases, oracle_asgi)
        rec.exhaustive[sub] = True
    core.drive_hypothesis(rec, "asgi", asgi_case(), oracle_asgi, 1500 if quick else 500000)
    core.drive_hypothesis(rec, "wsgi_sse_long", long_schedule(), oracle_wsgi_sse, 150 if quick else 6400, seed_offset=1, shrink=False)
    core.drive_hypothesis(rec, "asgi_threads_h", asgi_thread_case(), oracle_asgi, 400 if quick else 40000, seed_offset=2)
    rec.exhaustive["asgi"] = rec.exhaustive["wsgi_sse_long"] = rec.exhaustive["asgi_threads_h"] = False
