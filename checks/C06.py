"""C06 - Streaming responses always terminate and release the producer."""
from __future__ import annotations

import asyncio

import time

from hypothesis import strategies as st

import baize.asgi as A
import baize.wsgi as W

from harness import core, gateways as gw, vtime, wsched
from harness.core import Result
from harness.recipes import ProducerError

LEVEL = "fault_enumeration"
RULES = {
    "asgi": "Hypothesis on a virtual-time event loop: StreamResponse / SendEventResponse (bare and inside request_response), producer "
    "of 0..6 items with per-item delays, send delay, ping interval and disconnect instant all drawn from a 0.25 grid (ties included), "
    "optional producer exception at step k, send() swallowing or raising after the disconnect; non-trivial = a disconnect strictly "
    "inside the stream, or a producer exception",
    "asgi_grid": "exhaustive: every disconnect instant on the 0.25 grid from 0 to the end of a fixed 4-item scenario x {stream, sse} x "
    "{send swallows, send raises} x {producer fast, slow, raising}",
    "wsgi_sse": "exhaustive (shortest first): every feasible schedule over {P producer step, C consume, c consume issued while nothing "
    "is available (consumer waits inside the response until the next producer step), X close, E producer raises, F producer finishes} up to length n against baize.wsgi.SendEventResponse with a gated generator, consumer thread and watchdog; "
    "a server-side close is appended when the schedule has none; non-trivial = a close/exception before the stream was consumed",
    "wsgi_sse_ping": "the same with a 10 ms ping interval so that keep-alive comments interleave (C with nothing available returns a ping), "
    "plus schedules in which the consumer stalls for five ping intervals (S) while the producer is ahead",
    "wsgi_sse_long": "Hypothesis: schedules up to length 12",
    "wsgi_stream": "exhaustive: WSGI StreamResponse with producers of 0..4 items, raising/finishing at every step, closed by the server after every k items",
}
ASSUMPTIONS = [
    "the schedule is owned at the granularity of producer step / consumer step / close; interleavings inside a queue hand-off are "
    "left to CPython's scheduler",
    "ASGI runs use asyncio's FIFO ready-queue semantics on a deterministic virtual-time loop",
    "when the harness makes send() raise after the disconnect the call may end with that injected OSError",
    "a hang is a watchdog expiry of 5 s (normal latency < 50 ms), confirmed by a second run with a 20 s watchdog",
]

EPS = 1e-9


# ------------------------------------------------------------------------------------------
# ASGI on virtual time


def oracle_asgi(case) -> Result:
    r = Result()
    kind = case["kind"]
    n = case["items"]
    delays = case["delays"]
    D = case.get("disconnect_at")
    raise_at = case.get("raise_at")
    send_delay = case.get("send_delay", 0.0)
    ping = case.get("ping", 1.0)
    info = {"entered": 0, "finalized": 0, "steps": [], "yielded": [], "tasks_left": [], "finalized_at": None}

    async def producer():
        loop = asyncio.get_running_loop()
        info["entered"] += 1
        try:
            for i in range(n + 1):
                begin = loop.time()
                step = [begin, None]
                info["steps"].append(step)
                d = delays[i] if i < len(delays) else 0
                if d:
                    await asyncio.sleep(d)
                step[1] = loop.time()
                if raise_at is not None and i == raise_at:
                    raise ProducerError(f"producer raised at step {i}")
                if i == n:
                    return
                item = {"data": f"item-{i}", "id": str(i)} if "sse" in kind else b"item-%d;" % i
                info["yielded"].append(i)
                yield item
        finally:
            info["finalized"] += 1
            info["finalized_at"] = loop.time()

    def make_response():
        if "sse" in kind:
            return A.SendEventResponse(producer(), ping_interval=ping)
        return A.StreamResponse(producer())

    async def main():
        if kind.endswith("-view"):

            @A.request_response
            async def app(request):
                return make_response()

        else:
            app = make_response()
        run = await gw.run_asgi(
            app,
            gw.make_scope(gw.areq()),
            disconnect_at=D,
            send_raises_after_disconnect=case.get("send_raises", False),
            send_delay=send_delay,
        )
        for _ in range(10):
            await asyncio.sleep(0)
        cur = asyncio.current_task()
        info["tasks_left"] = [repr(t) for t in asyncio.all_tasks() if t is not cur and not t.done()]
        # snapshot now: the harness's own loop shutdown (shutdown_asyncgens) would close a leaked producer
        info["snap"] = (info["entered"], info["finalized"])
        return run

    ctx = f"{case!r}"
    try:
        run, _loop = vtime.run_virtual(main)
    except vtime.Hang as exc:
        r.fail(f"C06:asgi:{kind}:hang", f"{ctx}: {exc}; producer steps {info['steps']!r}")
        _classify_asgi(r, case, None)
        return r
    R = run.returned_at
    # (a) outcome
    if run.exc is not None:
        allowed = False
        if isinstance(run.exc, ProducerError) and raise_at is not None:
            allowed = True
        if isinstance(run.exc, OSError) and case.get("send_raises") and run.disconnected:
            allowed = True
        if not allowed:
            r.fail(f"C06:asgi:{kind}:raised:{type(run.exc).__name__}", f"{ctx}: call raised {run.exc!r}")
    elif raise_at is not None and raise_at <= n and (D is None or D > sum(delays[: raise_at + 1]) + (raise_at + 2) * send_delay + EPS) and False:
        pass
    # protocol prefix
    if run.errors:
        r.fail(f"C06:asgi:{kind}:protocol:{run.errors[0][0]}", f"{ctx}: {run.errors[:3]!r}")
    # (b) return time
    disconnected_mid = D is not None and run.disconnected_at is not None and R is not None and run.disconnected_at <= R
    if disconnected_mid:
        if "sse" in kind:
            # after the disconnect: the send in flight, at most one wait of one ping interval, the send of
            # what that wait produced and the final body event (send time is the server's, not the app's)
            bound = D + ping + 3 * send_delay
            if R > bound + EPS:
                r.fail(f"C06:asgi:{kind}:late-return", f"{ctx}: disconnected at {D}, call returned at {R} > D + ping + 3*send_delay = {bound}")
        else:
            after = [s for s in info["steps"] if s[0] > D + EPS]
            if len(after) > 1:
                r.fail(f"C06:asgi:{kind}:steps-after-disconnect", f"{ctx}: {len(after)} producer steps began after the disconnect at {D}: {info['steps']!r}")
            ends = [s[1] for s in info["steps"] if s[1] is not None]
            bound = max([D] + ends) + 2 * send_delay
            if R > bound + EPS:
                r.fail(f"C06:asgi:{kind}:late-return", f"{ctx}: call returned at {R}, bound {bound}; steps {info['steps']!r}")
    # (c) cleanup
    entered, finalized = info["snap"]
    if entered > 1:
        r.fail(f"C06:asgi:{kind}:producer-entered-twice", ctx)
    if finalized != entered:
        r.fail(
            f"C06:asgi:{kind}:producer-cleanup-count",
            f"{ctx}: producer try entered {entered}x, finally ran {finalized}x after the call returned (+10 loop turns)",
        )
    if info["tasks_left"]:
        r.fail(f"C06:asgi:{kind}:task-left", f"{ctx}: pending tasks after the call: {info['tasks_left'][:3]!r}")
    # (d) delivery
    if "sse" in kind:
        got = []
        for c in run.chunks:
            if c.startswith(b": ping") or c == b"":
                continue
            text = c.decode()
            ids = [ln[4:] for ln in text.split("\n") if ln.startswith("id: ")]
            datas = [ln[6:] for ln in text.split("\n") if ln.startswith("data: ")]
            if len(ids) != 1 or datas != [f"item-{ids[0]}"]:
                r.fail(f"C06:asgi:{kind}:garbled-event", f"{ctx}: chunk {c!r}")
                continue
            got.append(int(ids[0]))
    else:
        body = b"".join(run.chunks)
        got = [int(x[5:]) for x in body.decode().split(";") if x]
    if got != info["yielded"][: len(got)]:
        r.fail(f"C06:asgi:{kind}:delivery-order", f"{ctx}: delivered {got!r}, yielded {info['yielded']!r}")
    if D is None and run.exc is None and got != info["yielded"]:
        r.fail(f"C06:asgi:{kind}:lost-items", f"{ctx}: delivered {got!r}, yielded {info['yielded']!r} without any disconnect")
    if D is None and run.exc is None and not run.complete:
        r.fail(f"C06:asgi:{kind}:incomplete", f"{ctx}: no final body event")
    _classify_asgi(r, case, run)
    r.note = {"returned_at": R, "delivered": got, "finalized_at": info["finalized_at"]}
    return r


def _classify_asgi(r, case, run):
    D = case.get("disconnect_at")
    total = sum(case["delays"]) + 0.0
    inside = D is not None and 0 < D < total + case.get("send_delay", 0) * (case["items"] + 1) + EPS
    r.nontrivial = bool(inside or case.get("raise_at") is not None)
    r.label(f"kind={case['kind']}")
    if D is None:
        r.label("no-disconnect")
    elif inside:
        r.label("disconnect-inside")
    else:
        r.label("disconnect-outside")
    if case.get("raise_at") is not None:
        r.label("producer-raises")
    if case.get("send_raises"):
        r.label("send-raises")
    if D is not None and any(abs(D - t) < EPS for t in _cum(case["delays"])):
        r.label("tie-with-producer-step")


def _cum(xs):
    out, s = [], 0.0
    for x in xs:
        s += x
        out.append(s)
    return out


# ------------------------------------------------------------------------------------------
# WSGI SendEventResponse under owned schedules


def run_sched(schedule, ping_mode, cleanup=0.0):
    out = wsched.run_schedule(schedule, ping_interval=0.01 if ping_mode else 30.0, watchdog=5.0, cleanup_sleep=cleanup)
    if out.hang is not None:
        # a loaded machine must not fabricate a violation: confirm with a long watchdog
        out2 = wsched.run_schedule(schedule, ping_interval=0.01 if ping_mode else 30.0, watchdog=20.0, cleanup_sleep=cleanup)
        if out2.hang is None:
            return out2, True
        return out2, False
    return out, False


def oracle_wsgi_sse(case) -> Result:
    r = Result()
    schedule = case["schedule"]
    ping_mode = bool(case.get("ping"))
    if not wsched.feasible(schedule, ping_mode):
        raise core.HarnessError(f"infeasible schedule {schedule!r}")
    cleanup = float(case.get("cleanup") or 0.0)
    out, retried = run_sched(schedule, ping_mode, cleanup)
    ctx = f"schedule {schedule!r}{' (ping class)' if ping_mode else ''}{f' (producer cleanup takes {cleanup}s)' if cleanup else ''}"
    if retried:
        r.label("watchdog-retry")
    if out.hang is not None:
        r.fail("C06:wsgi-sse:hang", f"{ctx}: {out.hang}; yielded {len(out.yielded)} delivered {len(out.delivered)} producer finally ran {out.finalized}x")
    if out.entered > 1:
        r.fail("C06:wsgi-sse:producer-entered-twice", ctx)
    if out.finalized != out.entered:
        r.fail("C06:wsgi-sse:producer-cleanup-count", f"{ctx}: generator try entered {out.entered}x, finally ran {out.finalized}x")
    if out.undone_futures:
        r.fail("C06:wsgi-sse:pool-thread-busy", f"{ctx}: {out.undone_futures} relay future(s) still running after the response was closed")
    for i, item in enumerate(out.delivered):
        want = f"id: {i}\ndata: event-{i}\n\n".encode()
        if item != want:
            r.fail("C06:wsgi-sse:delivery-order", f"{ctx}: delivered item #{i} is {item!r}, expected {want!r}")
            break
    if len(out.delivered) > len(out.yielded):
        r.fail("C06:wsgi-sse:delivery-invented", f"{ctx}: {len(out.delivered)} delivered, {len(out.yielded)} yielded")
    has_e = "E" in schedule
    for what, exc in (("close", out.close_exc), ("next", out.next_exc)):
        if exc is not None and not (has_e and isinstance(exc, ProducerError)):
            r.fail(f"C06:wsgi-sse:{what}-raised:{type(exc).__name__}", f"{ctx}: {what}() raised {exc!r}")
    if not ping_mode and out.pings:
        r.fail("C06:wsgi-sse:unexpected-ping", f"{ctx}: {out.pings} ping(s) with a 30 s interval")
    # complete consumption without close: nothing lost
    if "X" not in schedule and out.stopped and "E" not in schedule and len(out.delivered) != len(out.yielded):
        r.fail("C06:wsgi-sse:lost-items", f"{ctx}: stream consumed to its end, delivered {len(out.delivered)} of {len(out.yielded)}")
    p, c = schedule.count("P"), schedule.count("C")
    xi = schedule.find("X")
    r.nontrivial = ("X" in schedule and xi > 0) or has_e
    r.label(f"len={len(schedule)}")
    if "X" in schedule:
        before = schedule[:xi]
        ahead = before.count("P") - min(before.count("C"), before.count("P"))
        r.label(f"close-with-producer-ahead-by-{ahead}", "close-before-first-next" if "C" not in before else "close-mid-stream")
        post = schedule[xi + 1:]
        r.label("then-" + ({"P": "yields", "E": "raises", "F": "finishes"}.get(post, "nothing")))
    if has_e:
        r.label("producer-raises")
    if out.pings:
        r.label("pings-seen")
    if cleanup:
        r.label("slow-producer-cleanup")
    r.key = (schedule, ping_mode, cleanup)
    _ = (p, c)
    return r


# ------------------------------------------------------------------------------------------
# WSGI StreamResponse (no relay thread: the producer runs inside next())


def oracle_wsgi_stream(case) -> Result:
    r = Result()
    n, end, close_after = case["items"], case["end"], case["close_after"]
    info = {"entered": 0, "finalized": 0, "yielded": 0}

    def producer():
        info["entered"] += 1
        try:
            for i in range(n):
                info["yielded"] += 1
                yield b"item-%d;" % i
            if end == "raise":
                raise ProducerError("producer raised at the end")
        finally:
            info["finalized"] += 1

    resp = W.StreamResponse(producer())
    run = gw.run_wsgi(resp, gw.make_environ(gw.areq()), close_after=close_after)
    ctx = f"{case!r}"
    if run.exc is not None and not (isinstance(run.exc, ProducerError) and end == "raise"):
        r.fail(f"C06:wsgi-stream:raised:{type(run.exc).__name__}", f"{ctx}: {run.exc!r}")
    if run.errors:
        r.fail(f"C06:wsgi-stream:protocol:{run.errors[0][0]}", f"{ctx}: {run.errors!r}")
    if info["finalized"] != info["entered"] or info["entered"] > 1:
        r.fail("C06:wsgi-stream:producer-cleanup-count", f"{ctx}: try entered {info['entered']}x, finally ran {info['finalized']}x")
    got = [x for x in run.body.decode().split(";") if x]
    if got != [f"item-{i}" for i in range(len(got))]:
        r.fail("C06:wsgi-stream:delivery-order", f"{ctx}: {got!r}")
    if close_after is None and end != "raise" and len(got) != n:
        r.fail("C06:wsgi-stream:lost-items", f"{ctx}: {len(got)} of {n}")
    r.nontrivial = (close_after is not None and 0 < close_after < n) or end == "raise"
    r.label(f"end={end}", "closed-early" if close_after is not None else "consumed")
    return r


# ------------------------------------------------------------------------------------------
# WSGI event streams sharing the relay pool: a stream whose relay job never got a pool thread


def oracle_wsgi_pool(case) -> Result:
    """`busy` event streams are open and their producers blocked (each holds one thread of the relay
    pool shared by all event-stream responses).  One more stream is opened, consumed for `consume`
    items (it can only see keep-alive pings while its relay job waits for a thread) and closed by the
    server: the close must return although its producer never ran, the other streams must be
    unaffected, and after everything is released and closed no relay future may be left running."""
    import threading

    r = Result()
    busy, consume = case["busy"], case["consume"]
    ctx = f"{case!r}"
    release = threading.Event()
    stats = {"entered": 0, "finalized": 0}
    lock = threading.Lock()

    def blocker(tag):
        with lock:
            stats["entered"] += 1
        try:
            yield {"data": f"{tag}-first"}
            release.wait(30)
            yield {"data": f"{tag}-last"}
        finally:
            with lock:
                stats["finalized"] += 1

    late = {"entered": 0, "finalized": 0}

    def late_producer():
        late["entered"] += 1
        try:
            yield {"data": "late"}
        finally:
            late["finalized"] += 1

    env = gw.make_environ(gw.areq())
    others = []
    try:
        for i in range(busy):
            it = iter(W.SendEventResponse(blocker(f"s{i}"), ping_interval=0.02)(dict(env), lambda *a, **k: None))
            if i < 10:
                kind, val = _with_watchdog(lambda it=it: _next_data(it), 10.0)
                if kind != "ok" or val != f"data: s{i}-first\n\n".encode():
                    r.fail("C06:wsgi-pool:setup", f"{ctx}: stream {i} of the busy set gave {kind} {val!r}")
            else:
                # beyond the pool size the stream is itself waiting for a thread: it can only see pings
                _with_watchdog(lambda it=it: next(it), 10.0)
            others.append(it)
        it = iter(W.SendEventResponse(late_producer(), ping_interval=0.02)(dict(env), lambda *a, **k: None))
        got = []
        for _ in range(consume):
            kind, val = _with_watchdog(lambda: next(it), 10.0)
            got.append((kind, val))
            if kind == "hang":
                r.fail("C06:wsgi-pool:next-hang", f"{ctx}: next() on the late stream did not return within 10 s")
                break
        kind, val = _with_watchdog(it.close, 5.0)
        if kind == "hang":
            kind2, _ = _with_watchdog(lambda: (release.set(), time.sleep(0))[1], 1.0)
            r.fail("C06:wsgi-pool:close-hang", f"{ctx}: close() of a stream whose relay job was still waiting for a pool thread did not return within 5 s (items seen before: {got!r})")
        elif kind == "exc":
            r.fail(f"C06:wsgi-pool:close-raised:{type(val).__name__}", f"{ctx}: {val!r}")
    finally:
        release.set()
        for o in others:
            kind, val = _with_watchdog(o.close, 10.0)
            if kind == "hang":
                r.fail("C06:wsgi-pool:other-close-hang", f"{ctx}: closing a busy stream after its producer was released did not return within 10 s")
    deadline = time.monotonic() + 10
    while time.monotonic() < deadline and stats["finalized"] != stats["entered"]:
        time.sleep(0.01)
    if stats["finalized"] != stats["entered"]:
        r.fail("C06:wsgi-pool:producer-cleanup-count", f"{ctx}: busy producers entered {stats['entered']}x, cleaned up {stats['finalized']}x")
    if late["finalized"] != late["entered"]:
        r.fail("C06:wsgi-pool:late-producer-cleanup", f"{ctx}: late producer entered {late['entered']}x, cleaned up {late['finalized']}x")
    r.nontrivial = busy >= 10
    r.label(f"busy={busy}", f"consume={consume}")
    return r


def _next_data(it):
    while True:
        item = next(it)
        if not item.startswith(b": ping"):
            return item


def _with_watchdog(fn, timeout):
    import threading

    box = {}

    def target():
        try:
            box["v"] = fn()
        except BaseException as exc:  # noqa: BLE001
            box["e"] = exc

    t = threading.Thread(target=target, daemon=True)
    t.start()
    t.join(timeout)
    if t.is_alive():
        return "hang", None
    if "e" in box:
        return "exc", box["e"]
    return "ok", box.get("v")


SUBS = {
    "wsgi_pool": oracle_wsgi_pool,
    "asgi": oracle_asgi,
    "asgi_grid": oracle_asgi,
    "wsgi_sse": oracle_wsgi_sse,
    "wsgi_sse_ping": oracle_wsgi_sse,
    "wsgi_sse_long": oracle_wsgi_sse,
    "wsgi_sse_cleanup": oracle_wsgi_sse,
    "wsgi_stream": oracle_wsgi_stream,
}

# ------------------------------------------------------------------------------------------

_grid = st.sampled_from([0, 0, 0.25, 0.5, 0.75, 1.0, 1.5, 2.0, 3.0])


@st.composite
def asgi_case(draw):
    n = draw(st.integers(0, 6))
    delays = [draw(_grid) for _ in range(n + 1)]
    total = sum(delays)
    kind = draw(st.sampled_from(["stream", "sse", "sse", "stream-view", "sse-view"]))
    d_choice = draw(st.integers(0, 9))
    if d_choice <= 1:
        D = None
    else:
        D = draw(st.sampled_from([0.0, 0.25, 0.5, 0.75, 1.0, 1.25, 1.5, 2.0, 2.5, 3.0, 4.0, 6.0, total, max(total - 0.25, 0), total + 0.25, total / 2]))
        D = round(D * 4) / 4
    return {
        "kind": kind,
        "items": n,
        "delays": delays,
        "send_delay": draw(st.sampled_from([0, 0, 0.25, 0.5])),
        "ping": draw(st.sampled_from([0.5, 1.0, 1.0, 3.0])),
        "disconnect_at": D,
        "raise_at": draw(st.one_of(st.none(), st.none(), st.integers(0, n))),
        "send_raises": draw(st.booleans()),
    }


def asgi_grid():
    for kind in ("stream", "sse"):
        for delays, raise_at in (([0, 0, 0, 0, 0], None), ([0.5, 0.5, 0.5, 0.5, 0.5], None), ([0.5, 1.5, 0, 2.0, 0.25], None), ([0.5, 0.5, 0.5, 0.5, 0.5], 2)):
            total = sum(delays)
            for send_raises in (False, True):
                for send_delay in (0, 0.25):
                    d = 0.0
                    while d <= total + 1.5:
                        yield {"kind": kind, "items": 4, "delays": delays, "send_delay": send_delay, "ping": 1.0, "disconnect_at": d,
                               "raise_at": raise_at, "send_raises": send_raises}
                        d += 0.25


def wsgi_stream_cases():
    for n in range(0, 5):
        for end in ("finish", "raise"):
            for close_after in [None] + list(range(0, n + 2)):
                yield {"items": n, "end": end, "close_after": close_after}


@st.composite
def long_schedule(draw):
    # build a feasible schedule incrementally
    s = ""
    for _ in range(draw(st.integers(5, 12))):
        opts = [x for x in "PPCCXEFcc" if wsched.feasible(s + x) or (x == "c" and any(wsched.feasible(s + x + y) for y in "PEF"))]
        if not opts:
            break
        s += draw(st.sampled_from(opts))
        if "X" in s and s[-1] != "X":
            break
    if s.endswith("c"):
        s += draw(st.sampled_from("PEF"))
    if not s:
        s = "P"
    return {"schedule": s}


def run(rec, only=None):
    quick = rec.tier == "quick"
    core.drive_cases(rec, "wsgi_stream", wsgi_stream_cases(), oracle_wsgi_stream)
    rec.exhaustive["wsgi_stream"] = True
    core.drive_cases(rec, "wsgi_sse", ({"schedule": s} for s in wsched.enumerate_schedules(5 if quick else 7)), oracle_wsgi_sse)
    rec.exhaustive["wsgi_sse"] = True
    stalls = ["PPSCCFC", "PPSCFCC", "PSCPPSCCFC", "PPSCCX", "PPSX", "cPPSCFC", "PPSCPSCFCC", "PSPSCCFC", "PPCSCFC", "SPPSCCFC"]
    ping_scheds = list(wsched.enumerate_schedules(3 if quick else 4, True)) + [s for s in stalls if wsched.feasible(s, True)]
    core.drive_cases(rec, "wsgi_sse_ping", ({"schedule": s, "ping": True} for s in ping_scheds), oracle_wsgi_sse)
    rec.exhaustive["wsgi_sse_ping"] = True
    # the user's cleanup code (the generator's finally) takes 50 ms: the close must still return with the producer's
    # step, not a ping interval (30 s here) later
    core.drive_cases(rec, "wsgi_sse_cleanup", ({"schedule": s, "cleanup": 0.05} for s in wsched.enumerate_schedules(4 if quick else 6) if "X" in s or "C" in s), oracle_wsgi_sse)
    rec.exhaustive["wsgi_sse_cleanup"] = True
    core.drive_cases(rec, "wsgi_pool", ({"busy": b, "consume": c} for b in (0, 9, 10, 12) for c in (0, 1, 3)), oracle_wsgi_pool)
    rec.exhaustive["wsgi_pool"] = True
    grid = list(asgi_grid())
    core.drive_cases(rec, "asgi_grid", grid, oracle_asgi)
    rec.exhaustive["asgi_grid"] = True
    core.drive_hypothesis(rec, "asgi", asgi_case(), oracle_asgi, 1500 if quick else 40000)
    core.drive_hypothesis(rec, "wsgi_sse_long", long_schedule(), oracle_wsgi_sse, 150 if quick else 3000, seed_offset=1, shrink=False)
    rec.exhaustive["asgi"] = rec.exhaustive["wsgi_sse_long"] = False
