"""C02 - File responses deliver exactly the requested bytes with truthful framing."""
from __future__ import annotations

import itertools
import os
import re

from hypothesis import strategies as st

import baize.asgi as basgi
import baize.wsgi as bwsgi

from harness import core, gateways as gw, tmpfiles
from harness.core import Result
from harness.refs import byteranges, ranges as rref

LEVEL = "exploration"
RULES = {
    "ifrange": "enumerated: every If-Range form (absent, ETag exact/unquoted/weak, Last-Modified exact, +-1 s, +1 day, far future, other date, garbage, empty) x "
    "six Range shapes x two sizes on all three interfaces and both methods",
    "files": "Hypothesis: file size in {0, 1, c-1, c, c+1, 2c, 2c+1, random <= 5c, sizes around powers of ten} for chunk size c in "
    "{1,2,3,7,64,262144} x Range (absent, grammar-built sets of 1..5 specs biased to file end / chunk multiples / 10^k, overlapping, "
    "unordered, malformed text, empty) x If-Range (absent, exact ETag, unquoted, weak, exact Last-Modified, Last-Modified +-1 s / +1 day, far future, other date, garbage, empty) "
    "x GET and HEAD x {WSGI, ASGI, ASGI+zero-copy} x content type given/guessed x download name; every case is answered on all three "
    "interfaces and both methods and the six answers are parsed and compared; non-trivial = satisfiable Range with an edge or the "
    "size within +-1 of a chunk multiple, or a multipart answer",
    "grid": "exhaustive: sizes 0..6 x chunk sizes {1,2,3} x all range sets of <= k specs over 0..7 (k=1 quick, 2 thorough) x GET/HEAD x 3 interfaces",
}
ASSUMPTIONS = [
    "the random multipart boundary is normalised before interface comparison; body chunking is ignored",
    "an If-Range date in another HTTP date format is not generated (the statement fixes exact equality only)",
    "for headers that are not grammar-clean range sets the expected ranges come from parse_range itself (judged by C03); "
    "status, framing and byte content are still checked against the file",
]

_DIR = None
_FILES = {}


def _reset_files() -> None:
    global _DIR
    _DIR = None
    _FILES.clear()


core.AFTER_FORK.append(_reset_files)


def pattern(n: int) -> bytes:
    """Position-identifying content over bytes >= 0x80."""
    return bytes(0x80 + ((i * 37 + (i // 128) * 11 + (i // 16384)) % 128) for i in range(n))


def file_for(size: int, ext: str) -> str:
    global _DIR
    if _DIR is None:
        _DIR = tmpfiles.workdir("verif_c02_")
    key = (size, ext)
    if key not in _FILES:
        path = os.path.join(_DIR, f"f{size}{ext}")
        with open(path, "wb") as fh:
            fh.write(pattern(size))
        _FILES[key] = path
    return _FILES[key]


def _shift(http_date, seconds):
    import datetime
    from email.utils import format_datetime, parsedate_to_datetime

    return format_datetime(parsedate_to_datetime(http_date) + datetime.timedelta(seconds=seconds), usegmt=True)


def request(case, method, iface, if_range_value):
    headers = []
    if case["range"] is not None:
        headers.append(["Range", case["range"]])
    if if_range_value is not None:
        headers.append(["If-Range", if_range_value])
    ext = {"http.response.zerocopysend": {}} if iface == "asgi-zc" else None
    return gw.areq(method=method, path="/f", headers=headers, extensions=ext)


def answer(case, method, iface, if_range_value, path):
    kw = {"chunk_size": case["chunk"]}
    if case.get("ctype"):
        kw["content_type"] = case["ctype"]
    if case.get("dname"):
        kw["download_name"] = case["dname"]
    rq = request(case, method, iface, if_range_value)
    if iface == "wsgi":
        return gw.call_wsgi(bwsgi.FileResponse(path, **kw), rq)
    return gw.call_asgi(basgi.FileResponse(path, **kw), rq)


def hdr(run, name):
    return run.get(name)


def normalise(run):
    """(status, header multiset, body) with the random boundary replaced."""
    heads = run.header_multiset()
    body = run.body
    ct = run.get("content-type") or ""
    b = byteranges.boundary_of(ct)
    if b:
        heads = sorted((k, v.replace(b, "BOUNDARY")) for k, v in heads)
        body = body.replace(b.encode("ascii"), b"BOUNDARY")
    return run.status_code, heads, body


def judge_get(r, tag, case, run, content, honoured, specs, ctx):
    """Checks on one GET answer.  Returns the list of (start, end_exclusive) it declares."""
    size = len(content)
    body = run.body
    status = run.status_code
    cl = hdr(run, "content-length")
    if cl is not None:
        if not re.fullmatch(r"[0-9]+", cl) or int(cl) != len(body):
            r.fail(f"C02:{tag}:content-length", f"{ctx}: Content-Length {cl!r} but {len(body)} body bytes were sent (status {status})")
    if not honoured:
        if status != 200:
            r.fail(f"C02:{tag}:range-honoured-wrongly", f"{ctx}: Range must be ignored here, got status {status}")
            return None
    if status == 200:
        if honoured:
            r.fail(f"C02:{tag}:range-ignored", f"{ctx}: Range should be honoured, got 200")
        if body != content:
            r.fail(f"C02:{tag}:200-body", f"{ctx}: 200 body has {len(body)} bytes, file has {size}; first difference at {_first_diff(body, content)}")
        if cl is None or int(cl) != size:
            r.fail(f"C02:{tag}:200-length", f"{ctx}: 200 with Content-Length {cl!r}, file size {size}")
        return None
    if status in (400, 416):
        if any(b >= 0x80 for b in body):
            r.fail(f"C02:{tag}:error-body-has-file-data", f"{ctx}: {status} body {body[:40]!r}")
        if status == 416 and hdr(run, "content-range") != f"*/{size}":
            r.fail(f"C02:{tag}:416-content-range", f"{ctx}: 416 with Content-Range {hdr(run, 'content-range')!r}, expected */{size}")
        return status
    if status != 206:
        r.fail(f"C02:{tag}:status", f"{ctx}: unexpected status {status}")
        return None
    ct = hdr(run, "content-type") or ""
    b = byteranges.boundary_of(ct)
    declared = []
    if b is None:
        cr = hdr(run, "content-range") or ""
        m = re.fullmatch(r"bytes ([0-9]+)-([0-9]+)/([0-9]+)", cr)
        if m is None:
            r.fail(f"C02:{tag}:206-content-range", f"{ctx}: 206 with Content-Range {cr!r}")
            return None
        s, e, sz = map(int, m.groups())
        if sz != size or not (0 <= s <= e < size):
            r.fail(f"C02:{tag}:206-content-range", f"{ctx}: Content-Range {cr!r} for a file of {size} bytes")
            return None
        if body != content[s:e + 1]:
            r.fail(f"C02:{tag}:206-slice", f"{ctx}: body has {len(body)} bytes, slice {s}-{e} has {e - s + 1}; first difference at {_first_diff(body, content[s:e + 1])}")
        if cl is None or int(cl) != e - s + 1:
            r.fail(f"C02:{tag}:206-length", f"{ctx}: Content-Length {cl!r} for range {s}-{e}")
        declared = [(s, e + 1)]
    else:
        try:
            parts = byteranges.parse(body, b.encode("ascii"))
        except byteranges.ParseError as exc:
            r.fail(f"C02:{tag}:multipart-structure", f"{ctx}: {exc}")
            return None
        if len(parts) < 2:
            r.fail(f"C02:{tag}:multipart-single", f"{ctx}: multipart answer with {len(parts)} part(s)")
        want_ct = case["_file_type"]
        prev = -1
        for p in parts:
            s, e = p["start"], p["end"]
            if p["size"] != size or not (0 <= s <= e < size):
                r.fail(f"C02:{tag}:multipart-content-range", f"{ctx}: part Content-Range {s}-{e}/{p['size']} for a file of {size} bytes")
                continue
            if p["data"] != content[s:e + 1]:
                r.fail(f"C02:{tag}:multipart-slice", f"{ctx}: part {s}-{e} carries other bytes than the file slice")
            if p["headers"].get("content-type") != want_ct:
                r.fail(f"C02:{tag}:multipart-part-type", f"{ctx}: part Content-Type {p['headers'].get('content-type')!r}, file type {want_ct!r}")
            if s <= prev:
                r.fail(f"C02:{tag}:multipart-order", f"{ctx}: part {s}-{e} not after the previous part (ends {prev})")
            prev = e
            declared.append((s, e + 1))
        if cl is None:
            r.fail(f"C02:{tag}:multipart-length", f"{ctx}: multipart answer without Content-Length")
    if specs is not None and not rref.verdicts(specs, size):
        want = rref.runs_by_sweep(specs, size)
        if declared != want:
            r.fail(f"C02:{tag}:declared-ranges", f"{ctx}: answer declares {declared!r}, the header denotes {want!r}")
        if len(want) == 1 and b is not None:
            r.fail(f"C02:{tag}:single-range-as-multipart", f"{ctx}")
        if len(want) > 1 and b is None:
            r.fail(f"C02:{tag}:several-ranges-as-single", f"{ctx}")
    return declared


def _first_diff(a: bytes, b: bytes):
    for i, (x, y) in enumerate(zip(a, b)):
        if x != y:
            return i
    return min(len(a), len(b))


def oracle(case) -> Result:
    r = Result()
    size, ext = case["size"], case["ext"]
    path = file_for(size, ext)
    content = pattern(size)
    # validators of the current file
    probe = gw.call_wsgi(bwsgi.FileResponse(path), gw.areq(path="/f"))
    etag, lastmod = probe.get("etag"), probe.get("last-modified")
    if not etag or not lastmod:
        r.fail("C02:no-validators", f"plain answer lacks ETag/Last-Modified: {probe.headers!r}")
        return r
    case = dict(case)
    plain = answer({**case, "range": None}, "GET", "wsgi", None, path)
    case["_file_type"] = plain.get("content-type")  # the file's type as served in a plain 200 answer
    kind = case["if_range"]
    if_range = {
        "absent": None,
        "etag": etag,
        "unquoted": etag.strip('"'),
        "weak": "W/" + etag,
        "lastmod": lastmod,
        "otherdate": "Thu, 01 Jan 2015 00:00:00 GMT",
        # dates around the file's own Last-Modified: only the exact value is a matching validator
        "lastmod+1s": _shift(lastmod, 1),
        "lastmod-1s": _shift(lastmod, -1),
        "lastmod+1d": _shift(lastmod, 86400),
        "far-future": "Fri, 31 Dec 2100 23:59:59 GMT",
        "garbage": "xyz",
        "empty": "",
    }[kind]
    rng = case["range"]
    honoured = rng is not None and rng != "" and kind in ("absent", "etag", "lastmod", "empty")
    specs = rref.parse_clean(rng) if rng else None
    ctx0 = f"size={size} chunk={case['chunk']} Range={rng!r} If-Range={kind} ext={ext} ctype={case.get('ctype')!r} dname={case.get('dname')!r}"
    answers = {}
    for iface in ("wsgi", "asgi", "asgi-zc"):
        for method in ("GET", "HEAD"):
            run = answer(case, method, iface, if_range, path)
            tag = f"{iface}"
            ctx = f"{method} {iface} {ctx0}"
            if run.exc is not None:
                r.fail(f"C02:{tag}:raised:{type(run.exc).__name__}", f"{ctx}: {run.exc!r}")
                continue
            if run.errors:
                r.fail(f"C02:{tag}:protocol:{run.errors[0][0]}", f"{ctx}: {run.errors[:3]!r}")
            if iface != "wsgi" and not run.complete:
                r.fail(f"C02:{tag}:incomplete", f"{ctx}: no final body event")
            answers[(iface, method)] = run
            if method == "GET":
                res = judge_get(r, tag, case, run, content, honoured, specs, ctx)
                if iface == "asgi-zc" and run.status_code in (200, 206) and size > 0 and run.zerocopy_events == 0:
                    r.fail("C02:asgi-zc:extension-unused", f"{ctx}: no zerocopysend event although the extension was offered")
                if isinstance(res, list):
                    r.label("multipart" if len(res) > 1 else "single-range")
                r.label(f"status={run.status_code}") if iface == "wsgi" else None
            else:
                if run.body != b"":
                    r.fail(f"C02:{tag}:head-body", f"{ctx}: HEAD answered with {len(run.body)} body bytes {run.body[:30]!r} (status {run.status_code})")
    # HEAD == GET headers; interfaces agree
    for iface in ("wsgi", "asgi", "asgi-zc"):
        g, h = answers.get((iface, "GET")), answers.get((iface, "HEAD"))
        if g is None or h is None:
            continue
        ng, nh = normalise(g), normalise(h)
        if ng[0] != nh[0] or ng[1] != nh[1]:
            r.fail(f"C02:{iface}:head-differs", f"HEAD vs GET {iface} {ctx0}: {nh[0]} {nh[1]!r} vs {ng[0]} {ng[1]!r}")
    base = answers.get(("wsgi", "GET"))
    for iface in ("asgi", "asgi-zc"):
        other = answers.get((iface, "GET"))
        if base is None or other is None:
            continue
        nb, no = normalise(base), normalise(other)
        if nb != no:
            what = "status" if nb[0] != no[0] else "headers" if nb[1] != no[1] else "body"
            r.fail(f"C02:interfaces-differ:{what}", f"wsgi vs {iface} {ctx0}: {nb[0]} {nb[1]!r} ({len(nb[2])} bytes) vs {no[0]} {no[1]!r} ({len(no[2])} bytes)")
    c = case["chunk"]
    near_chunk = any(abs(size - k * c) <= 1 for k in range(0, 6))
    edge = specs is not None and any(
        (a is not None and (a in (0, size - 1, size) or (b is not None and b in (size - 1, size, a)))) or (a is None and b in (1, size, size + 1)) for a, b in specs
    )
    ok_range = honoured and specs is not None and not rref.verdicts(specs, size)
    r.nontrivial = bool(ok_range and (edge or near_chunk or len(rref.runs_by_sweep(specs, size)) > 1))
    r.label(f"if-range={kind}", "range-absent" if rng is None else ("range-clean" if specs is not None else "range-text"), f"chunk={c}")
    r.weight = 6
    r.key = (size, c, rng, kind, ext, case.get("ctype"), case.get("dname"))
    return r


SUBS = {"files": oracle, "grid": oracle, "ifrange": oracle}

# ------------------------------------------------------------------------------------------

CHUNKS = [1, 2, 3, 7, 64, 4096 * 64]


@st.composite
def file_case(draw):
    c = draw(st.sampled_from(CHUNKS + [1, 2, 3, 7, 64]))
    if c > 1000:
        size = draw(st.sampled_from([0, 1, c - 1, c, c + 1, 2 * c, 2 * c + 1, 1000, 99999, 100000, 100001]))
    else:
        size = draw(st.one_of(st.sampled_from([0, 1, max(c - 1, 0), c, c + 1, 2 * c, 2 * c + 1, 9, 10, 11, 99, 100, 101, 999, 1000, 1001]), st.integers(0, 5 * c)))
    anchors = sorted({0, 1, 2, max(size - 2, 0), max(size - 1, 0), size, size + 1, c - 1, c, c + 1, 2 * c - 1, 2 * c, 9, 10, 11, 99, 100, size // 2})
    num = st.one_of(st.sampled_from(anchors), st.integers(0, max(size + 2, 3)))
    kind = draw(st.sampled_from(["absent", "set", "set", "set", "set", "text", "empty"]))
    if kind == "absent":
        rng = None
    elif kind == "empty":
        rng = ""
    elif kind == "text":
        rng = draw(st.sampled_from(["bytes=", "bytes=-", "byte=0-1", "bytes=a-b", "bytes=0-1,hello", "0-1", "bytes 0-1", "bytes=1-0", "bytes=,", "items=0-1", "bytes=0-1;q=1", "bytes= 0 - 1", "bytes=-0", "bytes=" + "9" * 30 + "-"]))
    else:
        n = draw(st.integers(1, 5))
        specs = []
        for _ in range(n):
            form = draw(st.sampled_from(["ab", "ab", "a-", "-s"]))
            if form == "ab":
                a, b = draw(num), draw(num)
                if a > b and draw(st.integers(0, 7)) > 0:
                    a, b = b, a
                specs.append(f"{a}-{b}")
            elif form == "a-":
                specs.append(f"{draw(num)}-")
            else:
                specs.append(f"-{draw(st.one_of(st.integers(0, 4), num))}")
        rng = "bytes=" + draw(st.sampled_from([",", ", "])).join(specs)
    return {
        "size": size,
        "chunk": c,
        "range": rng,
        "if_range": draw(st.sampled_from(["absent", "absent", "absent", "etag", "etag", "lastmod", "unquoted", "weak", "otherdate", "garbage", "empty", "lastmod+1s", "lastmod-1s", "lastmod+1d", "far-future"])),
        "ext": draw(st.sampled_from([".bin", ".txt"])),
        "ctype": draw(st.sampled_from([None, None, "image/png", "text/plain; charset=utf-8"])),
        "dname": draw(st.sampled_from([None, None, "report.pdf", "data.bin"])),
    }


def grid_shard(rec, k, nshards, maxspecs, stride=1):
    g = core.guarded(oracle)
    nums = range(0, 8)
    u = [f"{a}-{b}" for a in nums for b in nums] + [f"{a}-" for a in nums] + [f"-{s}" for s in nums]
    i = 0
    for nspec in range(1, maxspecs + 1):
        for combo in itertools.product(u, repeat=nspec):
            for size in range(0, 7):
                for c in (1, 2, 3):
                    i += 1
                    if i % nshards != k or (nspec > 1 and (i // nshards) % stride != 0):
                        continue
                    case = {"size": size, "chunk": c, "range": "bytes=" + ",".join(combo), "if_range": "absent", "ext": ".bin", "ctype": None, "dname": None}
                    res = g(case)
                    rec.count("grid", case, res)
                    new, old = rec.split(res)
                    rec.note_known(old)
                    for f in new:
                        rec.add_violation("grid", f, case)
                        rec.skip.add(f.bucket)


def run(rec, only=None):
    quick = rec.tier == "quick"
    if quick:
        core.run_sharded(rec, grid_shard, 8, min(8, core.ncpu()), (2, 61))
    else:
        core.run_sharded(rec, grid_shard, 64, core.ncpu(), (2, 1))
    rec.exhaustive["grid"] = not quick  # quick: all 1-spec sets, every 61st 2-spec set
    kinds = ["absent", "etag", "lastmod", "unquoted", "weak", "otherdate", "garbage", "empty", "lastmod+1s", "lastmod-1s", "lastmod+1d", "far-future"]
    core.drive_cases(
        rec,
        "ifrange",
        (
            {"size": size, "chunk": 2, "range": rng, "if_range": kind, "ext": ".bin", "ctype": None, "dname": None}
            for kind in kinds
            for size in (5, 64)
            for rng in ("bytes=0-1", "bytes=1-", "bytes=-2", "bytes=0-0,2-3", "bytes=9-", "junk")
        ),
        oracle,
    )
    rec.exhaustive["ifrange"] = True
    core.drive_hypothesis(rec, "files", file_case(), oracle, 500 if quick else 12000)
    rec.exhaustive["files"] = False
