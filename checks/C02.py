"""C02 - File responses deliver exactly the requested bytes with truthful framing."""
from __future__ import annotations

import itertools
import os
import re

from hypothesis import strategies as st

import baize.asgi as basgi
import baize.wsgi as bwsgi

from harness import core, gateways as gw, tmpfiles
from harness.core import Result
from harness.refs import byteranges, ranges as rref

LEVEL = "exploration"
RULES = {
    "huge": "enumerated: sparse files of 2 GiB + 8 MiB and 4 GiB + 7 bytes (thorough: up to 32 GiB) served by the ASGI response with the zero-copy extension, whole and with "
    "15 range sets (slices just below / at / above 0x7ffff000 bytes, suffixes, two ranges with one slice over 2 GiB), GET and HEAD; the server model notes every "
    "(offset, count) slice instead of reading it: in order they must be exactly the expected byte ranges, contiguous and complete, the literal bytes in between are "
    "compared with the file, Content-Length equals the bytes sent, Content-Range names the range; non-trivial = an expected slice longer than 0x7ffff000 bytes",
    "_interfaces": "every case of every sub-check is answered by four server configurations and both methods (8 answers, all parsed and compared): WSGI, "
    "WSGI whose environ offers wsgi.file_wrapper (PEP 3333), ASGI, ASGI with the zero-copy send extension",
    "ifrange": "enumerated: every If-Range form (absent, ETag exact/unquoted/weak, near misses of the ETag: tag + suffix, tag lists, upper-case hex, truncated tag, "
    "'*', an 8-bit tag; Last-Modified exact, +-1 s, +1 day, far future, other date, garbage, empty) x "
    "six Range shapes x two sizes on all four server configurations and both methods",
    "request": "enumerated: order of the Range / If-Range header lines (either first), unrelated and look-alike header lines around them (X-Range, If-Range-X ...) x "
    "what the ASGI server offers in scope['extensions'] (key absent, empty dict, other extensions only; zero-copy alone or next to others) x "
    "If-Range {absent, ETag, garbage, 8-bit} x Range {single, multipart, unsatisfiable, 8-bit text}",
    "mtime": "enumerated: file modification time on a whole second / .25 / .75 / .999999 s past it / in 2001 / as written, file reached directly and through a "
    "symbolic link x If-Range {absent, ETag, upper-case ETag, Last-Modified, +-1 s} x single and multipart Range; the same validators with the process "
    "in the time zones UTC+5:30, UTC-8 and UTC+13",
    "forms": "enumerated: legal spellings of a range set (comma + tab / blanks as optional whitespace, zero-padded positions, 30-digit last position, "
    "12 specs, repeated and nested specs, suffix = whole file, one-byte ranges at both file ends) x sizes; the default chunk size; content types "
    "(given / guessed / with a Latin-1 parameter / 90 characters long) x download name",
    "files": "Hypothesis: file size in {0, 1, c-1, c, c+1, 2c, 2c+1, random <= 5c, sizes around powers of ten} for chunk size c in "
    "{1,2,3,7,64,262144} x Range (absent, grammar-built sets of 1..5 specs biased to file end / chunk multiples / 10^k, overlapping, "
    "unordered, malformed text, empty) x If-Range (absent, exact ETag, unquoted, weak, exact Last-Modified, Last-Modified +-1 s / +1 day, far future, other date, garbage, empty) "
    "x GET and HEAD x {WSGI, WSGI+file_wrapper, ASGI, ASGI+zero-copy} x content type given/guessed/Latin-1 x download name x header line order / noise x offered ASGI extensions "
    "x file mtime phase x symbolic link; range sets also with tab/blank separators, zero-padded and 30-digit positions, up to 12 specs; every case is answered on all four "
    "server configurations and both methods and the eight answers are parsed and compared; non-trivial = satisfiable Range with an edge or the "
    "size within +-1 of a chunk multiple, or a multipart answer",
    "grid": "exhaustive: sizes 0..6 x chunk sizes {1,2,3} x all range sets of <= k specs over 0..7 (k=1 quick, 2 thorough) x GET/HEAD x 4 server configurations",
}
ASSUMPTIONS = [
    "the random multipart boundary is normalised before interface comparison; body chunking is ignored",
    "an If-Range date in another HTTP date format is not generated (the statement fixes exact equality only)",
    "for headers that are not grammar-clean range sets the expected ranges come from parse_range itself (judged by C03); "
    "status, framing and byte content are still checked against the file",
    "a grammar-clean range set in which every spec is satisfiable must be answered 206 (a 400/416 there does not deliver the requested bytes); "
    "when some spec is unsatisfiable or inverted either rejection status is accepted, and a 206 only if it declares exactly the union of the "
    "remaining specs (a suffix longer than the file counted as the whole file or dropped)",
    "every request is answered by a freshly built response object (re-use of one object for several requests is not generated, see PENDING-DEFECT in the check)",
    "only header lines that cannot change the meaning of the request are used as noise (no If-Match / If-None-Match / If-(Un)Modified-Since)",
    "If-Range values that are the Last-Modified text in another letter case or with text appended are not generated (a lenient date parser reads the same instant)",
]

_DIR = None
_FILES = {}
DEFAULT_CHUNK = 4096 * 64  # documented default of the chunk_size argument


def _reset_files() -> None:
    global _DIR
    _DIR = None
    _FILES.clear()


core.AFTER_FORK.append(_reset_files)


def pattern(n: int) -> bytes:
    """Position-identifying content over bytes >= 0x80."""
    return bytes(0x80 + ((i * 37 + (i // 128) * 11 + (i // 16384)) % 128) for i in range(n))


# modification times (ns) a file can be given: the text of Last-Modified has whole seconds, the ETag is made from the
# exact time, so "on the second", "a quarter past", "three quarters past" and "just before the next" are different phases
MTIMES = {
    "now": None,  # as written by the harness (arbitrary phase)
    "whole": 1_600_000_000 * 10**9,
    "frac25": 1_600_000_000 * 10**9 + 250_000_000,
    "frac75": 1_600_000_000 * 10**9 + 750_000_000,
    "frac999": 1_600_000_000 * 10**9 + 999_999_000,
    "old": 1_000_000_000 * 10**9 + 500_000_000,
}


def file_for(size: int, ext: str, mtime: str = "now", link: bool = False) -> str:
    global _DIR
    if _DIR is None:
        _DIR = tmpfiles.workdir("verif_c02_")
    key = (size, ext, mtime)
    if key not in _FILES:
        path = os.path.join(_DIR, f"f{size}{'' if mtime == 'now' else '-' + mtime}{ext}")
        with open(path, "wb") as fh:
            fh.write(pattern(size))
        ns = MTIMES[mtime]
        if ns is not None:
            os.utime(path, ns=(ns, ns))
        _FILES[key] = path
    if not link:
        return _FILES[key]
    lkey = (size, ext, mtime, "link")
    if lkey not in _FILES:
        # the response is given the path of a symbolic link; the link's own size is the length of the target path
        lpath = os.path.join(_DIR, f"l{size}{'' if mtime == 'now' else '-' + mtime}{ext}")
        os.symlink(_FILES[key], lpath)
        _FILES[lkey] = lpath
    return _FILES[lkey]


def _shift(http_date, seconds):
    import datetime
    from email.utils import format_datetime, parsedate_to_datetime

    return format_datetime(parsedate_to_datetime(http_date) + datetime.timedelta(seconds=seconds), usegmt=True)


# header lines that do not change the meaning of the request: ordinary ones and names that look like Range / If-Range
NOISE_PRE = [["Host", "testserver"], ["Accept", "*/*"], ["X-Range", "bytes=0-0"], ["X-If-Range", "xyz"]]
NOISE_MID = [["Accept-Encoding", "gzip"], ["Range-Unit", "items=0-0"]]
NOISE_POST = [["If-Range-X", "xyz"], ["Ranges", "bytes=0-0"], ["Content-Range", "bytes 0-0/1"], ["X-If-Range", "xyz"], ["User-Agent", "verif"]]
SHAPES = ["ri", "ir", "n-ri", "n-ir"]  # Range line first / If-Range line first, bare / with noise lines around
ASGI_EXTS = ["none", "empty", "other"]  # what scope["extensions"] holds besides (or instead of) zero-copy send
OTHER_EXTENSIONS = {"http.response.push": {}, "http.response.trailers": {}, "tls": {"tls_version": 772}}


def request(case, method, iface, if_range_value):
    shape = case.get("shape") or "ri"
    lines = []
    if case["range"] is not None:
        lines.append(["Range", case["range"]])
    if if_range_value is not None:
        lines.append(["If-Range", if_range_value])
    if shape.endswith("ir"):
        lines.reverse()
    if shape.startswith("n-"):
        headers = list(NOISE_PRE)
        for i, line in enumerate(lines):
            if i:
                headers.extend(NOISE_MID)
            headers.append(line)
        headers.extend(NOISE_POST)
    else:
        headers = lines
    return gw.areq(method=method, path="/f", headers=headers)


def scope_extensions(case, iface):
    """scope['extensions'] of the ASGI server model, or None when the server does not put the key."""
    flavour = case.get("asgi_ext") or "none"
    if iface == "asgi-zc":
        ext = {"http.response.zerocopysend": {}}
        if flavour == "other":
            ext = {"http.response.push": {}, "http.response.zerocopysend": {}, "http.response.trailers": {}}
        return ext
    if flavour == "none":
        return None
    return {} if flavour == "empty" else dict(OTHER_EXTENSIONS)


# PENDING-DEFECT: every request is answered by a freshly built FileResponse.  Answering a second request with the same
# object (a response object is itself a WSGI/ASGI application, e.g. mounted for one fixed file) is not generated: on the
# unchanged tree the headers set for the previous answer stay on the object, so after a range request a plain 200 carries
# the stale 'Content-Range: bytes 1-2/10', and a 416 that follows a 200/206 carries 'Content-Length: <file size>' with an
# empty body (declared length != bytes sent).  Reported; sequences on one object can be added once that is settled.
def answer(case, method, iface, if_range_value, path):
    kw = {"chunk_size": case["chunk"]} if case["chunk"] is not None else {}  # None: the constructor's default chunk size
    if case.get("ctype"):
        kw["content_type"] = case["ctype"]
    if case.get("dname"):
        kw["download_name"] = case["dname"]
    rq = request(case, method, iface, if_range_value)
    if iface in ("wsgi", "wsgi-fw"):
        if iface == "wsgi-fw":
            # the server offers the optional wsgi.file_wrapper of PEP 3333 (gunicorn, uWSGI, waitress, wsgiref all do); an
            # application may hand its file to it, and the wrapper then reads in blocks up to the end of the file
            rq["file_wrapper"] = True
        return gw.call_wsgi(bwsgi.FileResponse(path, **kw), rq)
    scope = gw.make_scope(rq)
    ext = scope_extensions(case, iface)
    if ext is None:
        scope.pop("extensions", None)
    else:
        scope["extensions"] = ext
    return gw.run_sync(gw.run_asgi(basgi.FileResponse(path, **kw), scope, rq.get("body", ())))


def hdr(run, name):
    return run.get(name)


def normalise(run):
    """(status, header multiset, body) with the random boundary replaced."""
    heads = run.header_multiset()
    body = run.body
    ct = run.get("content-type") or ""
    b = byteranges.boundary_of(ct)
    if b:
        heads = sorted((k, v.replace(b, "BOUNDARY")) for k, v in heads)
        body = body.replace(b.encode("ascii"), b"BOUNDARY")
    return run.status_code, heads, body


def lenient_runs(specs, size, clip_long_suffix):
    """Maximal runs of the union of those specs of a clean set that are satisfiable and well formed on their own
    (what a 206 may declare when the server chooses not to reject a partly unsatisfiable set)."""
    iv = []
    for a, b in specs:
        if a is None:
            if b == 0 or size == 0:
                continue
            if b > size:
                if clip_long_suffix:
                    iv.append((0, size))
                continue
            iv.append((size - b, size))
        elif a < size and (b is None or a <= b):
            iv.append((a, size if b is None else min(b + 1, size)))
    runs = []
    for lo, hi in sorted(iv):
        if runs and lo <= runs[-1][1]:
            runs[-1] = (runs[-1][0], max(hi, runs[-1][1]))
        else:
            runs.append((lo, hi))
    return runs


def judge_get(r, tag, case, run, content, honoured, specs, ctx):
    """Checks on one GET answer.  Returns the list of (start, end_exclusive) it declares."""
    size = len(content)
    body = run.body
    status = run.status_code
    cl = hdr(run, "content-length")
    if cl is not None:
        if not re.fullmatch(r"[0-9]+", cl) or int(cl) != len(body):
            r.fail(f"C02:{tag}:content-length", f"{ctx}: Content-Length {cl!r} but {len(body)} body bytes were sent (status {status})")
    if not honoured:
        if status != 200:
            r.fail(f"C02:{tag}:range-honoured-wrongly", f"{ctx}: Range must be ignored here, got status {status}")
            return None
    if status == 200:
        if honoured:
            r.fail(f"C02:{tag}:range-ignored", f"{ctx}: Range should be honoured, got 200")
        if body != content:
            r.fail(f"C02:{tag}:200-body", f"{ctx}: 200 body has {len(body)} bytes, file has {size}; first difference at {_first_diff(body, content)}")
        if cl is None or int(cl) != size:
            r.fail(f"C02:{tag}:200-length", f"{ctx}: 200 with Content-Length {cl!r}, file size {size}")
        return None
    if status in (400, 416):
        if any(b >= 0x80 for b in body):
            r.fail(f"C02:{tag}:error-body-has-file-data", f"{ctx}: {status} body {body[:40]!r}")
        if status == 416 and hdr(run, "content-range") != f"*/{size}":
            r.fail(f"C02:{tag}:416-content-range", f"{ctx}: 416 with Content-Range {hdr(run, 'content-range')!r}, expected */{size}")
        if honoured and specs is not None and not rref.verdicts(specs, size):
            # every spec of a well-formed set selects bytes of the file: the requested bytes must be delivered
            r.fail(f"C02:{tag}:satisfiable-range-rejected", f"{ctx}: status {status} although the header denotes {rref.runs_by_sweep(specs, size)!r}")
        return status
    if status != 206:
        r.fail(f"C02:{tag}:status", f"{ctx}: unexpected status {status}")
        return None
    ct = hdr(run, "content-type") or ""
    b = byteranges.boundary_of(ct)
    declared = []
    if b is None:
        cr = hdr(run, "content-range") or ""
        m = re.fullmatch(r"bytes ([0-9]+)-([0-9]+)/([0-9]+)", cr)
        if m is None:
            r.fail(f"C02:{tag}:206-content-range", f"{ctx}: 206 with Content-Range {cr!r}")
            return None
        s, e, sz = map(int, m.groups())
        if sz != size or not (0 <= s <= e < size):
            r.fail(f"C02:{tag}:206-content-range", f"{ctx}: Content-Range {cr!r} for a file of {size} bytes")
            return None
        if body != content[s:e + 1]:
            r.fail(f"C02:{tag}:206-slice", f"{ctx}: body has {len(body)} bytes, slice {s}-{e} has {e - s + 1}; first difference at {_first_diff(body, content[s:e + 1])}")
        if cl is None or int(cl) != e - s + 1:
            r.fail(f"C02:{tag}:206-length", f"{ctx}: Content-Length {cl!r} for range {s}-{e}")
        declared = [(s, e + 1)]
    else:
        try:
            parts = byteranges.parse(body, b.encode("ascii"))
        except byteranges.ParseError as exc:
            r.fail(f"C02:{tag}:multipart-structure", f"{ctx}: {exc}")
            return None
        if len(parts) < 2:
            r.fail(f"C02:{tag}:multipart-single", f"{ctx}: multipart answer with {len(parts)} part(s)")
        want_ct = case["_file_type"]
        prev = -1
        for p in parts:
            s, e = p["start"], p["end"]
            if p["size"] != size or not (0 <= s <= e < size):
                r.fail(f"C02:{tag}:multipart-content-range", f"{ctx}: part Content-Range {s}-{e}/{p['size']} for a file of {size} bytes")
                continue
            if p["data"] != content[s:e + 1]:
                r.fail(f"C02:{tag}:multipart-slice", f"{ctx}: part {s}-{e} carries other bytes than the file slice")
            if p["headers"].get("content-type") != want_ct:
                r.fail(f"C02:{tag}:multipart-part-type", f"{ctx}: part Content-Type {p['headers'].get('content-type')!r}, file type {want_ct!r}")
            if s <= prev:
                r.fail(f"C02:{tag}:multipart-order", f"{ctx}: part {s}-{e} not after the previous part (ends {prev})")
            prev = e
            declared.append((s, e + 1))
        if cl is None:
            r.fail(f"C02:{tag}:multipart-length", f"{ctx}: multipart answer without Content-Length")
    if specs is not None and not rref.verdicts(specs, size):
        want = rref.runs_by_sweep(specs, size)
        if declared != want:
            r.fail(f"C02:{tag}:declared-ranges", f"{ctx}: answer declares {declared!r}, the header denotes {want!r}")
        if len(want) == 1 and b is not None:
            r.fail(f"C02:{tag}:single-range-as-multipart", f"{ctx}")
        if len(want) > 1 and b is None:
            r.fail(f"C02:{tag}:several-ranges-as-single", f"{ctx}")
    elif specs is not None:
        # some spec is unsatisfiable or inverted and the answer is 206 all the same: it may only carry the rest
        allowed = [w for w in (lenient_runs(specs, size, False), lenient_runs(specs, size, True)) if w]
        if declared not in allowed:
            r.fail(f"C02:{tag}:206-for-unsatisfiable-range", f"{ctx}: answer declares {declared!r}; the specs that select bytes of the file denote {allowed!r}")
    return declared


def _first_diff(a: bytes, b: bytes):
    for i, (x, y) in enumerate(zip(a, b)):
        if x != y:
            return i
    return min(len(a), len(b))


# every case is answered by: a WSGI server without and with the optional wsgi.file_wrapper, an ASGI server without and with zero-copy send
IFACES = ("wsgi", "wsgi-fw", "asgi", "asgi-zc")
TIME_ZONES = [None, "VRF-5:30", "VRW8", "VRE-13"]  # POSIX TZ strings (no tz database needed): UTC, UTC+5:30, UTC-8, UTC+13


def oracle(case) -> Result:
    """The process time zone is part of the configuration: the validators are GMT texts whatever the local zone is."""
    tz = case.get("tz")
    if not tz:
        return _oracle(case)
    import time as _time

    old = os.environ.get("TZ")
    os.environ["TZ"] = tz
    _time.tzset()
    try:
        return _oracle(case)
    finally:
        if old is None:
            os.environ.pop("TZ", None)
        else:
            os.environ["TZ"] = old
        _time.tzset()


def _oracle(case) -> Result:
    r = Result()
    size, ext = case["size"], case["ext"]
    path = file_for(size, ext, case.get("mtime") or "now", bool(case.get("link")))
    content = pattern(size)
    # validators of the current file
    probe = gw.call_wsgi(bwsgi.FileResponse(path), gw.areq(path="/f"))
    etag, lastmod = probe.get("etag"), probe.get("last-modified")
    if not etag or not lastmod:
        r.fail("C02:no-validators", f"plain answer lacks ETag/Last-Modified: {probe.headers!r}")
        return r
    case = dict(case)
    plain = answer({**case, "range": None}, "GET", "wsgi", None, path)
    case["_file_type"] = plain.get("content-type")  # the file's type as served in a plain 200 answer
    kind = case["if_range"]
    if_range = {
        "absent": None,
        "etag": etag,
        "unquoted": etag.strip('"'),
        "weak": "W/" + etag,
        "lastmod": lastmod,
        "otherdate": "Thu, 01 Jan 2015 00:00:00 GMT",
        # dates around the file's own Last-Modified: only the exact value is a matching validator
        "lastmod+1s": _shift(lastmod, 1),
        "lastmod-1s": _shift(lastmod, -1),
        "lastmod+1d": _shift(lastmod, 86400),
        "far-future": "Fri, 31 Dec 2100 23:59:59 GMT",
        "garbage": "xyz",
        "empty": "",
        # near misses of the current ETag: none of them equals it
        "etag+suffix": etag + "x",
        "etag-list": etag + ', "0"',
        "list-etag": '"0", ' + etag,
        "etag-upper": etag.upper(),
        "etag-trunc": etag[:-2] + '"',
        "star": "*",
        "8bit": '"caf\xe9"',
        "etag-8bit-inside": etag[:5] + "\xe9" + etag[5:],  # equal to the ETag only for a reader that drops what is not ASCII
    }[kind]
    rng = case["range"]
    # the statement itself: Range counts only when If-Range is absent (or empty) or equals the current ETag / Last-Modified text
    honoured = rng is not None and rng != "" and (if_range is None or if_range == "" or if_range == etag or if_range == lastmod)
    specs = rref.parse_clean(rng) if rng else None
    ctx0 = f"size={size} chunk={case['chunk']} Range={rng!r} If-Range={kind} ext={ext} ctype={case.get('ctype')!r} dname={case.get('dname')!r}"
    extras = [f"{k}={case[k]}" for k in ("shape", "asgi_ext", "mtime", "link", "tz") if case.get(k) and case.get(k) not in ("ri", "none", "now")]
    if extras:
        ctx0 += " " + " ".join(extras)
    answers = {}
    for iface in IFACES:
        for method in ("GET", "HEAD"):
            run = answer(case, method, iface, if_range, path)
            tag = f"{iface}"
            ctx = f"{method} {iface} {ctx0}"
            if run.exc is not None:
                r.fail(f"C02:{tag}:raised:{type(run.exc).__name__}", f"{ctx}: {run.exc!r}")
                continue
            if run.errors:
                r.fail(f"C02:{tag}:protocol:{run.errors[0][0]}", f"{ctx}: {run.errors[:3]!r}")
            if iface.startswith("asgi") and not run.complete:
                r.fail(f"C02:{tag}:incomplete", f"{ctx}: no final body event")
            answers[(iface, method)] = run
            if method == "GET":
                res = judge_get(r, tag, case, run, content, honoured, specs, ctx)
                if iface == "asgi-zc" and run.status_code in (200, 206) and size > 0 and run.zerocopy_events == 0:
                    r.fail("C02:asgi-zc:extension-unused", f"{ctx}: no zerocopysend event although the extension was offered")
                if isinstance(res, list):
                    r.label("multipart" if len(res) > 1 else "single-range")
                r.label(f"status={run.status_code}") if iface == "wsgi" else None
            else:
                if run.body != b"":
                    r.fail(f"C02:{tag}:head-body", f"{ctx}: HEAD answered with {len(run.body)} body bytes {run.body[:30]!r} (status {run.status_code})")
    # HEAD == GET headers; interfaces agree
    for iface in IFACES:
        g, h = answers.get((iface, "GET")), answers.get((iface, "HEAD"))
        if g is None or h is None:
            continue
        ng, nh = normalise(g), normalise(h)
        if ng[0] != nh[0] or ng[1] != nh[1]:
            r.fail(f"C02:{iface}:head-differs", f"HEAD vs GET {iface} {ctx0}: {nh[0]} {nh[1]!r} vs {ng[0]} {ng[1]!r}")
    base = answers.get(("wsgi", "GET"))
    for iface in IFACES[1:]:
        other = answers.get((iface, "GET"))
        if base is None or other is None:
            continue
        nb, no = normalise(base), normalise(other)
        if nb != no:
            what = "status" if nb[0] != no[0] else "headers" if nb[1] != no[1] else "body"
            r.fail(f"C02:interfaces-differ:{what}", f"wsgi vs {iface} {ctx0}: {nb[0]} {nb[1]!r} ({len(nb[2])} bytes) vs {no[0]} {no[1]!r} ({len(no[2])} bytes)")
    c = case["chunk"] or DEFAULT_CHUNK
    near_chunk = any(abs(size - k * c) <= 1 for k in range(0, 6))
    edge = specs is not None and any(
        (a is not None and (a in (0, size - 1, size) or (b is not None and b in (size - 1, size, a)))) or (a is None and b in (1, size, size + 1)) for a, b in specs
    )
    ok_range = honoured and specs is not None and not rref.verdicts(specs, size)
    r.nontrivial = bool(ok_range and (edge or near_chunk or len(rref.runs_by_sweep(specs, size)) > 1))
    r.label(f"if-range={kind}", "range-absent" if rng is None else ("range-clean" if specs is not None else "range-text"), f"chunk={case['chunk'] or 'default'}")
    r.label(f"shape={case.get('shape') or 'ri'}", f"asgi-ext={case.get('asgi_ext') or 'none'}", f"mtime={case.get('mtime') or 'now'}")
    if case.get("link"):
        r.label("symlink")
    if case.get("tz"):
        r.label(f"tz={case['tz']}")
    r.weight = 2 * len(IFACES)
    r.key = (size, case["chunk"], rng, kind, ext, case.get("ctype"), case.get("dname"), case.get("shape"), case.get("asgi_ext"), case.get("mtime"), case.get("link"), case.get("tz"))
    return r


def oracle_rewrite(case) -> Result:
    """A short history on ONE path: the file is rewritten in place (same inode, same size) with a modification time a fraction
    of a second later, inside the same whole second.  Its ETag changes; a request that still carries the OLD tag in If-Range must
    get the whole current file, the new tag selects the slice.  (State kept between requests - caches keyed on whole-second stat
    fields, memoised verdicts - shows here and nowhere else.)"""
    r = Result()
    size, rng = case["size"], case["range"]
    lo, hi = case["slice"]
    first, second = case["ifaces"]
    base = 1_700_000_000 + case.get("second", 0)
    global _DIR
    if _DIR is None:
        _DIR = tmpfiles.workdir("verif_c02_")
    path = os.path.join(_DIR, f"rewrite-{case['ifaces'][0]}-{case['ifaces'][1]}-{size}.bin")
    v1, v2 = pattern(size), bytes(reversed(pattern(size)))
    ccase = {"range": rng, "chunk": case.get("chunk", 3)}

    def put(content, frac):
        mode = "r+b" if os.path.exists(path) else "wb"
        with open(path, mode) as fh:  # in place: the inode stays
            fh.write(content)
        ns = int((base + frac) * 10**9)
        os.utime(path, ns=(base * 10**9, ns))

    def ask(iface, if_range):
        cc = dict(ccase, range=rng if if_range != "plain" else None)
        return answer(cc, "GET", iface, None if if_range in (None, "plain") else if_range, path)

    ctx = f"{case!r}"
    try:
        put(v1, case["fracs"][0])
        r1 = ask(first, "plain")
        etag1 = hdr(r1, "etag")
        a = ask(first, etag1)
        if a.status_code != 206 or a.body != v1[lo:hi]:
            r.fail("C02:rewrite:current-tag-not-honoured", f"{ctx}: Range + If-Range = current ETag {etag1!r} -> status {a.status_code}, body {a.body[:20]!r}")
        put(v2, case["fracs"][1])
        r2 = ask(second, "plain")
        etag2 = hdr(r2, "etag")
        if r2.status_code != 200 or r2.body != v2:
            r.fail("C02:rewrite:plain-after-rewrite", f"{ctx}: plain GET after the rewrite -> status {r2.status_code}, {len(r2.body)} bytes")
        if etag1 is not None and etag2 is not None and etag1 != etag2:
            b = ask(second, etag1)
            if b.status_code != 200 or b.body != v2:
                r.fail(
                    f"C02:rewrite:{second}:stale-tag-honoured",
                    f"{ctx}: the file was rewritten (ETag {etag1!r} -> {etag2!r}); Range + If-Range = OLD tag -> status {b.status_code}, body {b.body[:20]!r} "
                    f"(expected 200 with the whole current file)",
                )
            c = ask(second, etag2)
            if c.status_code != 206 or c.body != v2[lo:hi]:
                r.fail(f"C02:rewrite:{second}:new-tag-not-honoured", f"{ctx}: Range + If-Range = NEW tag -> status {c.status_code}, body {c.body[:20]!r}")
            r.nontrivial = True
        else:
            r.label("etag-unchanged-by-rewrite")  # judged by C14, not here
    finally:
        try:
            os.unlink(path)
        except OSError:
            pass
    r.label(f"ifaces={first}->{second}")
    r.weight = 5
    return r


def rewrite_cases():
    for first in IFACES:
        for second in IFACES:
            for fracs in ((0.25, 0.75), (0.0, 0.5), (0.75, 0.25), (0.1, 0.100001)):
                for k, (size, rng, sl) in enumerate(((12, "bytes=1-2", (1, 3)), (64, "bytes=-5", (59, 64)))):
                    yield {"ifaces": [first, second], "fracs": list(fracs), "size": size, "range": rng, "slice": list(sl), "second": k}



# ---- files beyond 2 GiB (sparse), zero-copy -------------------------------------------------------------------------------------
# A slice of more than 2 GiB cannot be read into memory by the server model; with the zero-copy extension on offer the file
# data travels as (file, offset, count) and the model only notes the slices (gateways.ZC_SPARSE_LIMIT).  The file is sparse
# (zeros) with position-identifying markers around the places where an implementation may cut a slice.
HUGE_MARKS = (0, 4096, 0x7FFFF000 - 3, 0x7FFFF000 + 4096 - 3, 2**31 - 3, 2**32 - 3)
_HUGE: dict = {}


def huge_file(size: int):
    global _DIR
    if _DIR is None:
        _DIR = tmpfiles.workdir("verif_c02_")
    if size not in _HUGE:
        path = os.path.join(_DIR, f"huge{size}.bin")
        try:
            with open(path, "wb") as fh:
                fh.truncate(size)
                for m in HUGE_MARKS + (size - 6,):
                    if 0 <= m and m + 6 <= size:
                        fh.seek(m)
                        fh.write(b"<" + (m % 2**32).to_bytes(4, "big") + b">")
        except OSError:
            # a scratch file system without room for / support of a sparse file of this size: nothing can be said (labelled)
            try:
                os.unlink(path)
            except OSError:
                pass
            path = None
        _HUGE[size] = path
    return _HUGE[size]


def oracle_huge(case) -> Result:
    r = Result()
    size, rng, method = case["size"], case["range"], case["method"]
    path = huge_file(size)
    if path is None:
        r.label("huge:file-system-cannot-hold-the-sparse-file(inconclusive)")
        return r
    specs = rref.parse_clean(rng) if rng else None
    if rng and (specs is None or rref.verdicts(specs, size)):
        raise core.HarnessError(f"huge: the range {rng!r} is not a clean satisfiable set")
    expected = rref.runs_by_sweep(specs, size) if specs else [(0, size)]
    rq = gw.areq(method=method, path="/f", headers=[["Range", rng]] if rng else [])
    scope = gw.make_scope(rq)
    scope["extensions"] = {"http.response.zerocopysend": {}}
    kw = {"chunk_size": case["chunk"]} if case.get("chunk") else {}
    old = gw.ZC_SPARSE_LIMIT
    gw.ZC_SPARSE_LIMIT = 1 << 22
    try:
        run = gw.run_sync(gw.run_asgi(basgi.FileResponse(path, **kw), scope, ()))
    finally:
        gw.ZC_SPARSE_LIMIT = old
    ctx = f"{method} asgi-zc size={size} Range={rng!r} chunk={case.get('chunk')}"
    if run.exc is not None:
        r.fail(f"C02:huge:raised:{type(run.exc).__name__}", f"{ctx}: {run.exc!r}")
        return r
    if run.errors:
        r.fail(f"C02:huge:protocol:{run.errors[0][0]}", f"{ctx}: {run.errors[:3]!r}")
    if not run.complete:
        r.fail("C02:huge:incomplete", f"{ctx}: no final body event")
    want_status = 206 if rng else 200
    if run.status_code != want_status:
        r.fail("C02:huge:status", f"{ctx}: status {run.status_code}, expected {want_status}")
        return r
    spans = {i: (pos, n, was_read) for i, pos, n, was_read in run.__dict__.get("zc_spans", [])}
    # the body as a sequence of segments: literal bytes, or (position, length) of file data that was not read
    segments = []
    for i, chunk in enumerate(run.chunks):
        if i in spans and not spans[i][2]:
            segments.append(("span", spans[i][0], spans[i][1]))
        elif i in spans:
            segments.append(("data", spans[i][0], chunk))
        elif chunk:
            segments.append(("lit", None, chunk))
    total = sum(s[2] if s[0] == "span" else len(s[2]) for s in segments)
    cl = run.get("content-length")
    if method == "HEAD":
        if total:
            r.fail("C02:huge:head-body", f"{ctx}: HEAD answered with {total} body bytes")
    else:
        if cl is None or not cl.isdigit() or int(cl) != total:
            r.fail("C02:huge:content-length", f"{ctx}: Content-Length {cl!r} but {total} body bytes were sent (slices {[s[1:] for s in segments if s[0] == 'span']!r})")
        # file data must be, in order, exactly the expected runs; literal bytes between two runs are part framing (multipart)
        cursor = [list(x) for x in expected]  # [position, end) still to come
        k = 0
        fd = os.open(path, os.O_RDONLY)
        try:
            for kind, pos, val in segments:
                if kind == "lit":
                    if len(expected) == 1:
                        # single answer: literal bytes are file data at the cursor
                        if k >= len(cursor) or os.pread(fd, len(val), cursor[k][0]) != val or cursor[k][0] + len(val) > cursor[k][1]:
                            r.fail("C02:huge:body", f"{ctx}: {len(val)} literal body bytes {val[:20]!r} are not the file content at position {cursor[k][0] if k < len(cursor) else None}")
                            break
                        cursor[k][0] += len(val)
                        if cursor[k][0] == cursor[k][1]:
                            k += 1
                    continue
                n = val if kind == "span" else len(val)
                if k >= len(cursor):
                    r.fail("C02:huge:body", f"{ctx}: file slice ({pos}, {n}) after the expected data {expected!r} was complete")
                    break
                if pos != cursor[k][0] or pos + n > cursor[k][1]:
                    r.fail("C02:huge:body", f"{ctx}: file slice (offset {pos}, count {n}) where bytes [{cursor[k][0]}, {cursor[k][1]}) of the file were due; all slices {[s[1:] if s[0] == 'span' else (s[1], len(s[2])) for s in segments if s[0] != 'lit']!r}")
                    break
                if kind == "data" and os.pread(fd, n, pos) != val:
                    r.fail("C02:huge:body", f"{ctx}: slice (offset {pos}, count {n}) delivered other bytes than the file holds there")
                    break
                cursor[k][0] += n
                if cursor[k][0] == cursor[k][1]:
                    k += 1
            else:
                if k != len(cursor):
                    r.fail("C02:huge:body", f"{ctx}: file data ends at position {cursor[k][0]}, bytes up to {cursor[k][1]} (and {len(cursor) - k - 1} more ranges) are missing")
        finally:
            os.close(fd)
    if len(expected) == 1 and rng:
        cr = run.get("content-range")
        if cr != f"bytes {expected[0][0]}-{expected[0][1] - 1}/{size}":
            r.fail("C02:huge:content-range", f"{ctx}: Content-Range {cr!r}, expected 'bytes {expected[0][0]}-{expected[0][1] - 1}/{size}'")
    longest = max(b - a for a, b in expected)
    r.nontrivial = longest > 0x7FFFF000
    r.label(f"huge:status={run.status_code}", f"huge:{method}", "huge:slice>2GiB" if longest > 0x7FFFF000 else "huge:slice<=2GiB", f"huge:ranges={len(expected)}")
    r.key = (size, rng, method, case.get("chunk"))
    return r


def huge_cases(quick):
    sizes = [2**31 + 8388608 + 5, 2**32 + 7] if quick else [2**31 - 4096, 2**31 + 8388608 + 5, 2**32 + 7, 2**33 + 1, 2**35]
    for size in sizes:
        rngs = [None, "bytes=0-", "bytes=4096-", "bytes=1-", f"bytes=-{0x7FFFF000 + 1}", f"bytes=-{size - 1}", f"bytes=4096-{4096 + 0x7FFFF000 - 1}", f"bytes=4096-{4096 + 0x7FFFF000}",
                f"bytes=5-{size - 2}", f"bytes={size - 10}-", "bytes=0-9", f"bytes=0-9,4096-", f"bytes=0-{0x7FFFF000 + 100},{0x7FFFF000 + 200}-", f"bytes={2**31 - 1}-{2**31}", f"bytes={size - 1}-"]
        for rng in rngs:
            if rng is not None:
                sp = rref.parse_clean(rng)
                if sp is None or rref.verdicts(sp, size) or any(a is not None and b is not None and a > b for a, b in sp):
                    continue  # not a satisfiable set for this size (e.g. a suffix longer than the smallest file)
            for method in ("GET", "HEAD"):
                for chunk in (None, 4096) if rng in (None, "bytes=4096-") else (None,):
                    yield {"size": size, "range": rng, "method": method, "chunk": chunk}


SUBS = {"files": oracle, "grid": oracle, "ifrange": oracle, "request": oracle, "mtime": oracle, "forms": oracle, "rewrite": oracle_rewrite, "huge": oracle_huge}

# ------------------------------------------------------------------------------------------

CHUNKS = [1, 2, 3, 7, 64, 4096 * 64]

IF_RANGE_KINDS = [
    "absent", "etag", "lastmod", "unquoted", "weak", "otherdate", "garbage", "empty", "lastmod+1s", "lastmod-1s", "lastmod+1d", "far-future",
    "etag+suffix", "etag-list", "list-etag", "etag-upper", "etag-trunc", "star", "8bit", "etag-8bit-inside",
]
LATIN1_TYPE = 'text/plain; title="caf\xe9"'  # header text is Latin-1: one character, one byte
LONG_TYPE = "application/x-verif-" + "t" * 70
RANGE_TEXTS = [
    "bytes=", "bytes=-", "byte=0-1", "bytes=a-b", "bytes=0-1,hello", "0-1", "bytes 0-1", "bytes=1-0", "bytes=,", "items=0-1", "bytes=0-1;q=1",
    "bytes= 0 - 1", "bytes=-0", "bytes=" + "9" * 30 + "-",
    # bytes >= 0x80 in the value (a server hands them over as Latin-1 text / raw bytes)
    "bytes=0-1\xe9", "\xe9", "bytes=\xb2-\xb3", "bytes=0-1,\xe9", "\xe9=0-1",
]
SEPARATORS = [",", ", ", ",", ", ", ",\t", " , ", "\t,\t"]  # optional whitespace around the comma is blank or tab


@st.composite
def file_case(draw):
    c = draw(st.sampled_from(CHUNKS + [1, 2, 3, 7, 64]))
    if c > 1000:
        size = draw(st.sampled_from([0, 1, c - 1, c, c + 1, 2 * c, 2 * c + 1, 1000, 99999, 100000, 100001]))
    else:
        size = draw(st.one_of(st.sampled_from([0, 1, max(c - 1, 0), c, c + 1, 2 * c, 2 * c + 1, 9, 10, 11, 99, 100, 101, 999, 1000, 1001]), st.integers(0, 5 * c)))
    anchors = sorted({0, 1, 2, max(size - 2, 0), max(size - 1, 0), size, size + 1, c - 1, c, c + 1, 2 * c - 1, 2 * c, 9, 10, 11, 99, 100, size // 2})
    num = st.one_of(st.sampled_from(anchors), st.integers(0, max(size + 2, 3)))
    kind = draw(st.sampled_from(["absent", "set", "set", "set", "set", "text", "empty"]))
    if kind == "absent":
        rng = None
    elif kind == "empty":
        rng = ""
    elif kind == "text":
        rng = draw(st.sampled_from(RANGE_TEXTS))
    else:
        n = draw(st.one_of(st.integers(1, 5), st.integers(1, 5), st.integers(1, 5), st.integers(6, 12)))
        pad = draw(st.sampled_from(["", "", "", "0", "000"]))  # leading zeros do not change a position
        specs = []
        inside = st.one_of(st.sampled_from([x for x in anchors if x < size] or [0]), st.integers(0, max(size - 1, 0)))
        # mostly sets in which every spec selects bytes (one wild spec makes the whole set a 416); "sparse": short spans, so that
        # several disjoint parts remain after merging
        mode = draw(st.sampled_from(["tame", "tame", "sparse", "sparse", "sparse", "wild"]))
        tame = mode != "wild"
        for i in range(n):
            form = draw(st.sampled_from(["ab", "ab", "ab", "ab", "a-", "a-", "-s", "-s", "a-huge"]))
            if mode == "sparse" and (i < n - 1 or n == 1):
                form = "ab"
            if tame and size > 0:
                a = draw(inside)
                if form == "ab" and mode == "sparse":
                    specs.append(f"{pad}{a}-{pad}{a + draw(st.integers(0, 3))}")
                elif form == "ab":
                    b = draw(st.one_of(st.integers(a, a + 3), st.integers(a, size + 1), st.sampled_from([x for x in anchors if x >= a] or [a])))
                    specs.append(f"{pad}{a}-{pad}{b}")
                elif form == "a-":
                    specs.append(f"{pad}{a}-")
                elif form == "a-huge":
                    specs.append(f"{a}-" + "9" * 30)
                else:
                    specs.append(f"-{pad}{draw(st.one_of(st.integers(1, min(4, size)), st.integers(1, size)))}")
            elif form == "ab":
                a, b = draw(num), draw(num)
                if a > b and draw(st.integers(0, 7)) > 0:
                    a, b = b, a
                specs.append(f"{pad}{a}-{pad}{b}")
            elif form == "a-":
                specs.append(f"{pad}{draw(num)}-")
            elif form == "a-huge":
                specs.append(f"{draw(num)}-" + "9" * 30)  # last position far behind the end: clipped
            else:
                specs.append(f"-{pad}{draw(st.one_of(st.integers(0, 4), num))}")
        rng = "bytes=" + draw(st.sampled_from(SEPARATORS)).join(specs)
    return {
        "size": size,
        "chunk": None if c == DEFAULT_CHUNK and draw(st.booleans()) else c,
        "range": rng,
        "if_range": draw(st.sampled_from(["absent"] * 16 + ["etag"] * 5 + ["lastmod"] * 5 + IF_RANGE_KINDS)),
        "ext": draw(st.sampled_from([".bin", ".txt"])),
        "ctype": draw(st.sampled_from([None, None, None, "image/png", "text/plain; charset=utf-8", LATIN1_TYPE, LONG_TYPE])),
        "dname": draw(st.sampled_from([None, None, "report.pdf", "data.bin"])),
        "shape": draw(st.sampled_from(SHAPES)),
        "asgi_ext": draw(st.sampled_from(ASGI_EXTS)),
        "mtime": draw(st.sampled_from(["now", "now", "now"] + [m for m in MTIMES if m != "now"])),
        "link": draw(st.sampled_from([False, False, False, True])),
        "tz": draw(st.sampled_from([None, None, None] + TIME_ZONES)),
    }


def grid_shard(rec, k, nshards, maxspecs, stride=1):
    g = core.guarded(oracle)
    nums = range(0, 8)
    u = [f"{a}-{b}" for a in nums for b in nums] + [f"{a}-" for a in nums] + [f"-{s}" for s in nums]
    i = 0
    for nspec in range(1, maxspecs + 1):
        for combo in itertools.product(u, repeat=nspec):
            for size in range(0, 7):
                for c in (1, 2, 3):
                    i += 1
                    if i % nshards != k or (nspec > 1 and (i // nshards) % stride != 0):
                        continue
                    case = {"size": size, "chunk": c, "range": "bytes=" + ",".join(combo), "if_range": "absent", "ext": ".bin", "ctype": None, "dname": None}
                    res = g(case)
                    rec.count("grid", case, res)
                    new, old = rec.split(res)
                    rec.note_known(old)
                    for f in new:
                        rec.add_violation("grid", f, case)
                        rec.skip.add(f.bucket)


def _case(size, chunk, rng, if_range="absent", **more):
    case = {"size": size, "chunk": chunk, "range": rng, "if_range": if_range, "ext": ".bin", "ctype": None, "dname": None}
    case.update(more)
    return case


def request_cases(quick):
    """Header line order and noise x what the ASGI server offers as extensions x validators x Range kinds."""
    ranges = ["bytes=1-2", "bytes=0-0,2-3", "bytes=9-", "bytes=0-1\xe9", "\xe9", None] + ([] if quick else ["bytes=3-,0-0", "bytes=2-1", ""])
    kinds = ["absent", "etag", "garbage", "8bit"] + ([] if quick else ["lastmod", "lastmod+1s", "etag-upper", "empty"])
    for shape in SHAPES:
        for flavour in ASGI_EXTS:
            for kind in kinds:
                for rng in ranges:
                    for size, chunk in ((5, 2),) if quick else ((5, 2), (64, 7)):
                        yield _case(size, chunk, rng, kind, shape=shape, asgi_ext=flavour)


def mtime_cases(quick):
    """Phase of the file's modification time within its second x symbolic link x validators around the file's own."""
    kinds = ["absent", "etag", "etag-upper", "lastmod", "lastmod+1s", "lastmod-1s"] + ([] if quick else ["lastmod+1d", "unquoted", "weak", "etag+suffix"])
    for mtime in MTIMES:
        for link in (False, True):
            for kind in kinds:
                for rng in ("bytes=1-2", "bytes=0-0,2-3") if quick else ("bytes=1-2", "bytes=0-0,2-3", None, "bytes=9-"):
                    yield _case(5, 2, rng, kind, mtime=mtime, link=link)
    for tz in TIME_ZONES[1:]:  # the process runs in another time zone: Last-Modified / If-Range stay GMT texts
        for mtime in ("whole", "frac75", "now") if quick else MTIMES:
            for kind in ("lastmod", "lastmod+1s", "lastmod-1s", "etag") if quick else kinds:
                for rng in ("bytes=1-2", "bytes=0-0,2-3"):
                    yield _case(5, 2, rng, kind, mtime=mtime, tz=tz)
    for ext in (".bin", ".txt"):  # plain downloads and whole-file ranges through a link, every chunk alignment
        for size, chunk in ((0, 2), (1, 2), (64, 64), (130, 64)):
            for rng in (None, "bytes=0-", "bytes=-1"):
                yield _case(size, chunk, rng, "absent", ext=ext, link=True, mtime="whole")


def forms_cases(quick):
    """Legal spellings of range sets x content types (the multipart length formula counts header bytes)."""
    forms = [
        "bytes=0-1,\t3-4", "bytes=0-1\t,\t3-3", "bytes=0-1 , 3-4", "bytes= 0-1", "bytes=0-0,\t2-2,\t4-4",
        "bytes=00-01,003-4", "bytes=0-" + "9" * 30, "bytes=3-4,0-" + "9" * 20, "bytes=1-" + "9" * 30 + ",0-0",
        "bytes=-1,-2,-3", "bytes=" + ",".join(f"{i}-{i}" for i in range(0, 24, 2)), "bytes=" + ", ".join(f"{i}-{i}" for i in range(0, 24, 2)),
        "bytes=4-,0-0", "bytes=0-0,0-0,0-0", "bytes=0-4,1-3,2-2", "bytes=-5", "bytes=-12", "bytes=4-4", "bytes=4-", "bytes=-1", "bytes=0-0",
        "bytes=11-11", "bytes=11-", "bytes=0-0,11-11", "bytes=0-0,4-4", "bytes=9-10,0-0", "bytes=99-100,9-10,0-0",
        # positions written with 19, 20, 21 and 40 digits: leading zeros in front of small values, and huge first positions
        # whose low digits would lie inside the file
        "bytes=0-" + "0" * 17 + "03", "bytes=0-" + "0" * 18 + "03", "bytes=0-" + "0" * 19 + "03", "bytes=0-" + "0" * 38 + "03",
        "bytes=" + "0" * 19 + "1-" + "0" * 20 + "3", "bytes=-" + "0" * 20 + "2", "bytes=1" + "0" * 18 + "2-", "bytes=1" + "0" * 19 + "2-", "bytes=1" + "0" * 20 + "2-",
        "bytes=0-1,1" + "0" * 19 + "3-", "bytes=" + "9" * 19 + "-", "bytes=" + "9" * 20 + "1-", "bytes=-" + "9" * 20,
    ]
    sizes = (5, 12) if quick else (5, 12, 13, 100, 101)
    for rng in forms:
        for size in sizes:
            yield _case(size, 2, rng)
            if not quick:
                yield _case(size, 64, rng, "etag", ext=".txt")
    # many ranges that stay separate after merging (a server may cap or coalesce them only if the bytes stay exactly the selected ones)
    for count in (13, 16, 17, 18, 32, 33, 64, 65, 100, 129) if quick else (13, 16, 17, 18, 24, 32, 33, 50, 64, 65, 100, 128, 129, 200, 257, 500):
        for stride, width in ((2, 1), (3, 2), (7, 3)):
            size = count * stride + 5
            rng = "bytes=" + ",".join(f"{i * stride}-{i * stride + width - 1}" for i in range(count))
            yield _case(size, 64 if count % 2 else 7, rng)
        # the same number of specs, but merging down to a few ranges; descending order
        yield _case(count * 2 + 5, 16, "bytes=" + ",".join(f"{i}-{i}" for i in range(count)))
        yield _case(count * 2 + 5, 16, "bytes=" + ", ".join(f"{i * 2}-{i * 2}" for i in reversed(range(count))))
    for size in (5, DEFAULT_CHUNK, DEFAULT_CHUNK + 1) if quick else (0, 5, DEFAULT_CHUNK - 1, DEFAULT_CHUNK, DEFAULT_CHUNK + 1, 2 * DEFAULT_CHUNK + 1):
        for rng in (None, "bytes=1-", "bytes=0-0,-2"):  # chunk size left to the constructor's default
            yield _case(size, None, rng)
    ctypes = [None, "image/png", LATIN1_TYPE, LONG_TYPE, 'text/html; charset="iso-8859-1"; note=\xfc\xdf']
    for ctype in ctypes:
        for dname in (None, "report.pdf"):
            for ext in (".bin", ".txt"):
                for size, rng in ((12, "bytes=0-0,9-10"), (12, "bytes=2-3"), (101, "bytes=0-9,99-100"), (1001, "bytes=9-10,99-100,999-1000"), (12, None), (12, "bytes=12-")):
                    if quick and (ext == ".txt") != (dname is None) and ctype not in (None, LATIN1_TYPE):
                        continue
                    yield _case(size, 7, rng, ext=ext, ctype=ctype, dname=dname)


def _retire_loop() -> None:
    """Close this process's event loop before worker processes are forked.  A forked worker inherits the loop object
    together with its epoll instance, which parent and child share; when the worker's garbage collector finalises the
    inherited loop, closing it unregisters the wake-up pipe from that shared epoll set and this process would then
    never notice a finished thread-pool call again (seen as 'real-loop coroutine timed out' with code under test that
    raises often).  A closed loop is inert in the workers; gateways.loop() makes a fresh one on demand."""
    lp = gw._LOOP
    if lp is not None and not lp.is_closed():
        lp.run_until_complete(lp.shutdown_default_executor())
        lp.close()
    gw._LOOP = None


def run(rec, only=None):
    quick = rec.tier == "quick"
    if only is None or "grid" in only:
        _retire_loop()
        if quick:
            core.run_sharded(rec, grid_shard, 8, min(8, core.ncpu()), (2, 61))
        else:
            core.run_sharded(rec, grid_shard, 64, core.ncpu(), (2, 1))
        rec.exhaustive["grid"] = not quick  # quick: all 1-spec sets, every 61st 2-spec set
    core.drive_cases(
        rec,
        "ifrange",
        (
            {"size": size, "chunk": 2, "range": rng, "if_range": kind, "ext": ".bin", "ctype": None, "dname": None}
            for kind in IF_RANGE_KINDS
            for size in (5, 64)
            for rng in ("bytes=0-1", "bytes=1-", "bytes=-2", "bytes=0-0,2-3", "bytes=9-", "junk")
        ),
        oracle,
    )
    rec.exhaustive["ifrange"] = True
    core.drive_cases(rec, "request", request_cases(quick), oracle)
    rec.exhaustive["request"] = True
    core.drive_cases(rec, "mtime", mtime_cases(quick), oracle)
    rec.exhaustive["mtime"] = True
    core.drive_cases(rec, "forms", forms_cases(quick), oracle)
    core.drive_cases(rec, "rewrite", rewrite_cases(), oracle_rewrite)
    core.drive_cases(rec, "huge", huge_cases(quick), oracle_huge)
    rec.exhaustive["huge"] = True
    rec.exhaustive["rewrite"] = True
    rec.exhaustive["forms"] = True
    if not quick:
        _retire_loop()  # the thorough budget is split over forked workers
    core.drive_hypothesis(rec, "files", file_case(), oracle, 500 if quick else 60000)
    rec.exhaustive["files"] = False
