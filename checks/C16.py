"""C16 - Cookies round-trip exactly and expire when asked."""
from __future__ import annotations

import calendar
import math
import os
import re
import time

from hypothesis import strategies as st

import baize.asgi as basgi
import baize.wsgi as bwsgi

from harness import core, gateways as gw
from harness.core import Result

LEVEL = "exploration"
RULES = {
    "atheris": "thorough tier: Atheris/libFuzzer coverage-guided campaign; bytes are decoded into the same structured case and judged by the same oracle inside the target (half of the jobs start from an empty corpus, half from two small valid inputs)",
    "values": "exhaustive: every code point 0..255 as a cookie value in 6 positions (alone, doubled, start, middle, end of 'ab', "
    "between quotes) sent through both response classes and read back through both request classes alone and among foreign "
    "cookies; non-trivial = the character is outside the unquoted-legal set",
    "cookies": "Hypothesis: 1..4 cookies per response with token names, Latin-1 values weighted to quotes, backslashes, ';', ',', '=', "
    "blanks, controls and octal/quoted look-alikes, expires/max_age values and a process time zone (POSIX TZ strings east/west of "
    "UTC, DST, +5:45); non-trivial = a value with a character outside the unquoted-legal set, or a non-UTC zone with expires given",
    "delete": "delete_cookie under every zone: emitted cookie already expired (Max-Age <= 0 and Expires <= now)",
}
ASSUMPTIONS = [
    "the Expires text is compared with a [floor(t0+e), floor(t1+e)] bracket taken around the call, so the oracle does not depend on how the code reads the clock",
    "cookie names within one response are distinct (with duplicates the last one wins on the request side)",
]

ZONES = ["UTC0", "CST-8", "EST5EDT,M3.2.0,M11.1.0", "NPT-5:45", "WST-13", "GMT0BST,M3.5.0/1,M10.5.0", "HST10", "Asia/Shanghai", "America/New_York"]
TOKEN_CHARS = "!#$%&'*+-.^_`|~0123456789ABCDEFGHIJKLMNOPQRSTUVWXYZabcdefghijklmnopqrstuvwxyz"
UNQUOTED_LEGAL = set("!#$%&'*+-.^_`|~:0123456789ABCDEFGHIJKLMNOPQRSTUVWXYZabcdefghijklmnopqrstuvwxyz")
_EXPIRES = re.compile(r"^[A-Z][a-z]{2}, [0-9]{2} [A-Z][a-z]{2} [0-9]{4} [0-9]{2}:[0-9]{2}:[0-9]{2} GMT$")


class _Zone:
    def __init__(self, tz):
        self.tz = tz

    def __enter__(self):
        self.old = os.environ.get("TZ")
        os.environ["TZ"] = self.tz
        time.tzset()

    def __exit__(self, *a):
        if self.old is None:
            os.environ.pop("TZ", None)
        else:
            os.environ["TZ"] = self.old
        time.tzset()


def emit(side, cookies, deletes=()):
    """Build a response, set the cookies, send it through the gateway -> (set-cookie lines, t0, t1, run)."""
    mod = bwsgi if side == "wsgi" else basgi
    resp = mod.Response(200)
    t0 = time.time()
    for c in cookies:
        kw = {}
        if c.get("expires") is not None:
            kw["expires"] = c["expires"]
        if c.get("max_age") is not None:
            kw["max_age"] = c["max_age"]
        resp.set_cookie(c["name"], c["value"], **kw)
    for name in deletes:
        resp.delete_cookie(name)
    t1 = time.time()
    rq = gw.areq()
    if side == "wsgi":
        run = gw.call_wsgi(resp, rq)
        lines = [v for k, v in run.headers if k.lower() == "set-cookie"]
        raw = [v.encode("latin-1", "replace") for v in lines]
    else:
        run = gw.call_asgi(resp, rq)
        raw = [v for k, v in run.headers if k == b"set-cookie"]
        lines = [v.decode("latin-1") for v in raw]
    return lines, raw, t0, t1, run


def read_back(side, cookie_header):
    rq = gw.areq(headers=[["Cookie", cookie_header]])
    if side == "wsgi":
        return bwsgi.Request(gw.make_environ(rq)).cookies
    return basgi.Request(gw.make_scope(rq)).cookies


def split_line(line):
    """(pair, {attr-name-lower: value-or-None}) using the browser rule: the first ';' ends the pair."""
    pair, _, rest = line.partition(";")
    attrs = {}
    order = []
    for part in rest.split(";") if rest else []:
        k, eq, v = part.strip().partition("=")
        attrs[k.lower()] = v if eq else None
        order.append(k.lower())
    return pair, attrs, order


def check_cookie_line(r, side, c, line, raw, t0, t1, ctx, deleted=False):
    try:
        raw.decode("ascii")
    except UnicodeDecodeError:
        r.fail(f"C16:{side}:not-ascii", f"{ctx}: set-cookie line {raw!r} is not pure ASCII")
    if re.search(r"[\x00-\x1f\x7f]", line):
        r.fail(f"C16:{side}:control-char-in-line", f"{ctx}: {line!r}")
    pair, attrs, order = split_line(line)
    if not pair.startswith(c["name"] + "="):
        r.fail(f"C16:{side}:pair-name", f"{ctx}: pair {pair!r} does not start with {c['name']!r}=")
        return None
    # attributes
    if len(order) != len(set(order)):
        r.fail(f"C16:{side}:duplicate-attribute", f"{ctx}: {line!r}")
    want_expires = c.get("expires") is not None
    if ("expires" in attrs) != want_expires:
        r.fail(f"C16:{side}:expires-presence", f"{ctx}: expires requested={want_expires}, line {line!r}")
    elif want_expires:
        text = attrs["expires"] or ""
        if not _EXPIRES.match(text):
            r.fail(f"C16:{side}:expires-format", f"{ctx}: Expires text {text!r}")
        else:
            got = calendar.timegm(time.strptime(text, "%a, %d %b %Y %H:%M:%S GMT"))
            lo, hi = math.floor(t0 + c["expires"]), math.floor(t1 + c["expires"])
            if not (lo <= got <= hi):
                r.fail(
                    f"C16:{side}:expires-instant",
                    f"{ctx}: Expires {text!r} = {got}, expected within [{lo}, {hi}] (off by {got - lo} s) in TZ {os.environ.get('TZ')!r}",
                )
            if deleted and got > math.floor(t1):
                r.fail(f"C16:{side}:deleted-cookie-not-expired", f"{ctx}: Expires {text!r} lies in the future")
    ma = c.get("max_age")
    want_ma = ma is not None and ma > -1
    if ("max-age" in attrs) != want_ma:
        r.fail(f"C16:{side}:max-age-presence", f"{ctx}: max_age={ma!r}, line {line!r}")
    elif want_ma and attrs["max-age"] != str(ma):
        r.fail(f"C16:{side}:max-age-value", f"{ctx}: max-age={attrs['max-age']!r}, requested {ma}")
    if deleted and not ("max-age" in attrs and int(attrs["max-age"] or "1") <= 0):
        r.fail(f"C16:{side}:deleted-cookie-max-age", f"{ctx}: {line!r}")
    known = {"expires", "max-age", "domain", "path", "httponly", "secure", "samesite"}
    extra = [a for a in order if a not in known]
    if extra:
        r.fail(f"C16:{side}:smuggled-attribute", f"{ctx}: unexpected attributes {extra!r} in {line!r}")
    return pair


def oracle(case) -> Result:
    r = Result()
    cookies = case["cookies"]
    tz = case.get("tz", "UTC0")
    special = any(any(ch not in UNQUOTED_LEGAL for ch in c["value"]) or c["value"] == "" for c in cookies)
    r.nontrivial = special or (tz != "UTC0" and any(c.get("expires") is not None for c in cookies))
    r.label(f"tz={tz}", f"n={len(cookies)}")
    if special:
        r.label("needs-quoting")
    with _Zone(tz):
        for side in ("wsgi", "asgi"):
            lines, raw, t0, t1, run = emit(side, cookies)
            ctx = f"{side} cookies={cookies!r} tz={tz}"
            if run.exc is not None:
                r.fail(f"C16:{side}:response-raised:{type(run.exc).__name__}", f"{ctx}: {run.exc!r}")
                continue
            if len(lines) != len(cookies):
                r.fail(f"C16:{side}:line-count", f"{ctx}: {len(lines)} set-cookie lines: {lines!r}")
                continue
            pairs = []
            for c, line, rw in zip(cookies, lines, raw):
                pair = check_cookie_line(r, side, c, line, rw, t0, t1, ctx)
                pairs.append(pair)
            if any(p is None for p in pairs):
                continue
            # round trip: alone, and all together among foreign cookies
            for rside in ("wsgi", "asgi"):
                for c, pair in zip(cookies, pairs):
                    got = read_back(rside, pair)
                    if got.get(c["name"]) != c["value"] or len(got) != 1:
                        r.fail(
                            f"C16:roundtrip-alone:{side}->{rside}",
                            f"value {c['value']!r} serialised as {pair!r} reads back as {got!r}",
                        )
                header = "; ".join((["sessionid0=abc123"] if case.get("foreign") else []) + pairs + (['theme_pref="dark mode"', "zzzzzzzz1=1"] if case.get("foreign") else []))
                got = read_back(rside, header)
                for c in cookies:
                    if got.get(c["name"]) != c["value"]:
                        r.fail(
                            f"C16:roundtrip-among-others:{side}->{rside}",
                            f"Cookie header {header!r}: {c['name']!r} reads back as {got.get(c['name'])!r}, original {c['value']!r}",
                        )
                want_n = len(cookies) + (3 if case.get("foreign") else 0)
                if len(got) != want_n:
                    r.fail(f"C16:roundtrip-count:{side}->{rside}", f"Cookie header {header!r} yields {len(got)} cookies {got!r}, expected {want_n}")
    return r


def oracle_delete(case) -> Result:
    r = Result()
    tz = case["tz"]
    r.nontrivial = tz != "UTC0"
    r.label(f"tz={tz}")
    with _Zone(tz):
        for side in ("wsgi", "asgi"):
            lines, raw, t0, t1, run = emit(side, [], deletes=[case["name"]])
            ctx = f"{side} delete_cookie({case['name']!r}) tz={tz}"
            if len(lines) != 1:
                r.fail(f"C16:{side}:delete-line-count", f"{ctx}: {lines!r}")
                continue
            check_cookie_line(r, side, {"name": case["name"], "value": "", "expires": 0, "max_age": 0}, lines[0], raw[0], t0, t1, ctx, deleted=True)
    return r


SUBS = {"values": oracle, "cookies": oracle, "delete": oracle_delete}


def name_cases():
    """Several cookies on one response whose names differ only in letter case, or are prefixes of one another."""
    import itertools

    for group in (["sid", "SID"], ["SID", "sid"], ["Sid", "sid", "SID"], ["a", "ab"], ["ab", "a"], ["k", "k2", "K"], ["token", "Token", "tokens"], ["x-y", "X-Y"]):
        for values in (["1", "2", "3"], ['q"1', "", "a b"], ["same", "same", "same"]):
            for extra in ({}, {"expires": 60}, {"max_age": 0}):
                yield {"cookies": [dict({"name": n, "value": v}, **extra) for n, v in zip(group, values)], "tz": "UTC0", "foreign": bool(extra)}


def value_cases():
    for cp in range(256):
        ch = chr(cp)
        for pos, v in enumerate([ch, ch + ch, ch + "ab", "a" + ch + "b", "ab" + ch, '"' + ch + '"']):
            yield {"cookies": [{"name": "k", "value": v}], "tz": "UTC0", "foreign": pos % 2 == 0}


_name = st.text(alphabet=TOKEN_CHARS, min_size=1, max_size=6)
_hostile = st.sampled_from(
    ['"', "\\", ";", ",", "=", " ", "\t", "\x00", "\n", "\r", "\x7f", "\x80", "é", "ÿ", "a", "Z", "0", "\\073", "\\\\", '\\"', "%3B", ":", "/", "?", "@", "[", "{"]
)
_value = st.one_of(
    st.lists(_hostile, max_size=8).map("".join),
    st.text(alphabet=st.characters(min_codepoint=0, max_codepoint=255), max_size=10),
    st.sampled_from(['"a"', '"', '""', " a", "a ", " ", "", "\\073", '"\\073"', "a;b=c", "a, b", "=", "==", "a=b", "; Secure", "x\r\nSet-Cookie: y=z"]),
)


@st.composite
def cookie_case(draw):
    names = draw(st.lists(_name, min_size=1, max_size=4, unique=True))
    if draw(st.integers(0, 3)) == 0:
        # cookie names are case-sensitive, and one may be a prefix of another
        base = draw(st.sampled_from(names))
        for variant in draw(st.permutations([base.swapcase(), base.upper(), base.lower(), base + "x", base[:-1], base + base])):
            if variant and variant not in names and len(names) < 5:
                names.insert(draw(st.integers(0, len(names))), variant)
                if draw(st.booleans()):
                    break
    cookies = []
    for n in names:
        c = {"name": n, "value": draw(_value)}
        c["expires"] = draw(st.sampled_from([None, None, 0, 1, 3600, 86400 * 400, -5, 59, 86399]))
        c["max_age"] = draw(st.sampled_from([None, -1, 0, 1, 10**6, 3600]))
        cookies.append(c)
    return {"cookies": cookies, "tz": draw(st.sampled_from(ZONES)), "foreign": draw(st.booleans())}


def oracle_atheris(case) -> Result:
    """Replay / triage oracle for inputs found by the Atheris campaign: decode the bytes like the fuzz target does."""
    from fuzz import targets

    res = oracle(targets.CASES["C16"](case["data"]))
    res.label("atheris")
    return res


SUBS["atheris"] = oracle_atheris
SUBS["names"] = oracle


def run(rec, only=None):
    quick = rec.tier == "quick"
    core.drive_cases(rec, "values", value_cases(), oracle)
    rec.exhaustive["values"] = True
    core.drive_cases(rec, "names", name_cases(), oracle)
    rec.exhaustive["names"] = True
    core.drive_hypothesis(rec, "cookies", cookie_case(), oracle, 1200 if quick else 30000)
    core.drive_cases(rec, "delete", ({"tz": z, "name": n} for z in ZONES for n in ("session", "a.b")), oracle_delete)
    rec.exhaustive["cookies"] = False
    rec.exhaustive["delete"] = True
    if not quick:
        # coverage-guided second engine (Atheris / libFuzzer), same oracle inside the target
        from fuzz import driver

        driver.campaign(rec, "C16", oracle_atheris, runs=200000, seeds=[b"\x01\x00\x02ab=c;d", b"\x02\x01\x09\x03abc\r\n\x05hello"], max_total_time=120, jobs=4)
