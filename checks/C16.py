"""C16 - Cookies round-trip exactly and expire when asked."""
from __future__ import annotations

import calendar
import email.utils
import itertools
import math
import os
import re
import time

from hypothesis import strategies as st

import baize.asgi as basgi
import baize.wsgi as bwsgi

from harness import core, gateways as gw
from harness.core import Result

LEVEL = "exploration"
RULES = {
    "atheris": "thorough tier: Atheris/libFuzzer coverage-guided campaign; bytes are decoded into the same structured case and judged by the same oracle inside the target (half of the jobs start from an empty corpus, half from two small valid inputs)",
    "values": "exhaustive: every code point 0..255 as a cookie value in 6 positions (alone, doubled, start, middle, end of 'ab', "
    "between quotes) sent through both response classes and read back through both request classes alone and among foreign "
    "cookies; non-trivial = the character is outside the unquoted-legal set",
    "cookies": "Hypothesis: 1..4 cookies per response with token names (random, case/prefix variants, attribute-like and prefixed names), "
    "Latin-1 values weighted to quotes, backslashes, ';', ',', '=', blanks, controls and octal/quoted look-alikes, expires/max_age values "
    "from seconds to 136 years, path/domain/secure/httponly/samesite options and a process time zone (POSIX TZ strings east/west of "
    "UTC, DST north and south, +5:45, half-hour DST); non-trivial = a value with a character outside the unquoted-legal set, or a non-UTC zone with expires given",
    "delete": "delete_cookie under every zone: emitted cookie already expired (Max-Age <= 0 and Expires <= now)",
    "names": "enumerated: cookie sets whose names differ only in letter case / are prefixes of one another; every token character alone, "
    "first, last, inside and doubled in a name; names spelled like Set-Cookie attributes, RFC 2109 '$' attributes, __Host-/__Secure- "
    "prefixes, percent escapes, numbers, 64..300 characters - alone, all together on one response, with and without attributes",
    "calendar": "enumerated: expires chosen so that now+expires lands on a fixed grid of instants (every hour of a day, every day of a month, "
    "every month, month and year boundaries incl. the ISO-week-year days, leap days 2028/2100, 2038-01-19 and 2106 roll-overs, DST switch "
    "seconds, 1970, 2999), each under UTC and rotating zones; the Expires text must be the RFC 1123 spelling (weekday and month names included) "
    "of an instant inside the bracket; non-trivial = always",
    "attrs": "enumerated grid expires x max_age (None, negative, 0, seconds, 400 days +-1 s, 800 days, 10/20 years, 2^31, 2^32+5; max_age up to 2^40) "
    "with rotating path/domain/secure/httponly/samesite options and zones; non-trivial = expires or max_age given",
    "ops": "enumerated histories on ONE response object (set / delete / wait / send, change and send again): set then delete of one name and the reverse, deletes of one "
    "name under different paths or domains, deletes with every option, deletes of every one-character token name and of the attribute-like "
    "names, deletes between sets, real waits of 1.05 s between construction, set_cookie and delete_cookie; every delete must emit an expired "
    "line for its (name, path, domain), the last line of every cookie identity must be its last operation; through every response class",
    "ops_rand": "Hypothesis: random histories of 1..8 set / delete / send operations on one response object over six names (case variants, "
    "an attribute-like name) and eight option sets, so that cookie identities coincide now and then; judged like 'ops'; non-trivial = always",
    "long": "enumerated sizes: values of 63..16384 characters (legal only, one special character at the start / after 64 / 4096 / at the end, "
    "all escaped), 21..120 cookies on one response, 60..400 foreign cookies before / after / around (Cookie header up to ~20 kB); foreign cookies "
    "carry raw 8-bit values, UTF-8 bytes, '=' inside values, empty values and a bare word without '='",
    "pairs": "enumerated: all ordered pairs over 53 hostile characters, each hostile character followed by three octal digits, runs of 3..5 "
    "equal hostile characters (thorough tier: all 65536 ordered pairs of code points)",
    "classes": "enumerated: the same cookie sets on every response class (Response with status 200/204/304/404/500, PlainText incl. 401, HTML, JSON, Redirect, Stream, File incl. 206 and 416 answers)",
}
ASSUMPTIONS = [
    "the Expires text is compared with a [floor(t0+e), floor(t1+e)] bracket taken around the call, so the oracle does not depend on how the code reads the clock "
    "(1 microsecond is added to the upper end: datetime.fromtimestamp rounds to the nearest microsecond)",
    "cookie names within one response are distinct (with duplicates the last one wins on the request side); in the 'ops' histories a cookie identity "
    "(name, path, domain) that is set/deleted more than once may be emitted once or once per operation, the last line must be the last operation",
    "waits in 'ops' are real sleeps (3 cases, about 1 s each): a slow machine only widens the bracket",
]

ZONES = [
    "UTC0", "CST-8", "EST5EDT,M3.2.0,M11.1.0", "NPT-5:45", "WST-13", "GMT0BST,M3.5.0/1,M10.5.0", "HST10", "Asia/Shanghai", "America/New_York",
    "AEST-10AEDT,M10.1.0,M4.1.0/3", "LHST-10:30LHDT-11,M10.1.0,M4.1.0", "NST3:30NDT,M3.2.0,M11.1.0", "<+14>-14", "<-12>12",
]
DST_ZONES = ["EST5EDT,M3.2.0,M11.1.0", "GMT0BST,M3.5.0/1,M10.5.0", "America/New_York", "AEST-10AEDT,M10.1.0,M4.1.0/3", "LHST-10:30LHDT-11,M10.1.0,M4.1.0", "NST3:30NDT,M3.2.0,M11.1.0"]
TOKEN_CHARS = "!#$%&'*+-.^_`|~0123456789ABCDEFGHIJKLMNOPQRSTUVWXYZabcdefghijklmnopqrstuvwxyz"
UNQUOTED_LEGAL = set("!#$%&'*+-.^_`|~:0123456789ABCDEFGHIJKLMNOPQRSTUVWXYZabcdefghijklmnopqrstuvwxyz")
_EXPIRES = re.compile(r"^[A-Z][a-z]{2}, [0-9]{2} [A-Z][a-z]{2} [0-9]{4} [0-9]{2}:[0-9]{2}:[0-9]{2} GMT$")

# names a parser written for Set-Cookie / RFC 2109 might mistake for something else (all are HTTP tokens)
SPECIAL_NAMES = [
    "path", "Path", "PATH", "domain", "Domain", "expires", "Expires", "EXPIRES", "max-age", "Max-Age", "MAX-AGE", "secure", "Secure", "httponly", "HttpOnly",
    "samesite", "SameSite", "comment", "Comment", "version", "Version", "priority", "Priority", "partitioned", "Partitioned", "discard", "port", "commenturl",
    "$Version", "$Path", "$Domain", "$Port", "$", "$$x", "__Host-sid", "__Secure-sid", "__host-sid", "__Host-", "__Secure-", "__Http-x", "_", "__",
    "%20", "a%20b", "%3D", "a%3Db", "%", "%%", "%41", "0", "00", "007", "1e5", "-1", "+1", "0x10", "null", "None", "true", "undefined", "NaN", "Cookie", "Set-Cookie", "cookie2",
]
# foreign cookies never collide with generated names: generated names are shorter than 7 characters, enumerated ones never start with "frgn-"
_FOREIGN_VALUES = [
    "abc123", '"dark mode"', "dG9rZW4/+w==", "", "1", '"a\\054b"', "GA1.2.1234567890.1700000000", "a=b=c", "%7B%22k%22%3A1%7D", "x" * 40,
    # what other software (and document.cookie) really sends: raw 8-bit text, UTF-8 bytes, bytes that are not UTF-8
    "caf\xe9", "\xe6\x97\xa5\xe6\x9c\xac", "\xff\xfe", '"\xe9 \xff"',
]


class _Zone:
    def __init__(self, tz):
        self.tz = tz

    def __enter__(self):
        self.old = os.environ.get("TZ")
        os.environ["TZ"] = self.tz
        time.tzset()

    def __exit__(self, *a):
        if self.old is None:
            os.environ.pop("TZ", None)
        else:
            os.environ["TZ"] = self.old
        time.tzset()


# response classes: (recipe for harness.recipes.build_response, extra request headers)
KINDS = {
    "empty": ({"kind": "empty"}, []),
    "empty204": ({"kind": "empty", "status": 204}, []),
    "empty304": ({"kind": "empty", "status": 304}, []),
    "empty404": ({"kind": "empty", "status": 404}, []),
    "empty500": ({"kind": "empty", "status": 500}, []),
    "plain401": ({"kind": "plain", "content": "login first", "status": 401}, []),
    "plain": ({"kind": "plain", "content": "hello"}, []),
    "html": ({"kind": "html", "content": "<p>hello</p>"}, []),
    "json": ({"kind": "json", "content": {"a": [1, 2]}}, []),
    "redirect": ({"kind": "redirect", "url": "/next?x=1"}, []),
    "stream": ({"kind": "stream", "chunks": [b"ab", b"cd"]}, []),
    "file": ({"kind": "file", "size": 20}, []),
    "file206": ({"kind": "file", "size": 20}, [["Range", "bytes=2-5"]]),
    "file416": ({"kind": "file", "size": 20}, [["Range", "bytes=50-"]]),
}


def new_response(side, kind="empty"):
    if kind == "empty":
        return (bwsgi if side == "wsgi" else basgi).Response(200)
    from harness import recipes

    return recipes.build_response(dict(KINDS[kind][0]), side)


def resolve(c):
    """A cookie whose expiry is given as an absolute instant ('at', epoch seconds) asks for expires = at - floor(now)."""
    if c.get("at") is None:
        return c
    c = dict(c)
    c["expires"] = int(c["at"]) - math.floor(time.time())
    return c


def set_kwargs(c):
    kw = {}
    if c.get("expires") is not None:
        kw["expires"] = c["expires"]
    if c.get("max_age") is not None:
        kw["max_age"] = c["max_age"]
    kw.update(c.get("opts") or {})
    return kw


def send(side, resp, kind="empty"):
    """Send the response through the strict gateway -> (set-cookie lines as text, as bytes, run)."""
    rq = gw.areq(headers=KINDS[kind][1])
    if side == "wsgi":
        run = gw.call_wsgi(resp, rq)
        lines = [v for k, v in run.headers if k.lower() == "set-cookie"]
        raw = [v.encode("latin-1", "replace") for v in lines]
    else:
        run = gw.call_asgi(resp, rq)
        raw = [v for k, v in run.headers if k == b"set-cookie"]
        lines = [v.decode("latin-1") for v in raw]
    return lines, raw, run


def emit(side, cookies, deletes=(), kind="empty"):
    """Build a response, set the cookies, send it through the gateway -> (set-cookie lines, t0, t1, run)."""
    resp = new_response(side, kind)
    t0 = time.time()
    for c in cookies:
        resp.set_cookie(c["name"], c["value"], **set_kwargs(c))
    for name in deletes:
        resp.delete_cookie(name)
    t1 = time.time()
    lines, raw, run = send(side, resp, kind)
    return lines, raw, t0, t1, run


def read_back(side, cookie_header):
    rq = gw.areq(headers=[["Cookie", cookie_header]])
    if side == "wsgi":
        return bwsgi.Request(gw.make_environ(rq)).cookies
    return basgi.Request(gw.make_scope(rq)).cookies


def split_line(line):
    """(pair, {attr-name-lower: value-or-None}) using the browser rule: the first ';' ends the pair."""
    pair, _, rest = line.partition(";")
    attrs = {}
    order = []
    for part in rest.split(";") if rest else []:
        k, eq, v = part.strip().partition("=")
        attrs[k.lower()] = v if eq else None
        order.append(k.lower())
    return pair, attrs, order


def check_cookie_line(r, side, c, line, raw, t0, t1, ctx, deleted=False):
    try:
        raw.decode("ascii")
    except UnicodeDecodeError:
        r.fail(f"C16:{side}:not-ascii", f"{ctx}: set-cookie line {raw[:300]!r} is not pure ASCII")
    if re.search(r"[\x00-\x1f\x7f]", line):
        r.fail(f"C16:{side}:control-char-in-line", f"{ctx}: {line[:300]!r}")
    pair, attrs, order = split_line(line)
    if not pair.startswith(c["name"] + "="):
        r.fail(f"C16:{side}:pair-name", f"{ctx}: pair {pair[:300]!r} does not start with {c['name']!r}=")
        return None
    # attributes
    if len(order) != len(set(order)):
        r.fail(f"C16:{side}:duplicate-attribute", f"{ctx}: {line[:300]!r}")
    want_expires = c.get("expires") is not None
    if ("expires" in attrs) != want_expires:
        r.fail(f"C16:{side}:expires-presence", f"{ctx}: expires requested={want_expires}, line {line[:300]!r}")
    elif want_expires:
        text = attrs["expires"] or ""
        if not _EXPIRES.match(text):
            r.fail(f"C16:{side}:expires-format", f"{ctx}: Expires text {text!r}")
        else:
            try:
                got = calendar.timegm(time.strptime(text, "%a, %d %b %Y %H:%M:%S GMT"))
            except ValueError:
                got = None
                r.fail(f"C16:{side}:expires-format", f"{ctx}: Expires text {text!r} is not a date")
            if got is not None:
                # fromtimestamp() rounds to the nearest microsecond: one microsecond of slack at the upper end
                lo, hi = math.floor(t0 + c["expires"]), math.floor(t1 + c["expires"] + 1e-6)
                if not (lo <= got <= hi):
                    r.fail(
                        f"C16:{side}:expires-instant",
                        f"{ctx}: Expires {text!r} = {got}, expected within [{lo}, {hi}] (off by {got - lo} s) in TZ {os.environ.get('TZ')!r}",
                    )
                elif email.utils.formatdate(got, usegmt=True) != text:
                    # strptime ignores a weekday that contradicts the date: the text must be THE spelling of the instant it denotes
                    r.fail(
                        f"C16:{side}:expires-text-inconsistent",
                        f"{ctx}: Expires {text!r} is not the RFC 1123 date of its own instant {got} ({email.utils.formatdate(got, usegmt=True)!r})",
                    )
                if deleted and got > math.floor(t1 + 1e-6):
                    r.fail(f"C16:{side}:deleted-cookie-not-expired", f"{ctx}: Expires {text!r} lies in the future")
    ma = c.get("max_age")
    want_ma = ma is not None and ma > -1
    if ("max-age" in attrs) != want_ma:
        r.fail(f"C16:{side}:max-age-presence", f"{ctx}: max_age={ma!r}, line {line[:300]!r}")
    elif want_ma and attrs["max-age"] != str(ma):
        r.fail(f"C16:{side}:max-age-value", f"{ctx}: max-age={attrs['max-age']!r}, requested {ma}")
    if deleted and not ("max-age" in attrs and re.fullmatch(r"-?[0-9]+", attrs["max-age"] or "") and int(attrs["max-age"]) <= 0):
        r.fail(f"C16:{side}:deleted-cookie-max-age", f"{ctx}: {line[:300]!r}")
    known = {"expires", "max-age", "domain", "path", "httponly", "secure", "samesite"}
    extra = [a for a in order if a not in known]
    if extra:
        r.fail(f"C16:{side}:smuggled-attribute", f"{ctx}: unexpected attributes {extra!r} in {line[:300]!r}")
    return pair


def foreign_cookies(spec):
    """(before, after) lists of foreign name=value pairs.  spec: falsy | True (the historical three) | {"before": n, "after": m}."""
    if not spec:
        return [], []
    if spec is True:
        return ["sessionid0=abc123"], ['theme_pref="dark mode"', "zzzzzzzz1=1"]
    mk = lambda tag, i: f"frgn-{tag}-{i:04d}={_FOREIGN_VALUES[i % len(_FOREIGN_VALUES)]}"  # noqa: E731
    before, after = [mk("b", i) for i in range(spec.get("before", 0))], [mk("a", i) for i in range(spec.get("after", 0))]
    if spec.get("nameless"):
        # a cookie without '=' (document.cookie = "frgn-flag"): browsers send it back as a bare word; it is read as the value of the name ""
        before.append("frgn-flag")
    return before, after


def _short(x, n=400):
    s = repr(x)
    return s if len(s) <= n else s[: n // 2] + f"...({len(s)} chars)..." + s[-n // 2:]


def check_roundtrip(r, side, cookies, pairs, foreign, tag=""):
    """pairs[i] is the serialised name=value of cookies[i]: alone and all together among foreign cookies through both request stacks."""
    before, after = foreign_cookies(foreign)
    for rside in ("wsgi", "asgi"):
        for c, pair in zip(cookies, pairs):
            got = read_back(rside, pair)
            if got.get(c["name"]) != c["value"] or len(got) != 1:
                r.fail(
                    f"C16:roundtrip-alone:{side}->{rside}",
                    f"{tag}value {_short(c['value'])} serialised as {_short(pair)} reads back as {_short(got)}",
                )
        header = "; ".join(before + pairs + after)
        got = read_back(rside, header)
        for c in cookies:
            if got.get(c["name"]) != c["value"]:
                r.fail(
                    f"C16:roundtrip-among-others:{side}->{rside}",
                    f"{tag}Cookie header {_short(header)}: {c['name']!r} reads back as {_short(got.get(c['name']))}, original {_short(c['value'])}",
                )
        want_n = len(cookies) + len(before) + len(after)
        if len(got) != want_n:
            r.fail(f"C16:roundtrip-count:{side}->{rside}", f"{tag}Cookie header {_short(header)} yields {len(got)} cookies {_short(got)}, expected {want_n}")


def oracle(case) -> Result:
    r = Result()
    cookies = case["cookies"]
    tz = case.get("tz", "UTC0")
    kind = case.get("kind", "empty")
    special = any(any(ch not in UNQUOTED_LEGAL for ch in c["value"]) or c["value"] == "" for c in cookies)
    timed = any(c.get("expires") is not None or c.get("at") is not None for c in cookies)
    r.nontrivial = special or (tz != "UTC0" and timed) or bool(case.get("nt"))
    r.label(f"tz={tz}", f"n={len(cookies)}" if len(cookies) < 6 else "n>=6")
    if special:
        r.label("needs-quoting")
    if kind != "empty":
        r.label(f"kind={kind}")
    with _Zone(tz):
        for side in ("wsgi", "asgi"):
            cookies = [resolve(c) for c in case["cookies"]]
            lines, raw, t0, t1, run = emit(side, cookies, kind=kind)
            ctx = f"{side} cookies={_short(cookies)} tz={tz}" + (f" kind={kind}" if kind != "empty" else "")
            if run.exc is not None:
                r.fail(f"C16:{side}:response-raised:{type(run.exc).__name__}", f"{ctx}: {run.exc!r}")
                continue
            if len(lines) != len(cookies):
                r.fail(f"C16:{side}:line-count", f"{ctx}: {len(lines)} set-cookie lines: {_short(lines)}")
                continue
            pairs = []
            for c, line, rw in zip(cookies, lines, raw):
                pair = check_cookie_line(r, side, c, line, rw, t0, t1, ctx)
                pairs.append(pair)
            if any(p is None for p in pairs):
                continue
            # round trip: alone, and all together among foreign cookies
            check_roundtrip(r, side, cookies, pairs, case.get("foreign"))
    return r


def oracle_delete(case) -> Result:
    r = Result()
    tz = case["tz"]
    r.nontrivial = tz != "UTC0"
    r.label(f"tz={tz}")
    with _Zone(tz):
        for side in ("wsgi", "asgi"):
            lines, raw, t0, t1, run = emit(side, [], deletes=[case["name"]])
            ctx = f"{side} delete_cookie({case['name']!r}) tz={tz}"
            if len(lines) != 1:
                r.fail(f"C16:{side}:delete-line-count", f"{ctx}: {lines!r}")
                continue
            check_cookie_line(r, side, {"name": case["name"], "value": "", "expires": 0, "max_age": 0}, lines[0], raw[0], t0, t1, ctx, deleted=True)
    return r


def _identity(name, opts):
    """What identifies a cookie for a browser: name, Path and Domain as they will be emitted (set_cookie defaults: path='/', no domain)."""
    opts = opts or {}
    return (name, opts.get("path", "/") or None, opts.get("domain") or None)


def _judge_ops(r, side, calls_done, lines, raw, ctx, foreign):
    """Set-Cookie lines of one transmission against the set/delete calls made on the response object so far."""
    by_id = {}
    for op, t0, t1 in calls_done:
        by_id.setdefault(_identity(op["name"], op.get("opts")), []).append((op, t0, t1))
    got_id = {}
    for line, rw in zip(lines, raw):
        pair, attrs, _ = split_line(line)
        ident = (pair.partition("=")[0], attrs.get("path"), attrs.get("domain"))
        got_id.setdefault(ident, []).append((line, rw))
    stray = [k for k in got_id if k not in by_id]
    if stray:
        r.fail(f"C16:{side}:ops-stray-line", f"{ctx}: set-cookie lines for (name, path, domain) {stray!r} that no call asked for: {_short(lines)}")
    set_cookies, set_pairs = [], []
    for ident, calls in by_id.items():
        have = got_id.get(ident, [])
        last_is_delete = calls[-1][0]["op"] == "delete"
        if not have:
            bucket = "deleted-cookie-no-line" if last_is_delete else "ops-cookie-no-line"
            r.fail(f"C16:{side}:{bucket}", f"{ctx}: no set-cookie line for (name, path, domain) = {ident!r}: {_short(lines)}")
            continue
        if len(have) > len(calls):
            r.fail(f"C16:{side}:ops-line-count", f"{ctx}: {len(have)} lines for {ident!r} from {len(calls)} calls: {_short(lines)}")
            continue
        # one line per call, or (an implementation that replaces an earlier line of the same cookie) at least the last call
        todo = list(zip(calls, have)) if len(have) == len(calls) else [(calls[-1], have[-1])]
        for (op, t0, t1), (line, rw) in todo:
            if op["op"] == "delete":
                check_cookie_line(r, side, {"name": op["name"], "value": "", "expires": 0, "max_age": 0}, line, rw, t0, t1, ctx, deleted=True)
            else:
                pair = check_cookie_line(r, side, op, line, rw, t0, t1, ctx)
                if pair is not None and len(calls) == 1:
                    set_cookies.append(op)
                    set_pairs.append(pair)
    names = [c["name"] for c in set_cookies]
    if len(set(names)) == len(names) and set_cookies:
        check_roundtrip(r, side, set_cookies, set_pairs, foreign, tag="ops: ")


def oracle_ops(case) -> Result:
    """A history of set_cookie / delete_cookie calls, real waits and transmissions on ONE response object per side
    (a response object is an application: it may be sent, changed, and sent again)."""
    r = Result()
    tz = case.get("tz", "UTC0")
    kind = case.get("kind", "empty")
    ops = case["ops"]
    r.nontrivial = True
    r.label(f"tz={tz}", f"kind={kind}", "ops=" + "".join(o["op"][0] for o in ops)[:12])
    sides = ("wsgi", "asgi")
    with _Zone(tz):
        resp = {side: new_response(side, kind) for side in sides}
        done = {side: [] for side in sides}  # (op, t0, t1)
        for n, op in enumerate(list(ops) + [{"op": "send"}]):
            if op["op"] == "wait":
                time.sleep(op["seconds"])
                continue
            for side in sides:
                if op["op"] == "send":
                    lines, raw, run = send(side, resp[side], kind)
                    ctx = f"{side} ops={_short(ops)} tz={tz} kind={kind}" + ("" if n == len(ops) else f" transmission after {n} ops")
                    if run.exc is not None:
                        r.fail(f"C16:{side}:response-raised:{type(run.exc).__name__}", f"{ctx}: {run.exc!r}")
                        continue
                    _judge_ops(r, side, done[side], lines, raw, ctx, case.get("foreign"))
                    continue
                t0 = time.time()
                if op["op"] == "set":
                    resp[side].set_cookie(op["name"], op["value"], **set_kwargs(op))
                else:
                    resp[side].delete_cookie(op["name"], **(op.get("opts") or {}))
                done[side].append((op, t0, time.time()))
    return r


SUBS = {"values": oracle, "cookies": oracle, "delete": oracle_delete}


def name_cases():
    """Several cookies on one response whose names differ only in letter case, or are prefixes of one another;
    every token character in every position of a name; names that look like something else."""
    for group in (["sid", "SID"], ["SID", "sid"], ["Sid", "sid", "SID"], ["a", "ab"], ["ab", "a"], ["k", "k2", "K"], ["token", "Token", "tokens"], ["x-y", "X-Y"]):
        for values in (["1", "2", "3"], ['q"1', "", "a b"], ["same", "same", "same"]):
            for extra in ({}, {"expires": 60}, {"max_age": 0}):
                yield {"cookies": [dict({"name": n, "value": v}, **extra) for n, v in zip(group, values)], "tz": "UTC0", "foreign": bool(extra)}
    # every token character alone / first / last / inside / doubled
    for i, ch in enumerate(TOKEN_CHARS):
        names = [ch, ch + "a", "a" + ch, "a" + ch + "b", ch + ch]
        names = list(dict.fromkeys(names))
        yield {"cookies": [{"name": n, "value": ["v", "a b", ""][(i + j) % 3]} for j, n in enumerate(names)], "tz": "UTC0", "foreign": i % 2 == 0, "nt": True}
        yield {"cookies": [{"name": ch, "value": 'x;"y'}], "tz": "UTC0", "foreign": i % 2 == 1}
    # names that a Set-Cookie / RFC 2109 / prefix-aware parser might treat specially
    for i, n in enumerate(SPECIAL_NAMES):
        yield {"cookies": [{"name": n, "value": "v1"}], "tz": "UTC0", "foreign": False, "nt": True}
        yield {"cookies": [{"name": n, "value": "a b;c"}], "tz": "UTC0", "foreign": {"before": 2, "after": 1}}
        yield {"cookies": [{"name": "first", "value": "1"}, {"name": n, "value": "/", "expires": 3600, "max_age": 3600}, {"name": "last", "value": "2"}], "tz": ZONES[i % len(ZONES)], "foreign": {"before": 1, "after": 2}}
    for size in (12, len(SPECIAL_NAMES)):
        yield {"cookies": [{"name": n, "value": f"v{j}" if j % 3 else f"v {j}"} for j, n in enumerate(SPECIAL_NAMES[:size])], "tz": "UTC0", "foreign": True}
        yield {"cookies": [{"name": n, "value": f"v{j}"} for j, n in enumerate(reversed(SPECIAL_NAMES[:size]))], "tz": "UTC0", "foreign": False, "nt": True}
    # long names
    for n in (64, 65, 255, 256, 300):
        name = (TOKEN_CHARS * 4)[:n]
        yield {"cookies": [{"name": name, "value": "a;b"}, {"name": name[:-1], "value": "2"}, {"name": "n" * n, "value": ""}], "tz": "UTC0", "foreign": True}


def value_cases():
    for cp in range(256):
        ch = chr(cp)
        for pos, v in enumerate([ch, ch + ch, ch + "ab", "a" + ch + "b", "ab" + ch, '"' + ch + '"']):
            yield {"cookies": [{"name": "k", "value": v}], "tz": "UTC0", "foreign": pos % 2 == 0}


HOSTILE = list('"\\;,= \t\x00\n\r\x0b\x0c\x1f\x7f\x80\x85\xa0\xad\xe9\xff') + list("a0379:/?@[]{}()<>%+&'*!#$|~^`-._")


def pair_cases(full=False, k=0, nshards=1):
    """Two-character interactions (escapes next to escapes, a backslash in front of digits or quotes ...)."""
    if full:
        i = 0
        for a in range(256):
            for b in range(256):
                i += 1
                if i % nshards == k:
                    yield {"cookies": [{"name": "k", "value": chr(a) + chr(b)}, {"name": "k2", "value": "x" + chr(a) + chr(b) + "y"}], "tz": "UTC0", "foreign": (a + b) % 2 == 0}
        return
    for i, (a, b) in enumerate(itertools.product(HOSTILE, repeat=2)):
        yield {"cookies": [{"name": "k", "value": a + b}, {"name": "k2", "value": "x" + a + b + "y"}], "tz": "UTC0", "foreign": i % 2 == 0}
    for i, a in enumerate(HOSTILE):
        for digits in ("073", "000", "377", "189", "12", "0734"):
            yield {"cookies": [{"name": "k", "value": a + digits}, {"name": "k2", "value": a + a + digits + a}], "tz": "UTC0", "foreign": i % 2 == 0, "nt": True}
        for n in (3, 4, 5):
            yield {"cookies": [{"name": "k", "value": a * n}, {"name": "k2", "value": "p" + a * n + "q"}], "tz": "UTC0", "foreign": i % 2 == 1, "nt": True}


def pairs_shard(rec, k, nshards):
    g = core.guarded(oracle)
    for case in pair_cases(True, k, nshards):
        res = g(case)
        rec.count("pairs", case, res, want_sample=False)
        new, old = rec.split(res)
        rec.note_known(old)
        for f in new:
            rec.add_violation("pairs", f, case)
            rec.skip.add(f.bucket)


def _utc(y, mo, d, h=0, mi=0, s=0):
    return calendar.timegm((y, mo, d, h, mi, s, 0, 0, 0))


def calendar_instants():
    """Fixed instants (epoch seconds) that together show every hour, day of month, weekday, month, and the awkward ends of the calendar."""
    out = []
    out += [_utc(2031, 3, 5, h, 7, 9) for h in range(24)]  # every hour of a day (12-hour clocks, AM/PM)
    out += [_utc(2031, 1, d, 12, 34, 56) for d in range(1, 32)]  # every day of a month, every weekday (padding of the day)
    out += [_utc(2031, m, 15, 1, 2, 3) for m in range(1, 13)]  # every month name
    for m in range(1, 13):  # first second of every month and the second before it (a local date differs from the GMT date here)
        out += [_utc(2031, m, 1), _utc(2031, m, 1) - 1]
    out += [_utc(2031, 12, d, 12) for d in (28, 29, 30, 31)] + [_utc(2032, 1, d, 12) for d in (1, 2, 3, 4)]  # ISO year 2032 starts on 2031-12-29
    out += [_utc(2026, 12, 31, 23, 59, 59), _utc(2027, 1, 1), _utc(2027, 1, 3, 23, 59, 59), _utc(2027, 1, 4)]  # ISO year 2026 lasts until 2027-01-03
    out += [_utc(2028, 2, 28, 23, 59, 59), _utc(2028, 2, 29), _utc(2028, 2, 29, 23, 59, 59), _utc(2028, 3, 1)]  # leap year
    out += [_utc(2100, 2, 28, 23, 59, 59), _utc(2100, 3, 1), _utc(2100, 12, 31, 23, 59, 59)]  # 2100 is not a leap year
    out += [2**31 - 1, 2**31, 2**31 + 1, 2**32 - 1, 2**32, 2**32 + 1]  # 2038-01-19 03:14:08 and 2106-02-07 06:28:16
    out += [0, 1, 86399, 86400, _utc(1999, 12, 31, 23, 59, 59), _utc(2000, 2, 29, 12), _utc(2001, 9, 9, 1, 46, 40)]
    out += [_utc(2999, 12, 31, 23, 59, 59)]
    return out


def dst_instants():
    """The seconds around DST switches of the zones in DST_ZONES (2031)."""
    out = []
    for base in (
        _utc(2031, 3, 9, 7), _utc(2031, 11, 2, 6),  # US: 02:00 local
        _utc(2031, 3, 9, 5, 30), _utc(2031, 11, 2, 4, 30),  # Newfoundland
        _utc(2031, 3, 30, 1), _utc(2031, 10, 26, 1),  # UK
        _utc(2031, 10, 4, 16), _utc(2031, 4, 5, 16),  # eastern Australia
        _utc(2031, 10, 4, 15, 30), _utc(2031, 4, 5, 15),  # Lord Howe
    ):
        out += [base - 1, base, base + 3599, base + 3600]
    return out


def calendar_cases():
    others = [z for z in ZONES if z != "UTC0"]
    for i, at in enumerate(calendar_instants()):
        for tz in ("UTC0", others[i % len(others)], others[(i * 5 + 3) % len(others)]):
            yield {"cookies": [{"name": "k", "value": "v", "at": at}], "tz": tz, "foreign": False, "nt": True}
    for i, at in enumerate(dst_instants()):
        for tz in DST_ZONES:
            yield {"cookies": [{"name": "k", "value": "v", "at": at, "max_age": 60}], "tz": tz, "foreign": False, "nt": True}
    # intervals of 1..13 months from now: in a DST zone some of them cross exactly one switch, whatever the date of the run
    for tz in DST_ZONES + ["UTC0", "CST-8"]:
        yield {"cookies": [{"name": f"m{k}", "value": "v", "expires": k * 30 * 86400 + 3601} for k in range(0, 14)], "tz": tz, "foreign": False, "nt": True}
        yield {"cookies": [{"name": f"h{k}", "value": "v", "expires": k * 3600 + 61} for k in range(0, 25)], "tz": tz, "foreign": False, "nt": True}


OPTS = [
    {},
    {"path": "/app/x"},
    {"domain": "example.com"},
    {"path": "", "domain": ".example.com", "secure": True},
    {"httponly": True, "samesite": "strict"},
    {"secure": True, "samesite": "none", "path": "/"},
    {"path": "/a b", "domain": "sub.example.co.uk", "secure": True, "httponly": True, "samesite": "lax"},
]
EXPIRES_GRID = [None, 0, 1, -5, -3 * 86400, 59, 3600, 86399, 400 * 86400, 400 * 86400 + 1, 800 * 86400, 315360000, 630720000, 10**9, 2**31, 2**32 + 5]
MAX_AGE_GRID = [None, -1, 0, 1, 59, 3600, 10**6, 34560000, 34560001, 10**8, 2**31 - 1, 2**31, 2**40]


def attr_cases():
    i = 0
    for e in EXPIRES_GRID:
        for ma in MAX_AGE_GRID:
            i += 1
            c = {"name": "k", "value": ["v", "a b", ""][i % 3], "expires": e, "max_age": ma, "opts": OPTS[i % len(OPTS)]}
            yield {"cookies": [c], "tz": ZONES[i % len(ZONES)], "foreign": i % 2 == 0, "nt": e is not None or ma is not None}
    # every option set with every samesite value, several cookies with different options on one response
    for j, o in enumerate(OPTS):
        for ss in ("strict", "lax", "none"):
            oo = dict(o, samesite=ss)
            yield {"cookies": [{"name": "a", "value": "1", "opts": oo}, {"name": "b", "value": 'q"', "expires": 3600, "max_age": 7200, "opts": oo}, {"name": "c", "value": "3", "max_age": 0, "opts": OPTS[(j + 1) % len(OPTS)]}],
                   "tz": ZONES[(j * 3) % len(ZONES)], "foreign": True, "nt": True}


def _set(name, value="v", **kw):
    return dict({"op": "set", "name": name, "value": value}, **kw)


def _del(name, **opts):
    return {"op": "delete", "name": name, "opts": opts} if opts else {"op": "delete", "name": name}


def _wait(s=1.05):
    return {"op": "wait", "seconds": s}


def ops_cases(quick=True):
    zs = ["UTC0", "CST-8", "HST10", "EST5EDT,M3.2.0,M11.1.0"]
    basic = [
        [_set("a"), _del("a")],
        [_del("a"), _set("a", "again")],
        [_set("a"), _set("b", "x y"), _del("a")],
        [_set("a"), _set("b", "x y"), _del("b")],
        [_set("a", 'q"', expires=60), _del("gone"), _set("b", "", max_age=0)],
        [_del("a"), _del("b")],
        [_del("a"), _del("a")],
        [_del("sid", path="/x"), _del("sid", path="/y")],
        [_del("sid"), _del("sid", path="/y"), _del("sid", domain="example.com")],
        [_del("sid", domain="a.example"), _del("sid", domain="b.example")],
        [_set("sid", "1", opts={"path": "/x"}), _del("sid", path="/y")],
        [_set("sid", "1", opts={"path": "/x"}), _del("sid", path="/x"), _set("other", "a;b")],
        [_set("sid", "1", max_age=0), _del("sid", path="/y")],
        [_set("a", "1", max_age=0, expires=0), _del("b")],
        [_set("SID", "1"), _del("sid")],
        [_del("sid"), _set("SID", "1"), _set("Sid", "2")],
        [_set(f"c{i}", f"v {i}") for i in range(6)] + [_del("c3"), _del("c9")],
    ]
    for i, ops in enumerate(basic):
        for z in (zs if len(ops) < 4 else zs[:2]):
            yield {"ops": ops, "tz": z, "foreign": i % 2 == 0}
    # deletion with every option, under every zone in turn
    for i, o in enumerate(OPTS):
        for ss in (None, "strict", "lax", "none"):
            oo = dict(o) if ss is None else dict(o, samesite=ss)
            yield {"ops": [_set("keep", "1"), _del("sid", **oo), _set("keep2", "2", opts=oo)], "tz": ZONES[(i * 4 + (0 if ss is None else len(ss))) % len(ZONES)], "foreign": False}
    # deletion of every one-character token name and of the special names
    for i, ch in enumerate(TOKEN_CHARS):
        yield {"ops": [_del(ch), _del(ch + ch, path="/p")], "tz": ZONES[i % len(ZONES)]}
    for i, n in enumerate(SPECIAL_NAMES):
        yield {"ops": [_set("x" + n, "1"), _del(n)], "tz": ZONES[i % len(ZONES)]}
    # the response object is sent, changed and sent again (a response is a reusable application)
    snd = {"op": "send"}
    for i, ops in enumerate([
        [_set("a", "1"), snd, _set("b", "x y", expires=60)],
        [snd, _set("a", "1", max_age=10), snd, _del("a"), snd],
        [_del("gone"), snd, snd, _set("b", 'q"'), _del("b2", path="/p")],
        [_set("a", "1"), _set("b", "2"), snd, _set("c", "3"), snd, _set("d", "4")],
    ]):
        yield {"ops": ops, "tz": zs[i % len(zs)], "foreign": {"before": 6, "after": 2, "nameless": True}}
    # time passes between construction of the response, set_cookie and delete_cookie
    yield {"ops": [_wait(), _set("a", "1", expires=0), _del("d1"), _wait(), _set("b", "2", expires=0, max_age=5), _del("d2"), _set("c", "3", expires=3600)], "tz": "UTC0"}
    yield {"ops": [_wait(), _del("d1"), _set("a", "1", expires=7)], "tz": "CST-8"}
    yield {"ops": [_set("a", "1", expires=7), _wait(), _del("d1", path="/x"), _set("b", "2", expires=7)], "tz": "EST5EDT,M3.2.0,M11.1.0"}
    # through every response class
    for kind in KINDS:
        if kind == "empty":
            continue
        yield {"ops": [_set("a", 'x;"y', expires=60, max_age=60), _del("gone"), _set("b", "\xe9")], "tz": "UTC0", "kind": kind, "foreign": True}
        yield {"ops": [_set("a"), _del("a")], "tz": "CST-8", "kind": kind}
    if not quick:
        for z in ZONES:
            for i, ops in enumerate(basic):
                for kind in KINDS:
                    yield {"ops": ops, "tz": z, "kind": kind, "foreign": i % 2 == 1}


def long_cases(quick=True):
    sizes = (63, 64, 65, 255, 256, 1023, 1024, 4095, 4096, 4097, 5000, 8192, 16384)
    for i, n in enumerate(sizes):
        body = (TOKEN_CHARS * (n // len(TOKEN_CHARS) + 1))[:n]
        yield {"cookies": [{"name": "k", "value": body}], "tz": "UTC0", "foreign": i % 2 == 0, "nt": True}
        for sp in (";", '"', "\\", " ", "\n", "\xff"):
            vals = [body + sp, sp + body, body[:64] + sp + body[64:], body[: n // 2] + sp + sp + body[n // 2:]]
            if n > 4097:
                vals.append(body[:4096] + sp + body[4096:])
            yield {"cookies": [{"name": f"k{j}", "value": v} for j, v in enumerate(vals)], "tz": "UTC0", "foreign": i % 2 == 1}
    for n in (100, 1000, 1366, 4096):
        yield {"cookies": [{"name": "k", "value": "\xe9" * n}, {"name": "k2", "value": ('\\"; ,' * n)[:n]}], "tz": "UTC0", "foreign": True}
    # many cookies on one response
    for n in (21, 50, 120):
        yield {"cookies": [{"name": f"c{j}", "value": [f"v{j}", f"v {j}", f'"{j}"', ""][j % 4], "expires": 60 * j if j % 5 == 0 else None, "max_age": j if j % 7 == 0 else None} for j in range(n)],
               "tz": "CST-8", "foreign": n == 50}
    # many foreign cookies around ours
    for before, after in ((60, 0), (0, 60), (30, 30), (51, 1), (200, 200)):
        yield {"cookies": [{"name": "k", "value": "a b"}, {"name": "k2", "value": "plain"}], "tz": "UTC0", "foreign": {"before": before, "after": after}}
        yield {"cookies": [{"name": "k", "value": "\xe9;"}], "tz": "UTC0", "foreign": {"before": before, "after": after, "nameless": True}}
    for before, after in ((0, 0), (1, 0), (0, 1), (14, 14)):
        yield {"cookies": [{"name": "k", "value": "a b"}, {"name": "k2", "value": "plain"}], "tz": "UTC0", "foreign": {"before": before, "after": after, "nameless": True}}
    yield {"cookies": [{"name": "k", "value": "x" * 3000 + ";"}, {"name": "k2", "value": "plain"}], "tz": "UTC0", "foreign": {"before": 150, "after": 150}}


def class_cases():
    sets = [
        [{"name": "sid", "value": "abc"}],
        [{"name": "a", "value": 'x;"y\\', "expires": 3600, "max_age": 3600}, {"name": "b", "value": "\xe9\xff\x00"}, {"name": "c", "value": "", "max_age": 0}],
        [{"name": "a", "value": " lead", "opts": {"path": "/p", "domain": "example.com", "secure": True, "httponly": True, "samesite": "none"}}, {"name": "A", "value": "trail ", "expires": -5}],
    ]
    for kind in KINDS:
        for i, cs in enumerate(sets):
            yield {"cookies": cs, "tz": ["UTC0", "CST-8", "EST5EDT,M3.2.0,M11.1.0"][i], "foreign": i != 0, "kind": kind, "nt": True}


_name = st.text(alphabet=TOKEN_CHARS, min_size=1, max_size=6)
_hostile = st.sampled_from(
    ['"', "\\", ";", ",", "=", " ", "\t", "\x00", "\n", "\r", "\x7f", "\x80", "é", "ÿ", "a", "Z", "0", "\\073", "\\\\", '\\"', "%3B", ":", "/", "?", "@", "[", "{"]
)
_value = st.one_of(
    st.lists(_hostile, max_size=8).map("".join),
    st.text(alphabet=st.characters(min_codepoint=0, max_codepoint=255), max_size=10),
    st.sampled_from(['"a"', '"', '""', " a", "a ", " ", "", "\\073", '"\\073"', "a;b=c", "a, b", "=", "==", "a=b", "; Secure", "x\r\nSet-Cookie: y=z"]),
)
_opts = st.one_of(
    st.just(None),
    st.just(None),
    st.sampled_from(OPTS[1:]),
    st.fixed_dictionaries(
        {},
        optional={
            "path": st.sampled_from(["/", "/app", "", "/a/b/"]),
            "domain": st.sampled_from(["example.com", ".example.com", "localhost"]),
            "secure": st.booleans(),
            "httponly": st.booleans(),
            "samesite": st.sampled_from(["strict", "lax", "none"]),
        },
    ),
)


@st.composite
def cookie_case(draw):
    names = draw(st.lists(_name, min_size=1, max_size=4, unique=True))
    if draw(st.integers(0, 3)) == 0:
        # cookie names are case-sensitive, and one may be a prefix of another
        base = draw(st.sampled_from(names))
        for variant in draw(st.permutations([base.swapcase(), base.upper(), base.lower(), base + "x", base[:-1], base + base])):
            if variant and variant not in names and len(names) < 5:
                names.insert(draw(st.integers(0, len(names))), variant)
                if draw(st.booleans()):
                    break
    if draw(st.integers(0, 5)) == 0:
        special = draw(st.sampled_from(SPECIAL_NAMES))
        if special not in names:
            names.insert(draw(st.integers(0, len(names))), special)
    cookies = []
    for n in names:
        c = {"name": n, "value": draw(_value)}
        c["expires"] = draw(st.sampled_from([None, None, 0, 1, 3600, 86400 * 400, -5, 59, 86399, 86400 * 30, 86400 * 200, 86400 * 800, 315360000, 2**31, -86400 * 30]))
        c["max_age"] = draw(st.sampled_from([None, -1, 0, 1, 10**6, 3600, 34560001, 2**31, 2**40]))
        o = draw(_opts)
        if o:
            c["opts"] = o
        cookies.append(c)
    return {"cookies": cookies, "tz": draw(st.sampled_from(ZONES)), "foreign": draw(st.booleans())}


@st.composite
def ops_case(draw):
    """Random histories on one response object: a few names (case variants, an attribute-like one), a few option sets so that cookie
    identities coincide now and then, transmissions in between."""
    names = st.sampled_from(["a", "b", "A", "sid", "path", "k.1"])
    opts = st.sampled_from([None, None, None, {"path": "/x"}, {"path": "/y"}, {"domain": "example.com"}, {"path": "", "secure": True}, {"samesite": "none", "httponly": True}])
    ops = []
    for _ in range(draw(st.integers(1, 8))):
        what = draw(st.sampled_from(["set", "set", "set", "delete", "delete", "send"]))
        if what == "send":
            ops.append({"op": "send"})
            continue
        op = {"op": what, "name": draw(names)}
        o = draw(opts)
        if o:
            op["opts"] = o
        if what == "set":
            op["value"] = draw(_value)
            op["expires"] = draw(st.sampled_from([None, None, 0, 60, -5, 86400 * 800]))
            op["max_age"] = draw(st.sampled_from([None, None, -1, 0, 5, 2**31]))
        ops.append(op)
    return {"ops": ops, "tz": draw(st.sampled_from(ZONES)), "foreign": draw(st.sampled_from([False, True, {"before": 12, "after": 3, "nameless": True}]))}


def oracle_atheris(case) -> Result:
    """Replay / triage oracle for inputs found by the Atheris campaign: decode the bytes like the fuzz target does."""
    from fuzz import targets

    res = oracle(targets.CASES["C16"](case["data"]))
    res.label("atheris")
    return res


SUBS["atheris"] = oracle_atheris
SUBS["names"] = oracle
SUBS["calendar"] = oracle
SUBS["attrs"] = oracle
SUBS["long"] = oracle
SUBS["pairs"] = oracle
SUBS["classes"] = oracle
SUBS["ops"] = oracle_ops
SUBS["ops_rand"] = oracle_ops


def run(rec, only=None):
    quick = rec.tier == "quick"
    core.drive_cases(rec, "values", value_cases(), oracle)
    rec.exhaustive["values"] = True
    core.drive_cases(rec, "names", name_cases(), oracle)
    rec.exhaustive["names"] = True
    core.drive_cases(rec, "calendar", calendar_cases(), oracle)
    rec.exhaustive["calendar"] = True
    core.drive_cases(rec, "attrs", attr_cases(), oracle)
    rec.exhaustive["attrs"] = True
    core.drive_cases(rec, "ops", ops_cases(quick), oracle_ops)
    rec.exhaustive["ops"] = True
    core.drive_cases(rec, "long", long_cases(quick), oracle)
    rec.exhaustive["long"] = True
    core.drive_cases(rec, "classes", class_cases(), oracle)
    rec.exhaustive["classes"] = True
    core.drive_cases(rec, "pairs", pair_cases(), oracle, sample=False)
    if not quick and (only is None or "pairs" in only):
        core.run_sharded(rec, pairs_shard, 32, core.ncpu())
    rec.exhaustive["pairs"] = True
    core.drive_hypothesis(rec, "cookies", cookie_case(), oracle, 1200 if quick else 30000)
    core.drive_hypothesis(rec, "ops_rand", ops_case(), oracle_ops, 400 if quick else 12000, seed_offset=1)
    rec.exhaustive["ops_rand"] = False
    core.drive_cases(rec, "delete", ({"tz": z, "name": n} for z in ZONES for n in ("session", "a.b")), oracle_delete)
    rec.exhaustive["cookies"] = False
    rec.exhaustive["delete"] = True
    if not quick:
        # coverage-guided second engine (Atheris / libFuzzer), same oracle inside the target
        from fuzz import driver

        driver.campaign(rec, "C16", oracle_atheris, runs=200000, seeds=[b"\x01\x00\x02ab=c;d", b"\x02\x01\x09\x03abc\r\n\x05hello"], max_total_time=120, jobs=4)
