"""C19 - Server-sent events reach the client as they were yielded."""
from __future__ import annotations

import asyncio
import time

from hypothesis import strategies as st

import baize.asgi as basgi
import baize.wsgi as bwsgi
from baize.responses import build_bytes_from_sse

from harness import core, gateways as gw, vtime
from harness.core import Result
from harness.refs import sse as ref

LEVEL = "exploration"
RULES = {
    "atheris": "thorough tier: Atheris/libFuzzer coverage-guided campaign; bytes are decoded into the same structured case and judged by the same oracle inside the target (half of the jobs start from an empty corpus, half from two small valid inputs)",
    "block": "Hypothesis: sequences of 1..5 event dicts (any subset of data/event/id/retry in any key order; data over full Unicode "
    "weighted to CR, LF, CRLF, VT, FF, FS/GS/RS, NEL, LS, PS, empty lines, leading spaces/colons; 4 charsets) encoded with "
    "build_bytes_from_sse, concatenated with ping comments in between, decoded and parsed with an independent WHATWG "
    "event-stream parser; non-trivial = some data contains a line/paragraph separator of any kind or a leading space/colon",
    "sep": "exhaustive: every separator-like code point (CR LF VT FF FS GS RS NEL LS PS, TAB, NUL, BOM, space, colon) at the start, "
    "middle and end of a data string and doubled, alone and combined pairwise",
    "asgi": "the same events sent by baize.asgi.SendEventResponse through the ASGI gateway on a virtual-time loop, with producer "
    "delays around the ping interval so that pings are interleaved; headers checked; non-trivial as for block, or a ping occurred",
    "wsgi_slow": "enumerated: 2..8 ready events through baize.wsgi.SendEventResponse with a 20 ms ping interval while the server stalls for 150-250 ms "
    "(many ping intervals) after taking the first or second item: every yielded event must still arrive once, in order",
    "wsgi": "the same through baize.wsgi.SendEventResponse and the WSGI gateway (real relay thread; a labelled minority of cases "
    "sleeps past a 20 ms ping interval)",
}
ASSUMPTIONS = [
    "a trailing line terminator of data may or may not yield a final empty line",
    "an event without data (or with data == '') dispatches nothing under the standard; one event with empty data is accepted as well; "
    "its id/retry still take effect for later events",
    "event names and ids are single-line (no CR/LF) and contain no NUL",
]

SEPS = ["\r", "\n", "\r\n", "\x0b", "\x0c", "\x1c", "\x1d", "\x1e", "\x85", " ", " "]
PING = b": ping\n\n"


def encodable(s: str, charset: str) -> bool:
    try:
        return s.encode(charset).decode(charset) == s
    except (UnicodeEncodeError, UnicodeDecodeError):
        return False


def expected_stream(events):
    """List of expectations, one per yielded event: dict(kind='event'|'optional', type, ids, datas)."""
    cur_id, cur_retry = "", None
    out = []
    for ev in events:
        if "id" in ev:
            cur_id = str(ev["id"])
        if "retry" in ev:
            cur_retry = int(ev["retry"])
        typ = str(ev.get("event", "")) or "message"
        data = ev.get("data")
        if data is None or data == "":
            out.append({"kind": "optional", "type": typ, "id": cur_id, "retry": cur_retry, "datas": [""]})
        else:
            lines = ref.data_lines(data)
            datas = ["\n".join(lines)]
            if lines and lines[-1] == "":
                datas.append("\n".join(lines[:-1]))
            out.append({"kind": "event", "type": typ, "id": cur_id, "retry": cur_retry, "datas": datas})
    return out


def match(expected, actual):
    """Sequential match with optional elements; returns None or a description of the mismatch."""

    def fits(e, a):
        return a["type"] == e["type"] and a["last_event_id"] == e["id"] and a["retry"] == e["retry"] and a["data"] in e["datas"]

    memo = {}

    def rec(i, j):
        key = (i, j)
        if key in memo:
            return memo[key]
        if i == len(expected):
            res = j == len(actual)
        else:
            e = expected[i]
            res = False
            if j < len(actual) and fits(e, actual[j]) and rec(i + 1, j + 1):
                res = True
            elif e["kind"] == "optional" and rec(i + 1, j):
                res = True
        memo[key] = res
        return res

    if rec(0, 0):
        return None
    # locate the first divergence for the message (greedy)
    j = 0
    for i, e in enumerate(expected):
        if j < len(actual) and fits(e, actual[j]):
            j += 1
        elif e["kind"] == "optional":
            continue
        else:
            got = actual[j] if j < len(actual) else None
            return f"yielded event #{i}: expected one dispatched event type={e['type']!r} id={e['id']!r} retry={e['retry']!r} data in {e['datas']!r}, parser dispatched {got!r}"
    return f"{len(actual) - j} extra dispatched event(s): {actual[j:]!r}"


def judge(r: Result, where: str, events, charset, body: bytes) -> None:
    try:
        text = body.decode(charset)
    except UnicodeDecodeError as exc:
        r.fail(f"C19:{where}:undecodable", f"body {body!r} not decodable as {charset}: {exc}")
        return
    actual = ref.parse(text)
    problem = match(expected_stream(events), actual)
    if problem:
        kind = "data"
        seps = {ch for ev in events for ch in str(ev.get("data", "")) if ch in "\x0b\x0c\x1c\x1d\x1e\x85  "}
        if seps:
            kind = "unicode-line-separator"
        r.fail(f"C19:{where}:{kind}", f"charset {charset}, events {events!r}: {problem}; wire {body!r}")


def classify(r: Result, events, charset) -> None:
    nt = False
    for ev in events:
        d = str(ev.get("data", ""))
        if any(s in d for s in SEPS) or d.startswith((" ", ":")) or "\n " in d or "\n:" in d:
            nt = True
        if "data" not in ev or d == "":
            r.label("data-less-event")
    r.nontrivial = nt
    r.label(f"charset={charset}", f"events={len(events)}")
    if nt:
        r.label("has-separator")


def copy_events(events):
    return [dict(ev) for ev in events]


def oracle_block(case) -> Result:
    r = Result()
    events, charset = case["events"], case["charset"]
    classify(r, events, charset)
    chunks = []
    for i, ev in enumerate(copy_events(events)):
        blk = build_bytes_from_sse(ev, charset)
        if type(blk) is not bytes:
            r.fail("C19:block:not-bytes", f"{type(blk).__name__}")
            return r
        chunks.append(blk)
        if case.get("pings") and i in case["pings"]:
            chunks.append(PING)
    judge(r, "block", events, charset, b"".join(chunks))
    return r


def check_headers(r: Result, where: str, get, charset) -> None:
    ct = get("content-type")
    if ct is None or ct.replace(" ", "").lower() != f"text/event-stream;charset={charset}".lower():
        r.fail(f"C19:{where}:content-type", f"content-type {ct!r}, expected text/event-stream; charset={charset}")
    cc = get("cache-control")
    if cc is None or "no-cache" not in cc.lower():
        r.fail(f"C19:{where}:cache-control", f"cache-control {cc!r}")


def _ctor_extras(case):
    """Optional constructor arguments that must not change what is announced or sent."""
    kw = {}
    if case.get("headers") is not None:
        kw["headers"] = dict(case["headers"])
    if case.get("status") is not None:
        kw["status_code"] = case["status"]
    return kw


def oracle_asgi(case) -> Result:
    r = Result()
    events, charset, delays, ping = case["events"], case["charset"], case["delays"], case["ping"]
    classify(r, events, charset)

    async def producer():
        for ev, d in zip(copy_events(events), delays):
            if d:
                await asyncio.sleep(d)
            yield ev
        if case.get("tail_delay"):
            await asyncio.sleep(case["tail_delay"])

    async def main():
        resp = basgi.SendEventResponse(producer(), ping_interval=ping, charset=charset, **_ctor_extras(case))
        return await gw.run_asgi(resp, gw.make_scope(gw.areq()))

    try:
        run, _loop = vtime.run_virtual(main)
    except vtime.Hang as exc:
        r.fail("C19:asgi:hang", f"{case!r}: {exc}")
        return r
    if run.exc is not None:
        r.fail(f"C19:asgi:raised:{type(run.exc).__name__}", f"{case!r}: {run.exc!r}")
        return r
    if run.errors or not run.complete:
        r.fail("C19:asgi:protocol", f"{case!r}: {run.errors!r} complete={run.complete}")
    pings = sum(1 for c in run.chunks if c == PING)
    if pings:
        r.label("pings-interleaved")
        r.nontrivial = True
    check_headers(r, "asgi", run.get, charset)
    judge(r, "asgi", events, charset, run.body)
    return r


def oracle_wsgi(case) -> Result:
    r = Result()
    events, charset, delays, ping = case["events"], case["charset"], case["delays"], case["ping"]
    classify(r, events, charset)

    def producer():
        for ev, d in zip(copy_events(events), delays):
            if d:
                time.sleep(d)
            yield ev

    resp = bwsgi.SendEventResponse(producer(), ping_interval=ping, charset=charset, **_ctor_extras(case))
    stalls = {int(k): v for k, v in (case.get("stalls") or {}).items()}
    run = gw.run_wsgi(resp, gw.make_environ(gw.areq()), stall_after=stalls or None)
    if stalls:
        r.label("slow-client")
        r.nontrivial = True
    if run.exc is not None:
        r.fail(f"C19:wsgi:raised:{type(run.exc).__name__}", f"{case!r}: {run.exc!r}")
        return r
    if run.errors:
        r.fail("C19:wsgi:protocol", f"{case!r}: {run.errors!r}")
    pings = sum(1 for c in run.chunks if c == PING)
    if pings:
        r.label("pings-interleaved")
        r.nontrivial = True
    check_headers(r, "wsgi", run.get, charset)
    judge(r, "wsgi", events, charset, run.body)
    return r


SUBS = {"block": oracle_block, "sep": oracle_block, "asgi": oracle_asgi, "wsgi": oracle_wsgi, "wsgi_ping": oracle_wsgi, "wsgi_slow": oracle_wsgi}

# ------------------------------------------------------------------------------------------

_piece = st.one_of(
    st.sampled_from(SEPS + ["\n\n", "\r\r", "\n\r", " ", "  ", ":", ": ", "data: x", "event: hack", "id: 9", "", "a", "b", "xyz", "{\"k\": \"v\"}", "\t", "é", "中", "\U0001f600", "﻿", "\x7f", "0"]),
    st.text(max_size=4),
)
_data = st.lists(_piece, max_size=7).map("".join)
_single = st.one_of(
    st.sampled_from(["", "message", "update", " lead", "trail ", ":colon", "a:b", "é", "中", "x y", "ping", "0", " ", "\x0b", "\x85"]),
    st.text(alphabet=st.characters(exclude_characters="\r\n\x00", exclude_categories=["Cs"]), max_size=5),
)


@st.composite
def event_strategy(draw, charset):
    keys = draw(st.lists(st.sampled_from(["data", "data", "event", "id", "retry"]), unique=True, min_size=0 if draw(st.integers(0, 5)) == 0 else 1, max_size=4))
    keys = draw(st.permutations(keys))
    ev = {}
    for k in keys:
        if k == "data":
            v = draw(_data)
        elif k == "retry":
            v = draw(st.sampled_from([0, 1, 3000, 10**9]))
        else:
            v = draw(_single)
        if isinstance(v, str) and not encodable(v, charset):
            v = "".join(ch for ch in v if encodable(ch, charset))
        ev[k] = v
    return ev


@st.composite
def block_case(draw):
    charset = draw(st.sampled_from(["utf-8", "utf-8", "latin-1", "gbk", "shift_jis"]))
    events = draw(st.lists(event_strategy(charset), min_size=1, max_size=5))
    pings = draw(st.lists(st.integers(0, 4), max_size=3, unique=True))
    return {"events": events, "charset": charset, "pings": pings}


def sep_cases():
    specials = ["\r", "\n", "\r\n", "\x0b", "\x0c", "\x1c", "\x1d", "\x1e", "\x85", " ", " ", "\t", "\x00", "﻿", " ", ":", "\x1f", "\x7f", "\xa0"]
    for s in specials:
        for data in (s, s + "a", "a" + s, "a" + s + "b", s + s, "a" + s + s + "b", s + "a" + s):
            yield {"events": [{"data": data}], "charset": "utf-8", "pings": []}
            yield {"events": [{"id": "1", "data": data, "event": "e"}, {"data": "next"}], "charset": "utf-8", "pings": [0]}
    for s in specials:
        for t in specials:
            yield {"events": [{"data": "a" + s + "b" + t + "c"}], "charset": "utf-8", "pings": []}
    # events that carry nothing (or nothing but control fields) must not end or disturb the stream
    yield {"events": [{}, {"data": "after-empty"}], "charset": "utf-8", "pings": []}
    yield {"events": [{"data": "first"}, {}, {}, {"id": "9"}, {"data": "last"}], "charset": "utf-8", "pings": [1]}


@st.composite
def flow_case(draw, side):
    charset = draw(st.sampled_from(["utf-8", "utf-8", "latin-1", "gbk"]))
    events = draw(st.lists(event_strategy(charset), min_size=1, max_size=5))
    extras = {"headers": draw(st.sampled_from([None, None, {}, {"x-extra": "1"}, {"X-Accel-Buffering": "no", "x-b": "2"}])), "status": draw(st.sampled_from([None, None, 200, 201]))}
    if side == "asgi":
        ping = draw(st.sampled_from([0.5, 1.0, 3.0]))
        delays = [draw(st.sampled_from([0, 0, 0.25, ping, ping * 1.5, ping * 2.25])) for _ in events]
        return {"events": events, "charset": charset, "delays": delays, "ping": ping, "tail_delay": draw(st.sampled_from([0, ping * 1.5])), **extras}
    return {"events": events, "charset": charset, "delays": [0 for _ in events], "ping": 30, **extras}


@st.composite
def wsgi_ping_case(draw):
    charset = "utf-8"
    events = draw(st.lists(event_strategy(charset), min_size=1, max_size=3))
    delays = [draw(st.sampled_from([0, 0.05])) for _ in events]
    if not any(delays):
        delays[0] = 0.05
    return {"events": events, "charset": charset, "delays": delays, "ping": 0.02}


def slow_client_cases():
    """The producer is ahead of a client that stalls for many ping intervals: nothing may be lost."""
    for n in (2, 4, 8):
        for stall_at in (1, 2):
            for charset in ("utf-8",):
                yield {"events": [{"id": str(i), "data": f"event-{i}"} for i in range(n)], "charset": charset, "delays": [0] * n, "ping": 0.02, "stalls": {str(stall_at): 0.25}}
    yield {"events": [{"data": f"e{i}"} for i in range(6)], "charset": "utf-8", "delays": [0, 0, 0.05, 0, 0, 0], "ping": 0.02, "stalls": {"1": 0.15, "3": 0.15}}


def flow_fixed_cases():
    for side in ("asgi", "wsgi"):
        yield side, {"events": [{}, {"data": "after-empty"}], "charset": "utf-8", "delays": [0, 0], "ping": 30}
        yield side, {"events": [{"data": "a"}, {}, {"retry": 5}, {"data": "b", "event": "e"}], "charset": "latin-1", "delays": [0, 0, 0, 0], "ping": 30}
        yield side, {"events": [{"event": "\xe9v", "id": "\xfc", "data": "\xe0"}], "charset": "latin-1", "delays": [0], "ping": 30}
        for headers in ({}, {"x-extra": "1"}):
            for charset in ("utf-8", "latin-1", "gbk"):
                yield side, {"events": [{"data": "x"}, {"event": "e", "data": "\xe9" if charset != "gbk" else "\u4e2d"}], "charset": charset, "delays": [0, 0], "ping": 30, "headers": headers}


def oracle_atheris(case) -> Result:
    """Replay / triage oracle for inputs found by the Atheris campaign: decode the bytes like the fuzz target does."""
    from fuzz import targets

    res = oracle_block(targets.CASES["C19"](case["data"]))
    res.label("atheris")
    return res


SUBS["atheris"] = oracle_atheris


def run(rec, only=None):
    quick = rec.tier == "quick"
    core.drive_cases(rec, "wsgi_slow", slow_client_cases(), oracle_wsgi)
    rec.exhaustive["wsgi_slow"] = True
    for side, case in flow_fixed_cases():
        core.drive_cases(rec, side, [case], oracle_asgi if side == "asgi" else oracle_wsgi)
    core.drive_cases(rec, "sep", sep_cases(), oracle_block)
    rec.exhaustive["sep"] = True
    core.drive_hypothesis(rec, "block", block_case(), oracle_block, 2500 if quick else 60000)
    core.drive_hypothesis(rec, "asgi", flow_case("asgi"), oracle_asgi, 600 if quick else 15000, seed_offset=1)
    core.drive_hypothesis(rec, "wsgi", flow_case("wsgi"), oracle_wsgi, 400 if quick else 8000, seed_offset=2)
    core.drive_hypothesis(rec, "wsgi_ping", wsgi_ping_case(), oracle_wsgi, 25 if quick else 300, seed_offset=3, shrink=False)
    for k in ("block", "asgi", "wsgi", "wsgi_ping"):
        rec.exhaustive[k] = False
    if not quick:
        # coverage-guided second engine (Atheris / libFuzzer), same oracle inside the target
        from fuzz import driver

        driver.campaign(rec, "C19", oracle_atheris, runs=200000, seeds=[b"\x01\x00\x02ab=c;d", b"\x02\x01\x09\x03abc\r\n\x05hello"], max_total_time=120, jobs=4)
