"""C19 - Server-sent events reach the client as they were yielded."""
from __future__ import annotations

import asyncio
import time

from hypothesis import strategies as st

import baize.asgi as basgi
import baize.wsgi as bwsgi
from baize.responses import build_bytes_from_sse

from harness import core, gateways as gw, vtime
from harness.core import Result
from harness.refs import sse as ref

LEVEL = "exploration"
RULES = {
    "atheris": "thorough tier: Atheris/libFuzzer coverage-guided campaign; bytes are decoded into the same structured case and judged by the same oracle inside the target (half of the jobs start from an empty corpus, half from two small valid inputs)",
    "block": "Hypothesis: sequences of 1..5 event dicts (any subset of data/event/id/retry in any key order; data over full Unicode "
    "weighted to CR, LF, CRLF, VT, FF, FS/GS/RS, NEL, LS, PS, empty lines, leading spaces/colons; 4 charsets) encoded with "
    "build_bytes_from_sse, concatenated with ping comments in between, decoded and parsed with an independent WHATWG "
    "event-stream parser; non-trivial = some data contains a line/paragraph separator of any kind or a leading space/colon",
    "sep": "exhaustive: every separator-like code point (CR LF VT FF FS GS RS NEL LS PS, TAB, NUL, BOM, space, colon) at the start, "
    "middle and end of a data string and doubled, alone and combined pairwise",
    "asgi": "the same events sent by baize.asgi.SendEventResponse through the ASGI gateway on a virtual-time loop, with producer "
    "delays around the ping interval so that pings are interleaved; headers checked; non-trivial as for block, or a ping occurred",
    "wsgi_slow": "enumerated: 2..8 ready events through baize.wsgi.SendEventResponse with a 20 ms ping interval while the server stalls for 150-250 ms "
    "(many ping intervals) after taking the first or second item: every yielded event must still arrive once, in order",
    "wsgi": "the same through baize.wsgi.SendEventResponse and the WSGI gateway (real relay thread; a labelled minority of cases "
    "sleeps past a 20 ms ping interval)",
    "asgi_slow": "enumerated: 2..8 events that are ready at once (or arrive in bursts after an idle phase) through baize.asgi.SendEventResponse while "
    "every send() of the server takes 0.25..3.25 ping intervals of virtual time (slow client): every yielded event must arrive once, in order",
    "iterables": "enumerated: the event source is every kind of Iterable / AsyncIterable the constructor is typed for - generator, list, tuple, deque, "
    "list iterator, map object, a re-iterable object whose __iter__ / __aiter__ returns a separate iterator, an iterator object without close()/aclose() - "
    "with and without producer delays beyond the ping interval; also the constructor defaults (no charset= / ping_interval=)",
    "concurrent": "enumerated: 2, 3 and 12 event streams open at the same time (ASGI: gathered on one virtual-time loop, with different delays, charsets and "
    "slow clients; WSGI: consumed in alternation, 12 streams exceed the 10 relay threads of the shared pool): each client receives exactly its own events",
    "fields": "exhaustive: every separator-like / blank / colon / control code point at the start, middle and end of an event name and of an id, "
    "followed by a ping and a second event (id persists, type resets)",
    "text": "enumerated: data, event names and ids made of text that is sensitive to Unicode normalisation, case mapping or trimming (decomposed accents, "
    "compatibility characters, Hangul jamo, zero-width and bidi controls, C1 controls, non-characters, astral planes, exotic blanks at either end), in "
    "every position of a multi-line data and in each of 9 ASCII-compatible charsets that can encode it",
    "same_dict": "enumerated: a producer that yields the SAME dict object 2..4 times - in a row, interleaved with other events, with pings in between, "
    "as a list / tuple holding one dict several times, as generator or iterator object, with a slow client - through the helper and both interfaces: "
    "every yield arrives as a full event and the caller's dicts are unchanged afterwards (the last clause is judged in every sub-check)",
    "big": "enumerated: data of 257..5000 lines (LF, CR, CRLF mixed, empty lines), single lines of 8 193..200 000 characters, and streams of 60 events "
    "through both gateways",
}
ASSUMPTIONS = [
    "a trailing line terminator of data may or may not yield a final empty line",
    "an event without data (or with data == '') dispatches nothing under the standard; one event with empty data is accepted as well; "
    "its id/retry still take effect for later events",
    "event names and ids are single-line (no CR/LF) and contain no NUL",
    "the dicts a producer yields are the producer's: it may yield one dict object several times (each yield is an event of its own) and "
    "finds its dicts unchanged after the stream (repaired in /repo e2d6a7d; before, the second copy went out without data)",
    "charsets are ASCII-compatible and stateless (utf-8, latin-1, cp1252, koi8-r, gbk, gb18030, big5, shift_jis, euc-jp)",
    "filler between events consists of comment lines only: a block of field lines without data is accepted only where a yielded event had "
    "fields and no data",
]

# U+2028 / U+2029 are written as escapes: an editor had once turned the literal characters into blanks
SEPS = ["\r", "\n", "\r\n", "\x0b", "\x0c", "\x1c", "\x1d", "\x1e", "\x85", "\u2028", "\u2029"]
PING = b": ping\n\n"


def encodable(s: str, charset: str) -> bool:
    try:
        return s.encode(charset).decode(charset) == s
    except (UnicodeEncodeError, UnicodeDecodeError):
        return False


def short(x, limit: int = 500) -> str:
    t = repr(x)
    return t if len(t) <= limit else t[:limit] + f"... ({len(t)} chars)"


def expected_stream(events):
    """List of expectations, one per yielded event: dict(kind='event'|'optional', type, ids, datas)."""
    cur_id, cur_retry = "", None
    out = []
    for ev in events:
        if "id" in ev:
            cur_id = str(ev["id"])
        if "retry" in ev:
            cur_retry = int(ev["retry"])
        typ = str(ev.get("event", "")) or "message"
        data = ev.get("data")
        if data is None or data == "":
            out.append({"kind": "optional", "type": typ, "id": cur_id, "retry": cur_retry, "datas": [""]})
        else:
            lines = ref.data_lines(data)
            datas = ["\n".join(lines)]
            if lines and lines[-1] == "":
                datas.append("\n".join(lines[:-1]))
            out.append({"kind": "event", "type": typ, "id": cur_id, "retry": cur_retry, "datas": datas})
    return out


def match(expected, actual):
    """Sequential match with optional elements; returns None or a description of the mismatch."""

    def fits(e, a):
        return a["type"] == e["type"] and a["last_event_id"] == e["id"] and a["retry"] == e["retry"] and a["data"] in e["datas"]

    memo = {}

    def rec(i, j):
        key = (i, j)
        if key in memo:
            return memo[key]
        if i == len(expected):
            res = j == len(actual)
        else:
            e = expected[i]
            res = False
            if j < len(actual) and fits(e, actual[j]) and rec(i + 1, j + 1):
                res = True
            elif e["kind"] == "optional" and rec(i + 1, j):
                res = True
        memo[key] = res
        return res

    if rec(0, 0):
        return None
    # locate the first divergence for the message (greedy)
    j = 0
    for i, e in enumerate(expected):
        if j < len(actual) and fits(e, actual[j]):
            j += 1
        elif e["kind"] == "optional":
            continue
        else:
            got = actual[j] if j < len(actual) else None
            return f"yielded event #{i}: expected one dispatched event type={e['type']!r} id={e['id']!r} retry={e['retry']!r} data in {e['datas']!r}, parser dispatched {got!r}"
    return f"{len(actual) - j} extra dispatched event(s): {actual[j:]!r}"


def field_only_blocks(text: str):
    """Blocks of the stream (maximal runs of non-blank lines) that hold at least one field line (anything that is
    not a comment) but no data line.  The standard's parser dispatches nothing for them."""
    if text.startswith("\ufeff"):
        text = text[1:]
    out, cur = [], []
    for line in ref.split_lines(text):
        if line == "":
            if cur and "data" not in [f for f, _ in cur]:
                out.append(cur)
            cur = []
        elif not line.startswith(":"):
            cur.append((line.partition(":")[0], line))
    if cur and "data" not in [f for f, _ in cur]:
        out.append(cur)
    return out


def judge(r: Result, where: str, events, charset, body: bytes) -> None:
    try:
        text = body.decode(charset)
    except UnicodeDecodeError as exc:
        r.fail(f"C19:{where}:undecodable", f"body {body[:300]!r} not decodable as {charset}: {exc}")
        return
    actual = ref.parse(text)
    # keep-alive filler must be comment lines: blocks of field lines that dispatch nothing are attributable only to
    # yielded events that had fields and no data
    allowed = sum(1 for ev in events if ev.get("data") in (None, "") and any(k != "data" for k in ev))
    filler = field_only_blocks(text)
    if len(filler) > allowed:
        r.fail(f"C19:{where}:non-comment-filler", f"charset {charset}, events {short(events)}: {len(filler)} block(s) of field lines without data "
               f"({[ln for blk in filler for _, ln in blk][:6]!r}) but only {allowed} yielded event(s) without data; wire {body[:600]!r}")
    problem = match(expected_stream(events), actual)
    if problem:
        kind = "data"
        seps = {ch for ev in events for ch in str(ev.get("data", "")) if ch in "\x0b\x0c\x1c\x1d\x1e\x85\u2028\u2029"}
        if seps:
            kind = "unicode-line-separator"
        r.fail(f"C19:{where}:{kind}", f"charset {charset}, events {short(events)}: {problem[:900]}; wire {body[:600]!r}")


def classify(r: Result, events, charset) -> None:
    nt = False
    for ev in events:
        d = str(ev.get("data", ""))
        if any(s in d for s in SEPS) or d.startswith((" ", ":")) or "\n " in d or "\n:" in d:
            nt = True
        if "data" not in ev or d == "":
            r.label("data-less-event")
    r.nontrivial = nt
    r.label(f"charset={charset}", f"events={len(events)}")
    if nt:
        r.label("has-separator")


def make_events(case):
    """The event objects handed to the code under test.  Every element is a fresh dict, except where the case says
    same_as[k] = j < k: then the k-th yielded object IS the j-th one (a producer that keeps one dict and yields it again;
    the case lists the same content at both places)."""
    events, same_as = case["events"], case.get("same_as")
    objs = []
    for k, ev in enumerate(events):
        j = same_as[k] if same_as else k
        if j == k:
            objs.append(dict(ev))
        else:
            if not (0 <= j < k) or events[j] != ev:
                raise core.HarnessError(f"bad same_as in case: {case!r}")
            objs.append(objs[j])
    return objs


def check_untouched(r: Result, where: str, case, objs) -> None:
    """The dicts belong to the caller: after the stream they must still be what the producer yielded."""
    for k, (obj, ev) in enumerate(zip(objs, case["events"])):
        if obj != ev:
            r.fail(f"C19:{where}:caller-dict-changed", f"event object #{k} was {ev!r} when yielded and is {obj!r} afterwards; case {short(case)}")
            return


def label_same(r: Result, case) -> None:
    same_as = case.get("same_as")
    if same_as and any(j != k for k, j in enumerate(same_as)):
        r.label("same-dict-yielded-again")
        r.nontrivial = True


def oracle_block(case) -> Result:
    r = Result()
    events, charset = case["events"], case["charset"]
    classify(r, events, charset)
    label_same(r, case)
    chunks = []
    objs = make_events(case)
    for i, ev in enumerate(objs):
        blk = build_bytes_from_sse(ev, charset)
        if type(blk) is not bytes:
            r.fail("C19:block:not-bytes", f"{type(blk).__name__}")
            return r
        chunks.append(blk)
        if case.get("pings") and i in case["pings"]:
            chunks.append(PING)
    judge(r, "block", events, charset, b"".join(chunks))
    check_untouched(r, "block", case, objs)
    return r


def check_headers(r: Result, where: str, get, charset) -> None:
    ct = get("content-type")
    if ct is None or ct.replace(" ", "").lower() != f"text/event-stream;charset={charset}".lower():
        r.fail(f"C19:{where}:content-type", f"content-type {ct!r}, expected text/event-stream; charset={charset}")
    cc = get("cache-control")
    if cc is None or "no-cache" not in cc.lower():
        r.fail(f"C19:{where}:cache-control", f"cache-control {cc!r}")


def _ctor_extras(case):
    """Optional constructor arguments that must not change what is announced or sent."""
    kw = {}
    if case.get("headers") is not None:
        kw["headers"] = dict(case["headers"])
    if case.get("status") is not None:
        kw["status_code"] = case["status"]
    return kw


# -- event sources --------------------------------------------------------------------------
# The constructors are typed Iterable[ServerSentEvent] / AsyncIterable[ServerSentEvent]: every kind of iterable is a
# legitimate source, not only generators.

SYNC_KINDS = ["gen", "list", "tuple", "deque", "iter", "map", "iterable", "iterator"]
ASYNC_KINDS = ["agen", "aiterable", "aiterator"]


class _SyncIterator:
    """Iterator object without close()."""

    def __init__(self, events, delays, tail_delay=0):
        self._evs, self._delays, self._tail, self._k = events, list(delays), tail_delay, 0

    def __iter__(self):
        return self

    def __next__(self):
        if self._k >= len(self._evs):
            if self._tail:
                time.sleep(self._tail)
                self._tail = 0
            raise StopIteration
        d = self._delays[self._k] if self._k < len(self._delays) else 0
        if d:
            time.sleep(d)
        ev = self._evs[self._k]
        self._k += 1
        return ev


class _SyncIterable:
    """Re-iterable object: __iter__ hands out a separate iterator; it is not an iterator itself."""

    def __init__(self, events, delays, tail_delay=0):
        self._args = (events, delays, tail_delay)

    def __iter__(self):
        return _SyncIterator(*self._args)


class _AsyncIterator:
    """Asynchronous iterator object without aclose()."""

    def __init__(self, events, delays, tail_delay=0):
        self._evs, self._delays, self._tail, self._k = events, list(delays), tail_delay, 0

    def __aiter__(self):
        return self

    async def __anext__(self):
        if self._k >= len(self._evs):
            if self._tail:
                await asyncio.sleep(self._tail)
                self._tail = 0
            raise StopAsyncIteration
        d = self._delays[self._k] if self._k < len(self._delays) else 0
        if d:
            await asyncio.sleep(d)
        ev = self._evs[self._k]
        self._k += 1
        return ev


class _AsyncIterable:
    """Asynchronous iterable whose __aiter__ hands out a separate iterator; it has no __anext__ itself."""

    def __init__(self, events, delays, tail_delay=0):
        self._args = (events, delays, tail_delay)

    def __aiter__(self):
        return _AsyncIterator(*self._args)


def _same(x):
    return x


def sync_source(kind, evs, delays, tail_delay=0):
    if kind == "gen":

        def producer():
            for ev, d in zip(evs, delays):
                if d:
                    time.sleep(d)
                yield ev
            if tail_delay:
                time.sleep(tail_delay)

        return producer()
    if kind == "iterable":
        return _SyncIterable(evs, delays, tail_delay)
    if kind == "iterator":
        return _SyncIterator(evs, delays, tail_delay)
    # plain containers / built-in iterators cannot wait
    if kind == "list":
        return evs
    if kind == "tuple":
        return tuple(evs)
    if kind == "deque":
        import collections

        return collections.deque(evs)
    if kind == "iter":
        return iter(evs)
    if kind == "map":
        return map(_same, evs)
    raise core.HarnessError(f"unknown source kind {kind!r}")


def async_source(kind, evs, delays, tail_delay=0):
    if kind == "agen":

        async def producer():
            for ev, d in zip(evs, delays):
                if d:
                    await asyncio.sleep(d)
                yield ev
            if tail_delay:
                await asyncio.sleep(tail_delay)

        return producer()
    if kind == "aiterable":
        return _AsyncIterable(evs, delays, tail_delay)
    if kind == "aiterator":
        return _AsyncIterator(evs, delays, tail_delay)
    raise core.HarnessError(f"unknown source kind {kind!r}")


def _response_kwargs(case):
    """defaults=True: the constructor is called without ping_interval= / charset= (documented defaults 3 s / utf-8)."""
    if case.get("defaults"):
        if case["charset"] != "utf-8":
            raise core.HarnessError("a defaults case must expect utf-8")
        return _ctor_extras(case)
    return {"ping_interval": case["ping"], "charset": case["charset"], **_ctor_extras(case)}


async def _asgi_stream(case):
    """One event stream through the ASGI gateway (on the running, virtual-time loop); returns (run, event objects)."""
    objs = make_events(case)
    resp = basgi.SendEventResponse(async_source(case.get("source", "agen"), objs, case["delays"], case.get("tail_delay", 0)), **_response_kwargs(case))
    run = await gw.run_asgi(resp, gw.make_scope(gw.areq()), send_delay=case.get("send_delay", 0))
    return run, objs


def _judge_asgi_run(r: Result, case, run_objs) -> None:
    run, objs = run_objs
    events, charset = case["events"], case["charset"]
    check_untouched(r, "asgi", case, objs)
    if run.exc is not None:
        r.fail(f"C19:asgi:raised:{type(run.exc).__name__}", f"{short(case)}: {run.exc!r}")
        return
    if run.errors or not run.complete:
        r.fail("C19:asgi:protocol", f"{short(case)}: {run.errors!r} complete={run.complete}")
    pings = sum(1 for c in run.chunks if c == PING)
    if pings:
        r.label("pings-interleaved")
        r.nontrivial = True
    check_headers(r, "asgi", run.get, charset)
    judge(r, "asgi", events, charset, run.body)


def _flow_labels(r: Result, case) -> None:
    if case.get("source") not in (None, "gen", "agen"):
        r.label(f"source={case['source']}")
        r.nontrivial = True
    if case.get("defaults"):
        r.label("ctor-defaults")
    if case.get("send_delay"):
        r.label("slow-client")
        r.nontrivial = True
    label_same(r, case)


def oracle_asgi(case) -> Result:
    r = Result()
    classify(r, case["events"], case["charset"])
    _flow_labels(r, case)

    async def main():
        return await _asgi_stream(case)

    try:
        run, _loop = vtime.run_virtual(main)
    except vtime.Hang as exc:
        r.fail("C19:asgi:hang", f"{short(case)}: {exc}")
        return r
    _judge_asgi_run(r, case, run)
    return r


def _judge_wsgi_run(r: Result, case, run, objs) -> None:
    events, charset = case["events"], case["charset"]
    check_untouched(r, "wsgi", case, objs)
    if run.exc is not None:
        r.fail(f"C19:wsgi:raised:{type(run.exc).__name__}", f"{short(case)}: {run.exc!r}")
        return
    if run.errors:
        r.fail("C19:wsgi:protocol", f"{short(case)}: {run.errors!r}")
    pings = sum(1 for c in run.chunks if c == PING)
    if pings:
        r.label("pings-interleaved")
        r.nontrivial = True
    check_headers(r, "wsgi", run.get, charset)
    judge(r, "wsgi", events, charset, run.body)


def oracle_wsgi(case) -> Result:
    r = Result()
    classify(r, case["events"], case["charset"])
    _flow_labels(r, case)
    objs = make_events(case)
    resp = bwsgi.SendEventResponse(sync_source(case.get("source", "gen"), objs, case["delays"], case.get("tail_delay", 0)), **_response_kwargs(case))
    stalls = {int(k): v for k, v in (case.get("stalls") or {}).items()}
    run = gw.run_wsgi(resp, gw.make_environ(gw.areq()), stall_after=stalls or None)
    if stalls:
        r.label("slow-client")
        r.nontrivial = True
    _judge_wsgi_run(r, case, run, objs)
    return r


def oracle_flow(case) -> Result:
    """Enumerated flow cases that name their side."""
    return oracle_asgi(case) if case["side"] == "asgi" else oracle_wsgi(case)


def oracle_any(case) -> Result:
    return oracle_flow(case) if "side" in case else oracle_block(case)


# -- several streams at the same time --------------------------------------------------------

MAX_CHUNKS = 400  # per stream; far above anything a finite case can produce (events + a ping per 20 ms of waiting)


def _concurrent_asgi(r: Result, case) -> None:
    streams = [dict(st_, ping=st_.get("ping", case["ping"])) for st_ in case["streams"]]

    async def main():
        return await asyncio.gather(*[_asgi_stream(st_) for st_ in streams])

    try:
        runs, _loop = vtime.run_virtual(main)
    except vtime.Hang as exc:
        r.fail("C19:asgi:hang", f"{short(case)}: {exc}")
        return
    for st_, run in zip(streams, runs):
        _judge_asgi_run(r, st_, run)


def _concurrent_wsgi(r: Result, case) -> None:
    """The streams are consumed in alternation by one server thread: one next() on each open stream per round - an
    interleaving that a threaded server can produce.  Each next() returns after at most one ping interval."""
    streams = [dict(st_, ping=st_.get("ping", case["ping"])) for st_ in case["streams"]]
    runs, iters, results, all_objs = [], [], [], []
    for st_ in streams:
        run = gw.WsgiRun()

        def start_response(status, headers, exc_info=None, run=run):
            run.start_calls += 1
            gw.validate_wsgi_start(run, status, headers)
            run.headers = [(str(k), str(v)) for k, v in headers]

        objs = make_events(st_)
        all_objs.append(objs)
        resp = bwsgi.SendEventResponse(sync_source(st_.get("source", "gen"), objs, st_["delays"], st_.get("tail_delay", 0)), **_response_kwargs(st_))
        result = resp(gw.make_environ(gw.areq()), start_response)
        runs.append(run)
        results.append(result)
        iters.append(iter(result))
    open_ = list(range(len(streams)))
    try:
        while open_:
            for k in list(open_):
                try:
                    item = next(iters[k])
                except StopIteration:
                    open_.remove(k)
                    continue
                except Exception as exc:  # noqa: BLE001 - reported as a failure of this stream, as gw.run_wsgi does
                    runs[k].exc = exc
                    open_.remove(k)
                    continue
                runs[k].items += 1
                if type(item) is not bytes:
                    runs[k].err("item-type", f"yielded {type(item).__name__}, not bytes")
                    item = b""
                runs[k].chunks.append(item)
                if runs[k].items > MAX_CHUNKS:
                    runs[k].err("runaway", f"more than {MAX_CHUNKS} chunks for {len(streams[k]['events'])} events")
                    open_.remove(k)
    finally:
        for k, result in enumerate(results):
            close = getattr(result, "close", None)
            if close is not None:
                try:
                    close()
                except Exception as exc:  # noqa: BLE001 - likewise
                    if runs[k].exc is None:
                        runs[k].exc = exc
    for st_, run, objs in zip(streams, runs, all_objs):
        _judge_wsgi_run(r, st_, run, objs)


def oracle_concurrent(case) -> Result:
    r = Result()
    r.weight = len(case["streams"])
    r.nontrivial = True
    r.label(f"side={case['side']}", f"streams={len(case['streams'])}")
    if case["side"] == "asgi":
        _concurrent_asgi(r, case)
    else:
        _concurrent_wsgi(r, case)
    return r


SUBS = {"block": oracle_block, "sep": oracle_block, "asgi": oracle_asgi, "wsgi": oracle_wsgi, "wsgi_ping": oracle_wsgi, "wsgi_slow": oracle_wsgi,
        "asgi_slow": oracle_asgi, "iterables": oracle_flow, "concurrent": oracle_concurrent, "fields": oracle_block, "text": oracle_block, "big": oracle_any, "same_dict": oracle_any}

# ------------------------------------------------------------------------------------------

_piece = st.one_of(
    st.sampled_from(SEPS + ["\n\n", "\r\r", "\n\r", " ", "  ", ":", ": ", "data: x", "event: hack", "id: 9", "", "a", "b", "xyz", "{\"k\": \"v\"}", "{\"k\": \"a\u2028b\u2029\"}", "\t", "é", "中", "\U0001f600", "﻿", "\x7f", "0"]),
    st.text(max_size=4),
)
_data = st.lists(_piece, max_size=7).map("".join)
_single = st.one_of(
    st.sampled_from(["", "message", "update", " lead", "trail ", ":colon", "a:b", "é", "中", "x y", "ping", "0", " ", "\x0b", "\x85", "\u2028", "a\u2029b"]),
    st.text(alphabet=st.characters(exclude_characters="\r\n\x00", exclude_categories=["Cs"]), max_size=5),
)


@st.composite
def event_strategy(draw, charset):
    keys = draw(st.lists(st.sampled_from(["data", "data", "event", "id", "retry"]), unique=True, min_size=0 if draw(st.integers(0, 5)) == 0 else 1, max_size=4))
    keys = draw(st.permutations(keys))
    ev = {}
    for k in keys:
        if k == "data":
            v = draw(_data)
        elif k == "retry":
            v = draw(st.one_of(st.sampled_from([0, 1, 3000, 10**9, 2**31 - 1, 2**31, 2**32 - 1, 2**32, 2**53 + 1, 2**63 - 1, 2**63, 2**64]),
                              st.integers(0, 2**70), st.integers(0, 9).map(lambda d: 10**(d * 3) * 7)))
        else:
            v = draw(_single)
        if isinstance(v, str) and not encodable(v, charset):
            v = "".join(ch for ch in v if encodable(ch, charset))
        ev[k] = v
    return ev


@st.composite
def yield_again(draw, events):
    """Drawn option: some of the dicts are yielded again later (same object).  Returns (events, same_as)."""
    if draw(st.integers(0, 3)) != 0:
        return events, None
    order = list(range(len(events)))
    for _ in range(draw(st.integers(1, 3))):
        idx = draw(st.integers(0, len(events) - 1))
        pos = draw(st.integers(order.index(idx) + 1, len(order)))
        order.insert(pos, idx)
    return [dict(events[i]) for i in order], [order.index(i) for i in order]


@st.composite
def block_case(draw):
    charset = draw(st.sampled_from(["utf-8", "utf-8", "latin-1", "gbk", "shift_jis"]))
    events = draw(st.lists(event_strategy(charset), min_size=1, max_size=5))
    events, same_as = draw(yield_again(events))
    pings = draw(st.lists(st.integers(0, len(events) - 1), max_size=3, unique=True))
    case = {"events": events, "charset": charset, "pings": pings}
    if same_as:
        case["same_as"] = same_as
    return case


def sep_cases():
    specials = ["\r", "\n", "\r\n", "\x0b", "\x0c", "\x1c", "\x1d", "\x1e", "\x85", "\u2028", "\u2029", "\t", "\x00", "\ufeff", " ", ":", "\x1f", "\x7f", "\xa0"]
    for s in specials:
        for data in (s, s + "a", "a" + s, "a" + s + "b", s + s, "a" + s + s + "b", s + "a" + s):
            yield {"events": [{"data": data}], "charset": "utf-8", "pings": []}
            yield {"events": [{"id": "1", "data": data, "event": "e"}, {"data": "next"}], "charset": "utf-8", "pings": [0]}
    for s in specials:
        for t in specials:
            yield {"events": [{"data": "a" + s + "b" + t + "c"}], "charset": "utf-8", "pings": []}
    # events that carry nothing (or nothing but control fields) must not end or disturb the stream
    yield {"events": [{}, {"data": "after-empty"}], "charset": "utf-8", "pings": []}
    yield {"events": [{"data": "first"}, {}, {}, {"id": "9"}, {"data": "last"}], "charset": "utf-8", "pings": [1]}


@st.composite
def flow_case(draw, side):
    charset = draw(st.sampled_from(["utf-8", "utf-8", "latin-1", "gbk"]))
    events = draw(st.lists(event_strategy(charset), min_size=1, max_size=5))
    events, same_as = draw(yield_again(events))
    extras = {"headers": draw(st.sampled_from([None, None, {}, {"x-extra": "1"}, {"X-Accel-Buffering": "no", "x-b": "2"}])), "status": draw(st.sampled_from([None, None, 200, 201]))}
    if same_as:
        extras["same_as"] = same_as
    if side == "asgi":
        ping = draw(st.sampled_from([0.5, 1.0, 3.0]))
        delays = [draw(st.sampled_from([0, 0, 0.25, ping, ping * 1.5, ping * 2.25])) for _ in events]
        case = {"events": events, "charset": charset, "delays": delays, "ping": ping, "tail_delay": draw(st.sampled_from([0, ping * 1.5])), **extras}
        case["source"] = draw(st.sampled_from(["agen", "agen", "agen"] + ASYNC_KINDS))
        case["send_delay"] = draw(st.sampled_from([0, 0, 0, 0.25, ping, ping * 1.25, ping * 2.5]))
        return case
    case = {"events": events, "charset": charset, "delays": [0 for _ in events], "ping": 30, **extras}
    case["source"] = draw(st.sampled_from(["gen", "gen", "gen"] + SYNC_KINDS))
    return case


@st.composite
def wsgi_ping_case(draw):
    charset = draw(st.sampled_from(["utf-8", "utf-8", "latin-1", "gbk"]))
    events = draw(st.lists(event_strategy(charset), min_size=1, max_size=3))
    events, same_as = draw(yield_again(events))
    delays = [draw(st.sampled_from([0, 0.05])) if k < 3 else 0 for k in range(len(events))]
    tail = draw(st.sampled_from([0, 0, 0.05]))
    if not any(delays) and not tail:
        delays[0] = 0.05
    case = {"events": events, "charset": charset, "delays": delays, "ping": 0.02, "tail_delay": tail, "source": draw(st.sampled_from(["gen", "gen", "iterable", "iterator"]))}
    if same_as:
        case["same_as"] = same_as
    return case


def slow_client_cases():
    """The producer is ahead of a client that stalls for many ping intervals: nothing may be lost."""
    for n in (2, 4, 8):
        for stall_at in (1, 2):
            for charset in ("utf-8",):
                yield {"events": [{"id": str(i), "data": f"event-{i}"} for i in range(n)], "charset": charset, "delays": [0] * n, "ping": 0.02, "stalls": {str(stall_at): 0.25}}
    yield {"events": [{"data": f"e{i}"} for i in range(6)], "charset": "utf-8", "delays": [0, 0, 0.05, 0, 0, 0], "ping": 0.02, "stalls": {"1": 0.15, "3": 0.15}}


def asgi_slow_cases():
    """The producer is ahead of a client whose connection takes the server many ping intervals per write (virtual time)."""
    ping = 1.0
    for n in (2, 3, 5, 8):
        for send_delay in (0.25, 1.0, 1.5, 2.5, 3.25):
            yield {"events": [{"id": str(i), "data": f"event-{i}"} for i in range(n)], "charset": "utf-8", "delays": [0] * n, "ping": ping, "send_delay": send_delay}
    for send_delay in (1.0, 1.25, 2.5):
        for source in ASYNC_KINDS:
            # idle, then a burst of three, idle, then two more; the producer ends one and a half ping intervals later
            yield {"events": [{"data": f"e{i}"} for i in range(6)], "charset": "utf-8", "delays": [0, 1.5, 0, 0, 2.25, 0], "ping": ping, "send_delay": send_delay,
                   "tail_delay": 1.5, "source": source}
    yield {"events": [{"event": "\xe9", "data": "a\r\nb"}, {"retry": 7}, {"data": "\u2028"}, {}, {"id": "z", "data": " x"}], "charset": "utf-8",
           "delays": [0, 0, 0, 0, 0], "ping": 0.5, "send_delay": 1.25}


_SOURCE_EVENTS = [
    [{"id": "1", "data": "one"}, {"event": "e", "data": "two\nlines"}, {"data": "three"}],
    [{}, {"data": "after-empty"}, {"retry": 5}, {"id": "9"}, {"data": "last"}],
    [{"data": "only"}],
    [],
]


def iterable_cases():
    for side, kinds in (("wsgi", SYNC_KINDS), ("asgi", ASYNC_KINDS)):
        for kind in kinds:
            for events in _SOURCE_EVENTS:
                yield {"side": side, "source": kind, "events": events, "charset": "utf-8", "delays": [0] * len(events), "ping": 30}
            yield {"side": side, "source": kind, "events": _SOURCE_EVENTS[0], "charset": "gbk", "delays": [0, 0, 0], "ping": 30, "defaults": False, "headers": {"x-extra": "1"}}
            if kind in ("gen", "iterable", "iterator", "agen", "aiterable", "aiterator"):
                # sources that can make the relay wait: pings before, between and after the events
                unit = 0.05 if side == "wsgi" else 1.5
                yield {"side": side, "source": kind, "events": _SOURCE_EVENTS[0], "charset": "utf-8", "delays": [unit, 0, unit], "ping": unit * 0.4, "tail_delay": unit}
            yield {"side": side, "source": kind, "events": _SOURCE_EVENTS[0], "charset": "utf-8", "delays": [0, 0, 0], "ping": 3, "defaults": True}


def concurrent_cases():
    def evs(tag, n, **extra):
        return [{"id": f"{tag}{i}", "data": f"{tag}-event-{i}", **extra} for i in range(n)]

    for side in ("asgi", "wsgi"):
        unit = 1.0 if side == "asgi" else 0.02
        for n_streams in (2, 3):
            for n in (1, 3, 6):
                yield {"side": side, "ping": 30, "streams": [{"events": evs(chr(97 + k), n), "charset": "utf-8", "delays": [0] * n} for k in range(n_streams)]}
        # different charsets, sources and lengths; pings interleaved
        src = (["agen", "aiterable", "aiterator"] if side == "asgi" else ["gen", "list", "iterable"])
        yield {"side": side, "ping": unit, "streams": [
            {"events": evs("a", 4, event="\xe9"), "charset": "utf-8", "delays": [0, unit * 1.5, 0, unit * 2.5], "source": src[0]},
            {"events": evs("b", 2, event="\xe9"), "charset": "latin-1", "delays": [0, 0], "source": src[1]},
            {"events": evs("c", 5, event="\u4e2d"), "charset": "gbk", "delays": [unit * 2.5, 0, 0, 0, unit * 1.5], "source": src[2], "tail_delay": unit * 1.5}]}
    # one slow and one fast client on the same loop
    yield {"side": "asgi", "ping": 1.0, "streams": [
        {"events": evs("s", 5), "charset": "utf-8", "delays": [0] * 5, "send_delay": 2.5},
        {"events": evs("f", 5), "charset": "utf-8", "delays": [0, 0.25, 0.25, 1.0, 0]}]}
    # more open streams than the shared relay pool of the WSGI response has threads (10): the late ones only see pings
    # until a relay thread becomes free, then their events
    for n_streams in (11, 12):
        yield {"side": "wsgi", "ping": 0.02, "streams": [{"events": evs(f"s{k}-", 3), "charset": "utf-8", "delays": [0, 0, 0], "source": "list" if k % 2 else "gen"} for k in range(n_streams)]}


_FIELD_SPECIALS = [" ", "  ", ":", ": ", "\t", "\x0b", "\x0c", "\x1c", "\x1d", "\x1e", "\x1f", "\x85", "\u2028", "\u2029", "\ufeff", "\xa0", "\u3000", "\x7f",
                   "\x01", "\xe9", "-", "0", "data", "data: x", "retry: 5", "id", "message"]


def field_cases():
    for sp in _FIELD_SPECIALS:
        for v in (sp, sp + "a", "a" + sp, "a" + sp + "b", sp + sp, sp + "a" + sp):
            yield {"events": [{"event": v, "data": "d"}, {"data": "next"}], "charset": "utf-8", "pings": [0]}
            yield {"events": [{"id": v, "data": "d"}, {"data": "next"}, {"id": "", "data": "reset"}], "charset": "utf-8", "pings": [0, 1]}
            yield {"events": [{"retry": 1, "id": v, "event": v}, {"data": "d"}], "charset": "utf-8", "pings": []}
    # integer retry over its whole range (reconnection times beyond 32 and 64 bits included), alone and with data
    for r in (0, 1, 9, 10, 999, 86400000, 2**31 - 1, 2**31, 2592000000, 2**32 - 1, 2**32, 31536000000, 2**53, 2**63 - 1, 2**63, 2**64, 10**30):
        yield {"events": [{"retry": r, "data": "d"}, {"data": "next"}], "charset": "utf-8", "pings": [0]}
        yield {"events": [{"retry": r}, {"data": "after"}, {"retry": r + 1, "id": "i", "data": "x"}], "charset": "latin-1", "pings": []}


_TEXTS = [
    "e\u0301", "\xe9", "\u212b", "\u2126", "\ufb01", "\u1100\u1161", "\u1e9b\u0323", "\uff76\uff9e", "\u0130", "\xdf", "\u01c5", "\u0345", "\u03c2",
    "\u200b", "\u200d", "\u200e", "\u202e", "\xad", "\u2060", "\u180e", "\ufffd", "\ufffe", "\uffff", "\ud7ff", "\ue000", "\U0001f468\u200d\U0001f469",
    "\U0010ffff", "\U00010000", "\u0300", "\u2003", "\u3000", "\xa0", "\u1680", "\x80", "\x9f", "\x1f", "\x7f", "\t", "\u8c48", "\u4e2d\u6587", "\uff21",
    "\u3042\u3099", "\u0410\u0411", "\\", "~", "\xa5", "\u203e", "\u20ac",
]
_TEXT_CHARSETS = ["utf-8", "latin-1", "cp1252", "koi8-r", "gbk", "gb18030", "big5", "shift_jis", "euc-jp"]


def text_cases():
    for t in _TEXTS:
        datas = [t, t + "x", "x" + t, "a\n" + t + "\nb", t + "\r" + t, "a " + t + " \r\n " + t]
        single = "\x00" not in t
        for charset in _TEXT_CHARSETS:
            if not encodable(t, charset):
                continue
            for d in datas:
                yield {"events": [{"data": d}], "charset": charset, "pings": []}
            if single:
                yield {"events": [{"event": t, "id": t, "data": t}, {"data": "next"}, {"event": "x" + t, "id": t + "x", "data": "third"}], "charset": charset, "pings": [0]}


def same_dict_cases():
    """One dict object yielded several times: every yield is an event of its own."""
    tick = {"id": "1", "event": "e", "retry": 5, "data": "tick\ntock"}
    plain = {"data": "x"}
    accent = {"event": "\xe9", "data": "\xe0 \r b"}
    idonly = {"id": "9"}
    other, third = {"data": "other"}, {"id": "2", "data": "third"}
    shapes = []
    for ev in (tick, plain, accent):
        for n in (2, 3, 4):
            shapes.append(([ev] * n, [0] * n))
        shapes.append(([ev, other, ev, third, ev], [0, 1, 0, 3, 0]))
        shapes.append(([other, ev, ev, third, other], [0, 1, 1, 3, 0]))
    shapes.append(([idonly, idonly, plain, idonly, plain], [0, 0, 2, 0, 2]))
    shapes.append(([{}, {}, plain, {}], [0, 0, 2, 0]))
    for events, same_as in shapes:
        events = [dict(ev) for ev in events]
        charset = "latin-1" if any("\xe9" in str(ev.get("event", "")) for ev in events) else "utf-8"
        n = len(events)
        yield {"events": events, "same_as": same_as, "charset": charset, "pings": []}
        yield {"events": events, "same_as": same_as, "charset": charset, "pings": list(range(n - 1))}
        for side, kinds in (("wsgi", ["gen", "list", "tuple", "iterator", "map"]), ("asgi", ASYNC_KINDS)):
            for kind in kinds:
                yield {"side": side, "source": kind, "events": events, "same_as": same_as, "charset": charset, "delays": [0] * n, "ping": 30}
            # a ping before every yield (the relay holds the object while the producer waits)
            unit = 0.05 if side == "wsgi" else 1.5
            for kind in (["gen", "iterator"] if side == "wsgi" else ["agen", "aiterator"]):
                if n <= 3 or kind in ("gen", "agen"):
                    yield {"side": side, "source": kind, "events": events, "same_as": same_as, "charset": charset, "delays": [unit] * min(n, 3) + [0] * max(0, n - 3),
                           "ping": unit * 0.4, "tail_delay": unit if n == 2 else 0}
    # the client is slower than the producer: the object waits in the relay while the producer already yields it again
    for n in (2, 4):
        yield {"side": "asgi", "events": [dict(tick)] * n, "same_as": [0] * n, "charset": "utf-8", "delays": [0] * n, "ping": 1.0, "send_delay": 2.5}
        yield {"side": "wsgi", "events": [dict(tick)] * n, "same_as": [0] * n, "charset": "utf-8", "delays": [0] * n, "ping": 0.02, "stalls": {"1": 0.15}}


def big_cases():
    breaks = ["\n", "\r", "\r\n"]
    for n in (257, 300, 1000, 5000):
        yield {"events": [{"data": "\n".join(f"line {i}" for i in range(n))}], "charset": "utf-8", "pings": []}
        yield {"events": [{"id": "1", "data": "".join(("" if i % 7 == 3 else f"l{i}") + breaks[i % 3] for i in range(n)) + "end"}, {"data": "next"}], "charset": "utf-8", "pings": [0]}
    for n in (8191, 8192, 8193, 16384, 16385, 65537, 200000):
        yield {"events": [{"data": "x" * n}], "charset": "utf-8", "pings": []}
        yield {"events": [{"event": "e", "data": "a\n" + "\xe9" * n + "\r\nb"}, {"data": "y" * n + " "}], "charset": "latin-1" if n % 2 else "utf-8", "pings": [0]}
    yield {"events": [{"event": "n" * 10000, "id": "i" * 10000, "data": "d"}, {"data": "next"}], "charset": "utf-8", "pings": []}
    for side in ("asgi", "wsgi"):
        n = 60
        yield {"side": side, "events": [{"id": str(i), "data": f"event-{i}"} if i % 5 else {"event": "e", "data": f"event\r{i}"} for i in range(n)], "charset": "utf-8", "delays": [0] * n, "ping": 30}
        yield {"side": side, "events": [{"data": "\n".join(f"line {i}" for i in range(600))}, {"data": "z" * 70000}, {"data": "end"}], "charset": "utf-8", "delays": [0, 0, 0], "ping": 30}


def flow_fixed_cases():
    for side in ("asgi", "wsgi"):
        # the constructor defaults: no charset=, no ping_interval= (utf-8, 3 s), alone and with the other optional arguments
        for extra in ({}, {"headers": {"x-extra": "1"}}, {"status": 200}):
            yield side, {"events": [{"id": "1", "event": "\xe9v", "data": "d\xe9faut \u4e2d"}, {"data": "second"}], "charset": "utf-8", "delays": [0, 4.5 if side == "asgi" else 0], "ping": 3, "defaults": True, **extra}
        yield side, {"events": [{}, {"data": "after-empty"}], "charset": "utf-8", "delays": [0, 0], "ping": 30}
        yield side, {"events": [{"data": "a"}, {}, {"retry": 5}, {"data": "b", "event": "e"}], "charset": "latin-1", "delays": [0, 0, 0, 0], "ping": 30}
        yield side, {"events": [{"event": "\xe9v", "id": "\xfc", "data": "\xe0"}], "charset": "latin-1", "delays": [0], "ping": 30}
        for headers in ({}, {"x-extra": "1"}):
            for charset in ("utf-8", "latin-1", "gbk"):
                yield side, {"events": [{"data": "x"}, {"event": "e", "data": "\xe9" if charset != "gbk" else "\u4e2d"}], "charset": charset, "delays": [0, 0], "ping": 30, "headers": headers}


def oracle_atheris(case) -> Result:
    """Replay / triage oracle for inputs found by the Atheris campaign: decode the bytes like the fuzz target does."""
    from fuzz import targets

    res = oracle_block(targets.CASES["C19"](case["data"]))
    res.label("atheris")
    return res


SUBS["atheris"] = oracle_atheris


def run(rec, only=None):
    quick = rec.tier == "quick"
    core.drive_cases(rec, "wsgi_slow", slow_client_cases(), oracle_wsgi)
    rec.exhaustive["wsgi_slow"] = True
    for side, case in flow_fixed_cases():
        core.drive_cases(rec, side, [case], oracle_asgi if side == "asgi" else oracle_wsgi)
    core.drive_cases(rec, "sep", sep_cases(), oracle_block)
    rec.exhaustive["sep"] = True
    core.drive_cases(rec, "fields", field_cases(), oracle_block)
    rec.exhaustive["fields"] = True
    core.drive_cases(rec, "text", text_cases(), oracle_block)
    core.drive_cases(rec, "big", big_cases(), oracle_any)
    core.drive_cases(rec, "same_dict", same_dict_cases(), oracle_any)
    core.drive_cases(rec, "iterables", iterable_cases(), oracle_flow)
    core.drive_cases(rec, "asgi_slow", asgi_slow_cases(), oracle_asgi)
    core.drive_cases(rec, "concurrent", concurrent_cases(), oracle_concurrent)
    for k in ("text", "big", "same_dict", "iterables", "asgi_slow", "concurrent"):
        rec.exhaustive[k] = True
    core.drive_hypothesis(rec, "block", block_case(), oracle_block, 2500 if quick else 60000)
    core.drive_hypothesis(rec, "asgi", flow_case("asgi"), oracle_asgi, 600 if quick else 15000, seed_offset=1)
    core.drive_hypothesis(rec, "wsgi", flow_case("wsgi"), oracle_wsgi, 400 if quick else 8000, seed_offset=2)
    core.drive_hypothesis(rec, "wsgi_ping", wsgi_ping_case(), oracle_wsgi, 25 if quick else 300, seed_offset=3, shrink=False)
    for k in ("block", "asgi", "wsgi", "wsgi_ping"):
        rec.exhaustive[k] = False
    if not quick:
        # coverage-guided second engine (Atheris / libFuzzer), same oracle inside the target
        from fuzz import driver

        driver.campaign(rec, "C19", oracle_atheris, runs=200000, seeds=[b"\x01\x00\x02ab=c;d", b"\x02\x01\x09\x03abc\r\n\x05hello"], max_total_time=120, jobs=4)
