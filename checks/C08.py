"""C08 - The router dispatches to the first matching route with typed parameters."""
from __future__ import annotations

import asyncio
import datetime
import decimal
import itertools
import re
import uuid

from hypothesis import strategies as st

import baize.asgi as basgi
import baize.wsgi as bwsgi
from baize.routing import CONVERTOR_TYPES, Route

from harness import core, gateways as gw
from harness.core import Result
from harness.refs import routes as ref

LEVEL = "exploration"
RULES = {
    "conv": "exhaustive: every string of length <= 4 over the alphabet {0 1 9 . - a / LF ٣ A} x 6 convertor types (+default) x 3 "
    "templates ('/{x:T}', '/v{x:T}.json', '/{x:T}/t'): membership, converted value and to_string round-trip against "
    "explicit per-type languages; non-trivial = the string is within one character class of the type's language (contains a digit "
    "or matches)",
    "table": "Hypothesis: route tables of 1..6 routes (literals with regex metacharacters and Unicode, all placeholder types, mixed "
    "and adjacent placeholders, overlapping routes in every order) x paths sampled from a route's language and mutated into "
    "near-misses, dispatched through the real WSGI and ASGI routers; non-trivial = >= 2 routes match the path, or the path is a "
    "near-miss mutation of a matching path; requests also vary method, root path / SCRIPT_NAME and query string",
    "chars": "enumerated: every code point of a list (all of U+0000..U+00FF, look-alike digits/slashes/letters, line and paragraph "
    "separators, astral characters; thorough: everything below U+3100) alone / appended / prepended / inserted into a member of each "
    "type's language and into literal text, plus percent-escape, '+', ';', '?', '#', blank and decomposed-accent strings, through both "
    "routers; non-trivial = all",
    "names": "enumerated: placeholder names (leading underscore, '_', upper case, digits, keywords; ASCII identifiers only, one a prefix of "
    "another, the same name with different types in different routes) x all types; non-trivial = all",
    "fixed": "enumerated: 15 hand-written tables (catch-all first/last, '' and '{x:any}' routes, chains in which unconvertible text has "
    "to fall through to later routes, composed vs decomposed literals, case variants) x a pool of about 90 paths; non-trivial = all",
    "request": "enumerated: 4 tables x 6 paths x 8 methods x root paths (none, foreign, a prefix of the path, the path itself) x 3 "
    "query strings x {http, websocket scope} x {PATH_INFO present, omitted for the empty path as PEP 3333 allows}; non-trivial = "
    "any field differs from a plain GET",
    "wsgi_bytes": "enumerated: PATH_INFO with bytes that are not UTF-8 (stray continuation / lead bytes, truncated sequences, encoded "
    "surrogate, over-long slash) after / inside text that matches a route; accepted: 404, or the dispatch the reference computes for "
    "the Latin-1, the U+FFFD-replaced or the surrogate-escaped reading of the bytes; non-trivial = all",
    "seq_fixed": "enumerated: every sequence of 2 and 3 requests over a pool of 7 paths on ONE router instance x endpoint behaviour "
    "(copy its parameters / modify its parameter dict afterwards / keep a reference that is compared at the end); each step judged "
    "like a table case; non-trivial = all",
    "seq": "Hypothesis: random tables x 2..6 paths on one router instance x endpoint behaviour; non-trivial = some path occurs twice "
    "or two steps reach different routes",
    "nested": "enumerated: a router as the endpoint of a route of another router (the docstring's '/api/{_:any}' idiom), directly or "
    "behind a Subpaths mount that hands it the rest of the path, x paths; the inner router must dispatch on the path it receives and "
    "its endpoint must get every parameter of the inner route with its converted value; any further key must be a parameter of "
    "the enclosing route with that route's converted value (on a name clash the inner route's value); non-trivial = the inner router is reached",
}
ASSUMPTIONS = [
    "which decomposition is chosen when adjacent placeholders make several possible is left open",
    "integers of more than 4000 digits may be answered 404 or with the exact value; with adjacent placeholders the split is ambiguous, so this "
    "applies to any path with a run of more than 4000 ASCII digits on a route that has an int placeholder",
    "route authors do not repeat a placeholder name within one route and do not put braces in literal text",
    "placeholder names are ASCII identifiers ([A-Za-z_][A-Za-z0-9_]*)",
    "which text a WSGI PATH_INFO that is not UTF-8 stands for is left open (404, Latin-1, U+FFFD or surrogate-escape reading)",
    "what is sent to a websocket client when no route matches is not judged (only that no endpoint runs and nothing is raised)",
    "an endpoint may modify the path parameter dict it received, and may still read it after later requests were dispatched",
]

TYPES = ["str", "int", "decimal", "uuid", "date", "any", None]
PYTYPE = {"str": str, None: str, "any": str, "int": int, "decimal": decimal.Decimal, "uuid": uuid.UUID, "date": datetime.date}


_LONG_DIGITS = re.compile("[0-9]{4001,}")


def _huge_int(route, decs_raw, path=""):
    """An int placeholder may have to take more digits than the interpreter converts (default limit
    4300).  With adjacent placeholders the split is ambiguous, so the test is on the path: a digit run
    of more than 4000 characters in front of a route that has an int placeholder."""
    types = {tok[1]: tok[2] for tok in route if tok[0] == "p"}
    if any(types[k] == "int" and len(v) > 4000 for d in decs_raw for k, v in d.items()):
        return True
    return "int" in types.values() and bool(_LONG_DIGITS.search(path))


def check_roundtrip(r: Result, typ, value, ctx: str) -> None:
    conv = CONVERTOR_TYPES[typ or "str"]
    try:
        s = conv.to_string(value)
    except Exception as exc:  # noqa: BLE001
        r.fail(f"C08:to_string-raises:{typ or 'str'}", f"{ctx}: to_string({value!r}) raised {type(exc).__name__}: {exc}")
        return
    if not isinstance(s, str) or not ref.in_language(typ, s):
        r.fail(f"C08:to_string-outside-language:{typ or 'str'}", f"{ctx}: to_string({value!r}) = {s!r}, which the placeholder does not accept")
        return
    try:
        back = conv.to_python(s)
    except Exception as exc:  # noqa: BLE001
        r.fail(f"C08:roundtrip-raises:{typ or 'str'}", f"{ctx}: to_python({s!r}) raised {type(exc).__name__}")
        return
    if back != value or type(back) is not type(value):
        r.fail(f"C08:roundtrip-differs:{typ or 'str'}", f"{ctx}: {value!r} -> {s!r} -> {back!r}")


# ------------------------------------------------------------------------------------------
# exhaustive convertor domain (direct Route.matches)

CONV_TEMPLATES = [
    [["p", "x", "T"]],
    [["lit", "/v"], ["p", "x", "T"], ["lit", ".json"]],
    [["lit", "/"], ["p", "x", "T"], ["lit", "/t"]],
]


def oracle_conv(case) -> Result:
    r = Result()
    typ, s, tno = case["type"], case["s"], case["tpl"]
    route = [[*tok] if tok[0] == "lit" else ["p", "x", typ] for tok in CONV_TEMPLATES[tno]]
    if tno == 0:
        route = [["lit", "/"]] + route
    path = "".join(tok[1] if tok[0] == "lit" else s for tok in route)
    r.key = (typ, s, tno)
    rt = Route(ref.template(route), "endpoint")
    try:
        ok, params = rt.matches(path)
    except Exception as exc:  # noqa: BLE001
        r.fail(f"C08:matches-raises:{typ or 'str'}:{type(exc).__name__}", f"Route({ref.template(route)!r}).matches({path!r}) raised {type(exc).__name__}: {exc}")
        return r
    decs = ref.decompositions(route, path)
    want = bool(decs)
    r.label(f"type={typ or 'default'}", "match" if want else "no-match")
    r.nontrivial = want or any(c.isdigit() for c in s)
    if ok != want:
        r.fail(
            f"C08:membership:{typ or 'str'}:{'accepts-outside-language' if ok else 'rejects-member'}",
            f"template {ref.template(route)!r} path {path!r}: router says {ok}, reference language says {want}",
        )
        return r
    if ok:
        admissible = [{k: ref.convert(typ, v) for k, v in d.items()} for d in decs]
        if not any(params == a and all(type(params[k]) is type(a[k]) for k in a) for a in admissible):
            r.fail(f"C08:param-value:{typ or 'str'}", f"template {ref.template(route)!r} path {path!r}: params {params!r}, expected one of {admissible!r}")
        else:
            check_roundtrip(r, typ, params["x"], f"path {path!r}")
    return r


# ------------------------------------------------------------------------------------------
# tables through both routers

MODES = ("copy", "mutate", "hold")


def _apps(routes, mode="copy", held=None, tag=None, override=None):
    """Both routers over the same table.  Endpoint i records (side, i, copy of its path parameters).
    mode 'mutate': the endpoint then empties and rewrites the dict it was given (its own request's data);
    mode 'hold': it keeps the live dict, with a snapshot, in `held` (a handler that is still running -
    streaming, background work, a concurrent ASGI request - while later requests are dispatched).
    override = {index: (wsgi_app, asgi_app)} puts other applications (an inner router) at some routes."""
    calls = []

    def after(side, i, params):
        ident = i if tag is None else (tag, i)
        calls.append((side, ident, dict(params)))
        if mode == "hold" and held is not None:
            held.append((side, ident, dict(params), params))
        elif mode == "mutate":
            params.clear()
            params["clobbered-by-endpoint"] = True

    def wsgi_ep(i):
        def ep(environ, start_response):
            req = bwsgi.Request(environ)
            after("wsgi", i, req.path_params)
            start_response("200 OK", [("content-type", "text/plain")])
            return [str(i).encode()]

        return ep

    def asgi_ep(i):
        async def ep(scope, receive, send):
            if scope["type"] == "websocket":
                after("asgi", i, basgi.WebSocket(scope, receive, send).path_params)
                await send({"type": "websocket.close", "code": 1000})
                return
            req = basgi.Request(scope, receive, send)
            after("asgi", i, req.path_params)
            await send({"type": "http.response.start", "status": 200, "headers": [(b"content-type", b"text/plain")]})
            await send({"type": "http.response.body", "body": str(i).encode()})

        return ep

    override = override or {}
    w = bwsgi.Router(*[(ref.template(rt), override[i][0] if i in override else wsgi_ep(i)) for i, rt in enumerate(routes)])
    a = basgi.Router(*[(ref.template(rt), override[i][1] if i in override else asgi_ep(i)) for i, rt in enumerate(routes)])
    return w, a, calls


def _expect(routes, path):
    """(index of the first route with a decomposition or None, admissible parameter dicts, over-long int, number of matching routes)"""
    exp_idx, admissible, huge, matching = None, [], False, 0
    for idx, rt in enumerate(routes):
        decs = ref.decompositions(rt, path)
        if decs:
            matching += 1
            if exp_idx is None:
                exp_idx = idx
                huge = _huge_int(rt, decs, path)
                if not huge:
                    types = {tok[1]: tok[2] for tok in rt if tok[0] == "p"}
                    admissible = [{k: ref.convert(types[k], v) for k, v in d.items()} for d in decs]
    return exp_idx, admissible, huge, matching


def _judge_side(r, side, routes, path, exp, exc, status, body, mine, ctx, judge_answer=True):
    """One interface's verdict for one request.  mine = [(side, route index, parameters)] of the endpoints that ran."""
    exp_idx, admissible, huge, _ = exp
    if exc is not None:
        r.fail(f"C08:{side}:raises:{type(exc).__name__}", f"{ctx}: {side} router raised {type(exc).__name__}: {exc}")
        return
    if huge:
        # accepted variation: the over-long integer is delivered exactly, or the route is treated
        # as not matching (404 or a later route); only "no crash" and agreement of both sides apply
        ok404 = (status == 404 or not judge_answer) and not mine
        ok200 = (status == 200 or not judge_answer) and len(mine) == 1 and mine[0][1] >= exp_idx
        if not (ok404 or ok200):
            r.fail(f"C08:{side}:huge-int", f"{ctx[:300]}: status {status} calls {str(mine)[:200]}")
        return
    if exp_idx is None:
        if mine or (judge_answer and (status != 404 or body != b"")):
            r.fail(f"C08:{side}:no-route-but-dispatched", f"{ctx}: no route matches, got status {status} body {body!r} endpoint calls {mine!r}")
        return
    if len(mine) != 1:
        r.fail(f"C08:{side}:endpoint-not-run", f"{ctx}: expected route #{exp_idx}, status {status}, endpoint calls {mine!r}")
        return
    _, idx, params = mine[0]
    if idx != exp_idx:
        r.fail(f"C08:{side}:wrong-route", f"{ctx}: route #{idx} ran, first matching route is #{exp_idx}")
        return
    if not ref.admits(routes[idx], path, params):
        r.fail(f"C08:{side}:param-value", f"{ctx}: path_params {params!r} are not the converted values of any decomposition, e.g. {admissible[:2]!r}")
        return
    types = {tok[1]: tok[2] for tok in routes[idx] if tok[0] == "p"}
    for k, v in params.items():
        check_roundtrip(r, types[k], v, ctx)


def _labels(r, routes):
    for rt in routes:
        for tok in rt:
            if tok[0] == "p":
                r.label(f"has-{tok[2] or 'default'}")


def oracle_table(case) -> Result:
    r = Result()
    routes, path = case["routes"], case["path"]
    tpl = [ref.template(rt) for rt in routes]
    ctx = f"routes {tpl!r} path {path!r}"
    if str(case.get("mutation", "")).startswith("char:"):
        r.key = (tuple(tpl), path)
    extra = {k: case[k] for k in ("method", "root_path", "query") if case.get(k)}
    if extra:
        ctx += f" request {extra!r}"
    w, a, calls = _apps(routes)
    exp = _expect(routes, path)
    rq = gw.areq(path=path, method=case.get("method") or "GET", root_path=case.get("root_path") or "", query=(case.get("query") or "").encode("latin-1"))
    runs = {"wsgi": gw.call_wsgi(w, rq), "asgi": gw.call_asgi(a, rq)}
    for side, run in runs.items():
        mine = [c for c in calls if c[0] == side]
        _judge_side(r, side, routes, path, exp, run.exc, run.status_code, run.body, mine, ctx)
    wc = [c[1:] for c in calls if c[0] == "wsgi"]
    ac = [c[1:] for c in calls if c[0] == "asgi"]
    if not r.failures and (wc != ac or runs["wsgi"].status_code != runs["asgi"].status_code):
        r.fail("C08:interfaces-disagree", f"{ctx}: wsgi {runs['wsgi'].status_code} {wc!r} vs asgi {runs['asgi'].status_code} {ac!r}")
    matching = exp[3]
    r.nontrivial = matching >= 2 or case.get("mutation") not in (None, "none", "unrelated")
    r.label(f"matching={min(matching, 3)}", f"mut={case.get('mutation')}", f"routes={len(routes)}")
    if extra:
        r.label(*[f"request-{k}" for k in extra])
    _labels(r, routes)
    r.note = {"expected_route": exp[0], "wsgi": runs["wsgi"].status_code, "asgi": runs["asgi"].status_code}
    return r


# ------------------------------------------------------------------------------------------
# request variants: method, root path, query, PATH_INFO omitted, websocket scope


def _omit_empty_path_info(app):
    """PEP 3333: CGI variables 'must be present, unless their value would be an empty string, in which
    case they may be omitted'.  A server that leaves PATH_INFO out for the empty path."""

    def server(environ, start_response):
        if environ.get("PATH_INFO") == "":
            del environ["PATH_INFO"]
        return app(environ, start_response)

    return server


async def _run_websocket(app, scope):
    sent = []
    script = [{"type": "websocket.connect"}, {"type": "websocket.disconnect", "code": 1001}]

    async def receive():
        return script.pop(0) if script else {"type": "websocket.disconnect", "code": 1001}

    async def send(message):
        await asyncio.sleep(0)
        sent.append(dict(message))

    try:
        await app(scope, receive, send)
    except Exception as exc:  # noqa: BLE001 - reported as a failure of the case by the caller
        return exc, sent
    return None, sent


def oracle_request(case) -> Result:
    r = Result()
    routes, path = case["routes"], case["path"]
    method, root_path, query = case.get("method") or "GET", case.get("root_path") or "", case.get("query") or ""
    omit, ws = bool(case.get("omit_path_info")), bool(case.get("ws"))
    tpl = [ref.template(rt) for rt in routes]
    ctx = f"routes {tpl!r} path {path!r} method {method} root_path {root_path!r} query {query!r}" + (" PATH_INFO omitted" if omit else "") + (" websocket scope" if ws else "")
    w, a, calls = _apps(routes)
    exp = _expect(routes, path)
    rq = gw.areq(path=path, method=method, root_path=root_path, query=query.encode("latin-1"))
    if not ws:
        run = gw.call_wsgi(_omit_empty_path_info(w) if omit else w, rq)
        _judge_side(r, "wsgi", routes, path, exp, run.exc, run.status_code, run.body, [c for c in calls if c[0] == "wsgi"], ctx)
        run = gw.call_asgi(a, rq)
        _judge_side(r, "asgi", routes, path, exp, run.exc, run.status_code, run.body, [c for c in calls if c[0] == "asgi"], ctx)
    else:
        scope = gw.make_scope(rq)
        scope["type"] = "websocket"
        scope["scheme"] = "ws"
        scope["subprotocols"] = []
        del scope["method"]
        exc, sent = gw.run_sync(_run_websocket(a, scope))
        # what a client is told when nothing matches is not judged on this scope type
        _judge_side(r, "asgi-websocket", routes, path, exp, exc, None, b"", [("asgi-websocket",) + c[1:] for c in calls if c[0] == "asgi"], ctx, judge_answer=False)
    r.nontrivial = bool(method != "GET" or root_path or query or omit or ws)
    r.label(f"method={method}", "root=" + ("none" if not root_path else "path" if root_path == path else "prefix" if path.startswith(root_path) else "foreign"),
            f"query={bool(query)}", f"omit={omit}", f"ws={ws}", "match" if exp[0] is not None else "no-match")
    return r


# ------------------------------------------------------------------------------------------
# WSGI PATH_INFO that is not UTF-8


def oracle_wsgi_bytes(case) -> Result:
    r = Result()
    routes, raw = case["routes"], bytes(case["path_bytes"])
    tpl = [ref.template(rt) for rt in routes]
    ctx = f"routes {tpl!r} PATH_INFO bytes {raw!r}"
    try:
        readings = [raw.decode("utf-8")]
    except UnicodeDecodeError:
        readings = [raw.decode("latin-1"), raw.decode("utf-8", "replace"), raw.decode("utf-8", "surrogateescape")]
    w, _, calls = _apps(routes)
    run = gw.call_wsgi(w, gw.areq(path_bytes=raw))
    r.nontrivial = True
    r.label("undecodable" if len(readings) > 1 else "utf-8")
    if run.exc is not None:
        r.fail(f"C08:wsgi-bytes:raises:{type(run.exc).__name__}", f"{ctx}: router raised {type(run.exc).__name__}: {run.exc}")
        return r
    if not calls:
        if run.status_code != 404:
            r.fail("C08:wsgi-bytes:no-endpoint-no-404", f"{ctx}: no endpoint ran, status {run.status_code}")
        elif len(readings) == 1 and _expect(routes, readings[0])[0] is not None:
            r.fail("C08:wsgi-bytes:endpoint-not-run", f"{ctx}: 404 although route #{_expect(routes, readings[0])[0]} matches")
        return r
    ok = False
    for text in readings:
        exp_idx = _expect(routes, text)[0]
        if exp_idx is not None and len(calls) == 1 and calls[0][1] == exp_idx and ref.admits(routes[exp_idx], text, calls[0][2]):
            ok = True
    if not ok:
        r.fail("C08:wsgi-bytes:dispatch-under-no-reading", f"{ctx}: endpoint calls {calls!r} with status {run.status_code}; under the readings "
               f"{readings!r} the first matching routes are {[_expect(routes, t)[0] for t in readings]!r}")
    return r


# ------------------------------------------------------------------------------------------
# several requests on one router instance


def oracle_seq(case) -> Result:
    r = Result()
    routes, paths, mode = case["routes"], case["paths"], case.get("mode", "copy")
    tpl = [ref.template(rt) for rt in routes]
    held = []
    w, a, calls = _apps(routes, mode, held)
    reached = set()
    for step, path in enumerate(paths):
        ctx = f"routes {tpl!r}, endpoints in mode {mode!r}, request #{step + 1} of {paths!r}, path {path!r}"
        exp = _expect(routes, path)
        reached.add(exp[0])
        rq = gw.areq(path=path)
        before = len(calls)
        wrun = gw.call_wsgi(w, rq)
        wcalls = calls[before:]
        before = len(calls)
        arun = gw.call_asgi(a, rq)
        acalls = calls[before:]
        n = len(r.failures)
        _judge_side(r, "wsgi", routes, path, exp, wrun.exc, wrun.status_code, wrun.body, [c for c in wcalls if c[0] == "wsgi"], ctx)
        _judge_side(r, "asgi", routes, path, exp, arun.exc, arun.status_code, arun.body, [c for c in acalls if c[0] == "asgi"], ctx)
        if len(r.failures) > n:
            # name the clause: the same request is judged alone by the other sub-checks
            for f in r.failures[n:]:
                f.bucket = f.bucket.replace("C08:", "C08:seq:", 1)
            break
    if not r.failures:
        for side, ident, snapshot, live in held:
            if live != snapshot:
                r.fail(f"C08:seq:{side}:params-changed-by-later-request", f"routes {tpl!r} requests {paths!r}: the parameters {snapshot!r} handed to route #{ident} "
                       f"read {live!r} after the later requests were dispatched")
                break
    r.nontrivial = len(set(paths)) < len(paths) or len(reached) >= 2
    r.label(f"mode={mode}", f"steps={len(paths)}", f"routes-reached={min(len(reached), 3)}", "repeat" if len(set(paths)) < len(paths) else "distinct")
    r.weight = max(1, len(paths))
    return r


# ------------------------------------------------------------------------------------------
# a router as an endpoint of a router


def oracle_nested(case) -> Result:
    r = Result()
    outer, inner, mount, path, prefix = case["outer"], case["inner"], case["mount"], case["path"], case.get("prefix") or ""
    ctx = f"outer routes {[ref.template(t) for t in outer]!r} (route #{mount} -> " + (f"Subpaths({prefix!r}) -> " if prefix else "") + f"inner router {[ref.template(t) for t in inner]!r}) path {path!r}"
    iw, ia, icalls = _apps(inner, tag="inner")
    if prefix:
        # the mount hands the inner router the rest of the path (its request path)
        iw, ia = bwsgi.Subpaths((prefix, iw)), basgi.Subpaths((prefix, ia))
        inner_path = path[len(prefix):] if path == prefix or path.startswith(prefix + "/") else None
    else:
        inner_path = path
    ow, oa, ocalls = _apps(outer, tag="outer", override={mount: (iw, ia)})
    oexp = _expect(outer, path)
    rq = gw.areq(path=path)
    for side, run in (("wsgi", gw.call_wsgi(ow, rq)), ("asgi", gw.call_asgi(oa, rq))):
        omine = [(s, ident[1], p) for s, ident, p in ocalls if s == side]
        imine = [(s, ident[1], p) for s, ident, p in icalls if s == side]
        if oexp[0] != mount:
            if imine:
                r.fail(f"C08:nested:{side}:inner-reached", f"{ctx}: inner endpoints ran {imine!r} although outer route #{oexp[0]} comes first")
            _judge_side(r, side, outer, path, oexp, run.exc, run.status_code, run.body, omine, ctx)
            continue
        if omine:
            r.fail(f"C08:nested:{side}:wrong-route", f"{ctx}: outer endpoints ran {omine!r}, the first matching outer route is the inner router")
            continue
        n = len(r.failures)
        iexp = _expect(inner, inner_path) if inner_path is not None else (None, [], False, 0)
        # the statement fixes what arrives for the matched (inner) route's placeholders; parameters of the enclosing
        # route may be visible as well, but only with the values that route's placeholders denote
        judged = imine
        if len(imine) == 1 and iexp[0] is not None and imine[0][1] == iexp[0]:
            own = {tok[1] for tok in inner[iexp[0]] if tok[0] == "p"}
            got = imine[0][2]
            extra = {k: v for k, v in got.items() if k not in own}
            judged = [(imine[0][0], imine[0][1], {k: v for k, v in got.items() if k in own})]
            if extra and not any(all(k in adm and adm[k] == v and type(adm[k]) is type(v) for k, v in extra.items()) for adm in oexp[1]):
                r.fail(f"C08:{side}:foreign-params", f"{ctx}: the inner endpoint got {got!r}; {extra!r} are neither parameters of the inner route "
                       f"{ref.template(inner[iexp[0]])!r} nor the converted parameters of the enclosing route, e.g. {oexp[1][:2]!r}")
        _judge_side(r, side, inner, inner_path if inner_path is not None else path, iexp, run.exc, run.status_code, run.body, judged, ctx + f" [inner router, its request path {inner_path!r}]")
        for f in r.failures[n:]:
            f.bucket = f.bucket.replace("C08:", "C08:nested:", 1)
    r.nontrivial = oexp[0] == mount and inner_path is not None
    r.label("inner" if oexp[0] == mount else "outer" if oexp[0] is not None else "none", "via-mount" if prefix else "direct")
    return r


SUBS = {
    "conv": oracle_conv,
    "table": oracle_table,
    "chars": oracle_table,
    "names": oracle_table,
    "fixed": oracle_table,
    "request": oracle_request,
    "wsgi_bytes": oracle_wsgi_bytes,
    "seq_fixed": oracle_seq,
    "seq": oracle_seq,
    "nested": oracle_nested,
}

# ------------------------------------------------------------------------------------------
# generation

CONV_ALPHABET = ["0", "1", "9", ".", "-", "a", "/", "\n", "٣", "A"]

CONV_EXTRA = [
    "2021-03-07", "2021-13-45", "0000-01-01", "2020-02-29", "2021-02-29", "2021-1-01", "2021-03-7", "2021-3-7", "2021-03-007", "21-03-07", "٢٠٢١-٠٣-٠٧", "2021-03-07\n",
    "90478484-0988-45fc-91fe-757d90136892", "90478484-0988-45FC-91fe-757d90136892", "90478484098845fc91fe757d90136892",
    "9047848-40988-45fc-91fe-757d90136892", "----90478484098845fc91fe757d90136892", "90478484098845fc91fe757d90136892----", "90478484--098845fc-91fe-757d90136892",
    "90478484-0988-45fc-91fe-757d9013689-", "-0478484-0988-45fc-91fe-757d90136892", "90478484-0988-45fc-91fe-757d9013689", "90478484-0988-45fc-91fe-757d901368922",
    "9047848a-0988-45fc-91fe-757d90136892", "9047848A-0988-45fc-91fe-757d90136892", "9047848a-098B-45fc-91fe-757d90136892",
    "9047848a-0988-45fc-91FE-757d90136892", "9047848a-0988-45fc-91fe-757D90136892", "9047848a-0988-45fc-91fe-757d9013689",
    "{9047848a-0988-45fc-91fe-757d90136892}", "urn:uuid:9047848a-0988-45fc-91fe-757d90136892", "9047848g-0988-45fc-91fe-757d90136892",
    "100", "0", "00", "1.50", "1.", ".5", "1x2", "1.2.3", "10.010", "0.0", "123456789012345678901234567890", "１２", "-1",
    "1e5", "1_0", " 1", "1 ", "+1", "0x10", "",
    # numbers at the edges of other representations: 19..4000 digits (machine words, float mantissa, any digit cap below the
    # interpreter's conversion limit), fractions that str() would print with an exponent, more significant digits than the
    # default decimal context keeps, all-zero spellings
    "9223372036854775807", "9223372036854775808", "18446744073709551616", "9" * 41, "1" + "0" * 100, "7" * 1000, "1" + "0" * 3999, "0" * 50 + "7",
    "0.1", "0.000001", "0.0000001", "0.00000000000000000001", "1.0000000", "100.0", "1000000.000001", "0.30000000000000004", "000.000", "0000000000.5",
    "0.12345678901234567890123456789012345", "123456789.123456789123456789123456789", "1" + "0" * 30 + ".5", "9" * 60 + "." + "9" * 60, "1." + "0" * 40 + "1",
    "00000000-0000-0000-0000-000000000000", "ffffffff-ffff-ffff-ffff-ffffffffffff", "12345678-1234-1234-1234-123456789abc", "12345678-1234-5678-1234-567812345678",
    "0001-01-01", "0999-12-31", "1000-01-01", "9999-12-31", "1900-02-29", "2000-02-29", "2021-04-31", "2021-12-31", "2021-00-01", "2021-01-00",
    # text that other layers treat specially
    "%41", "%2F", "%2f", "a%20b", "%", "%%", "%zz", "a+b", "a b", "a;b=c", "a?b=c", "a#b", "?", "#", ";", " a", "a ", "\ta", "a\t", "\r", "a\r\n", "\x00", "a\x00b",
    "e\u0301", "é", "\u212a", "\u017f", "\u2028", "\u0085", "a\u2028", "\U0001f600", "{x}", "a:b", "a,b", "a=b", "a&b", "a@b", "~", "'", '"', "<a>", "a|b", "\\",
]


def conv_shard(rec, k, nshards, maxlen):
    g = core.guarded(oracle_conv)
    i = 0
    strings = [""] + ["".join(t) for n in range(1, maxlen + 1) for t in itertools.product(CONV_ALPHABET, repeat=n)] + CONV_EXTRA
    for typ in TYPES:
        for tno in range(len(CONV_TEMPLATES)):
            for s in strings:
                i += 1
                if i % nshards != k:
                    continue
                case = {"type": typ, "s": s, "tpl": tno}
                res = g(case)
                rec.count("conv", case, res)
                new, old = rec.split(res)
                rec.note_known(old)
                for f in new:
                    rec.add_violation("conv", f, case)
                    rec.skip.add(f.bucket)


# ---- enumerated tables --------------------------------------------------------------------

_TPL_TOKEN = re.compile(r"\{(\w+)(?::(\w+))?\}")


def parse(template):
    """'/a/{x:int}.json' -> [["lit", "/a/"], ["p", "x", "int"], ["lit", ".json"]] (harness-side notation only)."""
    toks, idx = [], 0
    for m in _TPL_TOKEN.finditer(template):
        if m.start() > idx:
            toks.append(["lit", template[idx:m.start()]])
        toks.append(["p", m.group(1), m.group(2)])
        idx = m.end()
    if idx < len(template) or not toks:
        toks.append(["lit", template[idx:]])
    return toks


UUID_S = "90478484-0988-45fc-91fe-757d90136892"
BASE = {"str": "ab", None: "ab", "any": "ab", "int": "12", "decimal": "1.5", "uuid": UUID_S, "date": "2021-03-07"}

SPECIAL_CPS = [
    0x2028, 0x2029, 0x200B, 0x200D, 0x202E, 0x2000, 0x1680, 0x3000, 0xFEFF, 0xFFFD, 0xFFFF, 0xE000,  # separators, blanks, specials
    0x0660, 0x0663, 0x06F1, 0x0967, 0x0E51, 0xFF10, 0xFF11, 0x1D7CF, 0x00B2, 0x00BD, 0x2460, 0x3007,  # digits that are not ASCII digits
    0x2044, 0x2215, 0xFF0F, 0x29F8, 0x2024, 0xFF0E, 0xFF0D, 0x2010, 0x2212,  # look-alikes of '/', '.', '-'
    0x212A, 0x017F, 0x0130, 0x0131, 0xFF21, 0xFF41, 0x0410, 0x0430, 0x0391, 0x03B1, 0x0301, 0x0308, 0x00DF, 0x1E9E,  # case-folding / look-alike letters, combining marks
    0x4E2D, 0x10000, 0x1F600, 0x10FFFF,
]


def _label_cp(cp):
    if cp < 0x20 or cp == 0x7F:
        return "ascii-control"
    if cp < 0x80:
        return "ascii-alnum" if chr(cp).isalnum() else "ascii-punct"
    return "latin-1" if cp < 0x100 else "bmp" if cp < 0x10000 else "astral"


def chars_cases(quick):
    top = 0x100 if quick else 0x3100
    cps = list(range(0, top)) + [cp for cp in SPECIAL_CPS if cp >= top]
    for cp in cps:
        c = chr(cp)
        for typ in TYPES[:-1]:  # the default type is the str convertor: covered by conv, names and table
            base = BASE[typ]
            mid = len(base) // 2
            routes = [[["lit", "/ka"]], [["lit", "/w/"], ["p", "y", typ], ["lit", ".j"]], [["lit", "/"], ["p", "x", typ]]]
            paths = ["/" + s for s in (c, base + c, c + base, base[:mid] + c + base[mid:], base[:mid] + c + base[mid + 1:])]
            paths += ["/w/" + base + c + ".j", "/w/" + c + base + ".j", "/w/" + base + c + "j", "/w/" + base + "." + c]
            if typ in ("str", "int"):  # literal text with the character appended / inserted / in front / in place of a letter
                paths += ["/ka" + c, "/k" + c + "a", c + "/ka", "/" + c + "a"]
            for path in paths:
                yield {"routes": routes, "path": path, "mutation": "char:" + _label_cp(cp)}


NAMES = ["_", "_id", "__", "_1", "id", "ID", "Id", "user_id", "x1", "a", "ab", "abc", "class", "from", "self", "name", "path", "format", "type", "T", "n" * 40]
SAMPLE = {"str": ["abc"], None: ["abc"], "any": ["a/b", ""], "int": ["42"], "decimal": ["4.20"], "uuid": [UUID_S], "date": ["2021-03-07"]}


def names_cases(quick):
    for name in NAMES:
        for typ in TYPES:
            other = "ab" if name == "a" else "a" if name == "ab" else name + "2"
            tables = [
                [[["lit", "/u/"], ["p", name, typ]]],
                [[["lit", "/u/"], ["p", name, "int"]], [["lit", "/u/"], ["p", name, typ]], [["lit", "/"], ["p", name, "any"]]],
                [[["lit", "/"], ["p", other, None], ["lit", "/"], ["p", name, typ]], [["lit", "/"], ["p", name, None], ["lit", "/"], ["p", other, "any"]]],
            ]
            for routes in tables:
                for s in SAMPLE[typ] + ["7", "!"]:
                    for path in ("/u/" + s, "/q/" + s):
                        yield {"routes": routes, "path": path, "mutation": "name"}


FIXED_TABLES = [
    ["/", "/a", "/{x}", "/a/{y:int}", "/{rest:any}"],
    ["/{rest:any}", "/", "/a", "/a/{y:int}"],
    ["", "{rest:any}", "/"],
    ["{rest:any}", ""],
    ["/"],
    ["/d/{x:date}", "/d/{y:uuid}", "/d/{z:int}", "/d/{w:decimal}", "/d/{v}", "/d/{u:any}"],
    ["/d/{u:any}", "/d/{v}", "/d/{w:decimal}", "/d/{z:int}", "/d/{y:uuid}", "/d/{x:date}"],
    ["/d/{x:date}/{n:int}", "/d/{s}/{n:int}", "/d/{x:date}/{t}", "/{p}/2021-13-45/{q}", "/{rest:any}"],
    ["/f/{n:int}.{ext}", "/f/{name}.json", "/f/{rest:any}"],
    ["/a.b", "/a+b", "/a/", "/a", "/a?x", "/a;x=1", "/a%2Fb", "/a b"],
    ["/é", "/e\u0301", "/{x}"],
    ["/e\u0301", "/é", "/{x}"],
    ["/ka", "/KA", "/{x:int}"],
    ["/KA", "/{x}"],
    ["/p/{amount:decimal}/{cur}", "/p/{amount:decimal}{unit}/{n:int}", "/a.b/{x}", "/a.b/{x:int}/c.d"],
]
FIXED_PATHS = [
    "", "/", "//", "/a", "/a/", "/a/1", "/a/01", "/a/x", "/a/1/", "/A", "a", "/a\n", "/\n", "\n", " ", "/ ", " /", "/a ", "/a/1 ",
    "/d/2021-03-07", "/d/2021-13-45", "/d/0000-01-01", "/d/2021-02-29", "/d/2020-02-29", "/d/2021-02-30", "/d/" + UUID_S, "/d/" + UUID_S[:-1] + "X", "/d/" + UUID_S.upper(),
    "/d/12", "/d/12.5", "/d/12.", "/d/٣", "/d/x", "/d/x/y", "/d/", "/d", "/d/2021-13-45/7", "/d/2021-03-07/7", "/d/2021-13-45/x", "/d/2021-03-07/x", "/d/2021-13-45/7/8",
    "/f/1.json", "/f/a.json", "/f/1.2.json", "/f/.json", "/f/a/b.json", "/f/1.", "/f/1",
    "/a.b", "/aXb", "/a+b", "/aab", "/é", "/e\u0301", "/e", "/ka", "/KA", "/Ka", "/\u212aa", "/\u212aA", "/ka\u0301",
    "/p/1.5/eur", "/p/1/eur", "/p/1.5kg/3", "/p/1.kg/3", "/p/15/3", "/a.b/1", "/aXb/1", "/a.b/1/c.d", "/a.b/1/cXd", "/a.b/1/c.d\n",
    "/a;x=1", "/a;", "/a?x", "/a?", "/a#x", "/a%2Fb", "/a%2fb", "/a/b", "/a%20b", "/a b", "/a+b", "/a/%31", "/a/1?", "/a/1;v=2", "/a/1#f", "/a/+1", "/a/1%0A",
]


def fixed_cases(quick):
    for tbl in FIXED_TABLES:
        routes = [parse(t) for t in tbl]
        for path in FIXED_PATHS:
            yield {"routes": routes, "path": path, "mutation": "fixed"}


REQUEST_TABLES = [FIXED_TABLES[0], FIXED_TABLES[1], FIXED_TABLES[2], ["/mnt/a", "/a/{y:int}", "/mnt"]]
REQUEST_PATHS = ["", "/", "/a", "/a/1", "/zz/y", "/mnt/a"]
METHODS = ["GET", "HEAD", "POST", "PUT", "DELETE", "PATCH", "OPTIONS", "PROPFIND"]


def request_cases(quick):
    for tbl in REQUEST_TABLES:
        routes = [parse(t) for t in tbl]
        for path in REQUEST_PATHS:
            roots = ["", "/mnt", "/a"] + ([path] if path not in ("", "/mnt", "/a") else [])
            for method in METHODS:
                for root_path in roots:
                    for query in ("", "x=1", "/a"):
                        for omit in ((False, True) if path == "" else (False,)):
                            yield {"routes": routes, "path": path, "method": method, "root_path": root_path, "query": query, "omit_path_info": omit, "ws": False}
                        if method == "GET":
                            yield {"routes": routes, "path": path, "method": method, "root_path": root_path, "query": query, "omit_path_info": False, "ws": True}


BYTES_TABLES = [["/a", "/a/b", "/é", "/x/12"], ["/a", "/{x}"], ["/a", "/{r:any}"], ["/x/{n:int}", "/x/{d:date}", "/x/{u:uuid}"], ["/a/{s}/b", "/a/b"]]
BYTES_BASES = [b"/a", b"/a/b", b"/\xc3\xa9", b"/x/12", b"/x/2021-03-07", b"/x/" + UUID_S.encode(), b"/a/q/b", b"/"]
BAD_BYTES = [b"\xff", b"\x80", b"\xbf", b"\xc3", b"\xe2\x82", b"\xf0\x9f\x98", b"\xed\xa0\x80", b"\xc0\xaf", b"\xc0\x80", b"\xf8\x88\x80\x80\x80", b"\xfe", b"\xc3\x28"]


def bytes_cases(quick):
    for tbl in BYTES_TABLES:
        routes = [parse(t) for t in tbl]
        for base in BYTES_BASES:
            yield {"routes": routes, "path_bytes": base}
            for bad in BAD_BYTES:
                for pos in sorted({len(base), 1, len(base) // 2 + 1, 0}):
                    if 0 < pos < len(base) and (base[pos] & 0xC0) == 0x80:
                        continue  # not inside a multi-byte character of the base text
                    yield {"routes": routes, "path_bytes": base[:pos] + bad + base[pos:]}


SEQ_TABLES = [
    (["/a/{x:int}", "/a/{x}", "/b/{y:date}", "/{rest:any}"], ["/a/1", "/a/2", "/a/b", "/b/2021-03-07", "/b/2021-13-45", "/zz", ""]),
    (["/{x}", "/s", "/s/{rest:any}"], ["/s", "/t", "/s/a/b", "/s/", "", "/s/a/b/", "/1"]),
]


def seq_fixed_cases(quick):
    for tbl, pool in SEQ_TABLES:
        routes = [parse(t) for t in tbl]
        for n in (2, 3):
            for paths in itertools.product(pool, repeat=n):
                for mode in MODES:
                    yield {"routes": routes, "paths": list(paths), "mode": mode}


NESTED = [
    (["/api/{_:any}", "/{rest:any}"], 0, ["/api/users", "/api/users/{id:int}", "/api/{name}/x", "/api/{_}/y/{z:date}"]),
    (["/{version}/{rest:any}", "/about"], 0, ["/v1/items", "/{v}/items/{id:int}", "/v1/{rest:any}"]),
    (["/api/status", "/api/{_:any}", "/{a}/{b}"], 1, ["/api/status", "/api/{x:decimal}", "/api/{a}/{b}"]),
    (["/static/{filepath:any}", "/api"], 1, ["/api", "/{x}"]),
]
NESTED_PATHS = ["/api/users", "/api/users/5", "/api/users/x", "/api/bob/x", "/api/bob/y/2021-03-07", "/api/bob/y/2021-13-45", "/api/none/none/none", "/api/", "/api", "/api/status",
                "/api/1.5", "/other", "/about", "/v1/items", "/v1/items/9", "/v2/items/9", "/v1/x/y", "/v1/", "/static/a/b", "", "/"]


NESTED_MOUNTED = [
    (["/{rest:any}"], 0, "/api", ["/users", "/users/{id:int}", "/{name}/x", "", "/"]),
    (["/api/{_:any}", "/{rest:any}"], 0, "/api", ["/users/{id:int}", "/{rest:any}"]),
    (["/x", "/{a}/{b:any}"], 1, "/v1", ["/items", "/items/{id:int}", "/v1/items"]),
]


def nested_cases(quick):
    for outer, mount, inner in NESTED:
        for path in NESTED_PATHS:
            yield {"outer": [parse(t) for t in outer], "mount": mount, "inner": [parse(t) for t in inner], "path": path}
    for outer, mount, prefix, inner in NESTED_MOUNTED:
        for path in NESTED_PATHS + ["/apix/users", "/v1/v1/items", "/api/users/"]:
            yield {"outer": [parse(t) for t in outer], "mount": mount, "prefix": prefix, "inner": [parse(t) for t in inner], "path": path}


ENUMS = {
    "chars": (chars_cases, oracle_table),
    "names": (names_cases, oracle_table),
    "fixed": (fixed_cases, oracle_table),
    "request": (request_cases, oracle_request),
    "wsgi_bytes": (bytes_cases, oracle_wsgi_bytes),
    "seq_fixed": (seq_fixed_cases, oracle_seq),
    "nested": (nested_cases, oracle_nested),
}


def enum_shard(rec, k, nshards, sub, quick):
    cases, oracle = ENUMS[sub]
    g = core.guarded(oracle)
    for i, case in enumerate(cases(quick)):
        if i % nshards != k:
            continue
        res = g(case)
        rec.count(sub, case, res)
        new, old = rec.split(res)
        rec.note_known(old)
        for f in new:
            rec.add_violation(sub, f, case)
            rec.skip.add(f.bucket)


# ---- random tables ------------------------------------------------------------------------

_LIT = st.one_of(
    st.sampled_from(
        ["/", "/a", "/b", "/api", "/a.b", "/a+b", "/a*", "/a?", "/(x)", "/[x]", "/x|y", "/^a$", "/a\\d", "/v", ".json", "-", "_", "/é", "/中", "/a/", "//", ".", "/a.", "/user"]
    ),
    st.text(alphabet="/ab.+*?()[]|^$\\-_é1", min_size=1, max_size=4),
)
_TYPE = st.sampled_from(TYPES)
_NAME = st.sampled_from(["_", "_id", "id", "ID", "user_id", "x1", "a", "ab", "name", "rest"])


@st.composite
def route_strategy(draw):
    n = draw(st.integers(1, 4))
    toks = []
    pcount = 0
    toks.append(["lit", "/" + draw(st.sampled_from(["", "a", "api", "a.b", "x+", "é", "v"]))])
    for _ in range(n):
        kind = draw(st.sampled_from(["lit", "p", "p", "p"]))
        if kind == "p":
            # adjacent placeholders are rare and labelled by the oracle via matching counts
            if toks and toks[-1][0] == "p" and draw(st.integers(0, 9)) > 0:
                toks.append(["lit", draw(st.sampled_from(["/", "-", ".", "/x/", "_"]))])
            name = f"p{pcount}"
            if draw(st.integers(0, 3)) == 0:
                other = draw(_NAME)
                if all(tok[0] != "p" or tok[1] != other for tok in toks):
                    name = other
            toks.append(["p", name, draw(_TYPE)])
            pcount += 1
        else:
            if toks and toks[-1][0] == "lit":
                toks[-1] = ["lit", toks[-1][1] + draw(_LIT)]
            else:
                toks.append(["lit", draw(_LIT)])
    return toks


def sample_language(draw, typ):
    typ = typ or "str"
    if typ == "str":
        return draw(st.one_of(st.sampled_from(["a", "abc", "1", "a.b", "x y", "é", "a\nb", "123", "2021-03-07", "a?b", "a#b", "a;b=1", "%41", "a%2Fb", "a+b", " a", "a ", "e\u0301", "\u212a"]),
                              st.text(alphabet="ab1.-_é\n", min_size=1, max_size=5)))
    if typ == "int":
        # longer digit runs are in conv only: adjacent numeric placeholders make the regex engine polynomial in the run length
        return draw(st.one_of(st.sampled_from(["0", "1", "10", "007", "123456789012345678901234567890", "9" * 45]), st.text(alphabet="0123456789", min_size=1, max_size=6)))
    if typ == "decimal":
        return draw(st.sampled_from(["0", "1", "100", "1.5", "0.0", "10.010", "123.09", "00", "3.14159", "1000000.000001", "0.0000001", "100.0", "0.12345678901234567890123456789012345"]))
    if typ == "uuid":
        return draw(st.uuids()).__str__()
    if typ == "date":
        return draw(st.one_of(st.sampled_from(["2021-03-07", "2020-02-29", "0001-01-01", "9999-12-31"]), st.dates().map(lambda d: d.isoformat())))
    return draw(st.one_of(st.sampled_from(["", "a", "a/b", "a/b/c", "x\ny", "/", "a/", "a?b/c#d", "%2F", "a;b"]), st.text(alphabet="ab/\n.1", max_size=6)))


MUTATIONS = ["none", "none", "extra-segment", "missing-char", "empty-segment", "trailing-slash", "trailing-newline", "unicode-digit",
             "upper", "dot", "letter-in-number", "bad-date", "bad-uuid", "literal-char", "unrelated", "huge-int", "prefix-junk", "suffix-junk"]


def _draw_routes(draw):
    routes = draw(st.lists(route_strategy(), min_size=1, max_size=6))
    # overlapping routes: sometimes re-type a copy of an existing route, or add a catch-all
    if draw(st.booleans()):
        src = draw(st.sampled_from(routes))
        clone = [list(t) if t[0] == "lit" else ["p", t[1], draw(_TYPE)] for t in src]
        routes.insert(draw(st.integers(0, len(routes))), clone)
    if draw(st.integers(0, 4)) == 0:
        routes.insert(draw(st.integers(0, len(routes))), [["lit", "/"], ["p", "rest", "any"]])
    return routes[:6]


def _draw_path(draw, routes):
    base = draw(st.sampled_from(routes))
    parts = []
    for tok in base:
        parts.append(tok[1] if tok[0] == "lit" else sample_language(draw, tok[2]))
    mutation = draw(st.sampled_from(MUTATIONS))
    path = "".join(parts)
    if mutation == "extra-segment":
        path += "/x"
    elif mutation == "missing-char" and path:
        i = draw(st.integers(0, len(path) - 1))
        path = path[:i] + path[i + 1:]
    elif mutation == "empty-segment":
        i = draw(st.integers(0, len(path)))
        path = path[:i] + "/" + path[i:]
    elif mutation == "trailing-slash":
        path += "/"
    elif mutation == "trailing-newline":
        path += "\n"
    elif mutation == "unicode-digit":
        path = path.replace("1", "١", 1).replace("2", "２", 1) if any(c in path for c in "12") else path + "٣"
    elif mutation == "upper":
        # upper-case one character inside a placeholder value (e.g. one hex digit of a uuid)
        cands = [(tok, val) for tok, val in zip(base, parts) if tok[0] == "p" and any(c.islower() for c in val)]
        if cands:
            tok, val = draw(st.sampled_from(cands))
            idx = [i for i, c in enumerate(val) if c.islower()]
            i = draw(st.sampled_from(idx))
            path = path.replace(val, val[:i] + val[i].upper() + val[i + 1:], 1)
        else:
            path = path.upper()
    elif mutation == "dot":
        path = path.replace(".", "x", 1) if "." in path else path + "."
    elif mutation == "letter-in-number":
        idx = [i for i, c in enumerate(path) if c.isdigit()]
        if idx:
            i = draw(st.sampled_from(idx))
            path = path[:i] + "x" + path[i + 1:]
    elif mutation == "bad-date":
        path = path.replace("-03-07", "-13-45").replace("-02-29", "-02-30") if "-" in path else path
        for tok, val in zip(base, parts):
            if tok[0] == "p" and tok[2] == "date":
                path = path.replace(val, draw(st.sampled_from(["2021-13-45", "0000-01-01", "2021-02-30", "2021-00-10", "2021-03-7", "2021-3-07", "2021-3-7", "202-03-07", "2021-03-007", "2021-003-07", "21-03-07", "2021/03/07", "2021-03-07T00", "+021-03-07", "2021-03--7", "2021-03-0٧"])), 1)
    elif mutation == "bad-uuid":
        # same 36 characters, hyphens or groups in the wrong place / other near-misses of the canonical form
        for tok, val in zip(base, parts):
            if tok[0] == "p" and tok[2] == "uuid" and len(val) == 36:
                h = val.replace("-", "")
                bad = draw(st.sampled_from([
                    h[:7] + "-" + h[7:12] + "-" + h[12:16] + "-" + h[16:20] + "-" + h[20:],  # first hyphen one place early
                    "----" + h, h + "----", h[:8] + "--" + h[8:12] + h[12:16] + "-" + h[16:20] + "-" + h[20:],
                    h[:8] + "-" + h[8:12] + "-" + h[12:16] + "-" + h[16:20] + "-" + h[20:31] + "-",
                    "{" + val[1:-1] + "}", val[:-1], val + "0", h, "urn:uuid:" + val, val.replace("-", "_", 1), val[:8] + "-" + val[8:].replace("-", "", 1) + "-",
                ]))
                path = path.replace(val, bad, 1)
    elif mutation == "literal-char":
        lits = [tok[1] for tok in base if tok[0] == "lit" and len(tok[1]) > 1]
        if lits:
            lit = draw(st.sampled_from(lits))
            i = draw(st.integers(1, len(lit) - 1))
            path = path.replace(lit, lit[:i] + "X" + lit[i + 1:], 1)
    elif mutation == "unrelated":
        path = draw(st.sampled_from(["", "/", "/nothing", "/a", "//", "/a/b/c", "nothing"]))
    elif mutation == "huge-int":
        for tok, val in zip(base, parts):
            if tok[0] == "p" and tok[2] == "int":
                path = path.replace(val, "9" * 5000, 1)
                break
    elif mutation == "prefix-junk":
        path = "/zz" + path
    elif mutation == "suffix-junk":
        path = path + "zz"
    return path, mutation


@st.composite
def table_case(draw):
    routes = _draw_routes(draw)
    path, mutation = _draw_path(draw, routes)
    case = {"routes": routes, "path": path, "mutation": mutation}
    # the request around the path: none of it takes part in the dispatch
    if draw(st.integers(0, 3)) == 0:
        case["method"] = draw(st.sampled_from(["HEAD", "POST", "PUT", "DELETE", "PATCH", "OPTIONS"]))
    if draw(st.integers(0, 3)) == 0:
        cut = path.find("/", 1)
        case["root_path"] = draw(st.sampled_from(["/mnt", path[:cut] if cut > 0 else "/mnt", path if path.startswith("/") and len(path) > 1 else "/mnt"]))
    if draw(st.integers(0, 5)) == 0:
        case["query"] = draw(st.sampled_from(["x=1", "/a", "path=/", "a=b&c=d"]))
    return case


@st.composite
def seq_case(draw):
    routes = _draw_routes(draw)
    n = draw(st.integers(2, 6))
    paths = []
    for _ in range(n):
        if paths and draw(st.integers(0, 2)) == 0:
            paths.append(draw(st.sampled_from(paths)))  # the same path again
        else:
            paths.append(_draw_path(draw, routes)[0])
    return {"routes": routes, "paths": paths, "mode": draw(st.sampled_from(MODES))}


def _enum(rec, sub, quick, sharded):
    if rec.only is not None and sub not in rec.only:
        return
    if sharded and core.ncpu() > 1:
        core.run_sharded(rec, enum_shard, 16, core.ncpu(), (sub, quick))
    else:
        cases, oracle = ENUMS[sub]
        core.drive_cases(rec, sub, cases(quick), oracle)
    rec.exhaustive[sub] = True



def oracle_atheris(case) -> Result:
    """Replay / triage oracle for inputs found by the Atheris campaign: decode the bytes like the fuzz target does."""
    from fuzz import targets

    res = oracle_table(targets.CASES["C08"](case["data"]))
    res.label("atheris")
    return res


SUBS["atheris"] = oracle_atheris

def run(rec, only=None):
    quick = rec.tier == "quick"
    if rec.only is None or "conv" in rec.only:
        core.run_sharded(rec, conv_shard, 16, core.ncpu(), (3 if quick else 4,))
        rec.exhaustive["conv"] = True
    _enum(rec, "chars", quick, True)
    _enum(rec, "names", quick, False)
    _enum(rec, "fixed", quick, False)
    _enum(rec, "request", quick, True)
    _enum(rec, "wsgi_bytes", quick, False)
    _enum(rec, "seq_fixed", quick, True)
    _enum(rec, "nested", quick, False)
    core.drive_hypothesis(rec, "table", table_case(), oracle_table, 3500 if quick else 60000)
    rec.exhaustive["table"] = False
    core.drive_hypothesis(rec, "seq", seq_case(), oracle_seq, 300 if quick else 12000, seed_offset=1)
    rec.exhaustive["seq"] = False
    if not quick and (rec.only is None or "atheris" in rec.only):
        # coverage-guided second engine (Atheris / libFuzzer), same oracle inside the target
        from fuzz import driver

        driver.campaign(rec, "C08", oracle_atheris, runs=300000, seeds=[b'\x01\x02\x01\x00\x03\x02\x02\x06', b'\x02\x00\x03\x01\x01\x03\x04\x01\x00'], max_total_time=150, jobs=4)
