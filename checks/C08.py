"""C08 - The router dispatches to the first matching route with typed parameters."""
from __future__ import annotations

import datetime
import decimal
import itertools
import uuid

from hypothesis import strategies as st

import baize.asgi as basgi
import baize.wsgi as bwsgi
from baize.routing import CONVERTOR_TYPES, Route

from harness import core, gateways as gw
from harness.core import Result
from harness.refs import routes as ref

LEVEL = "exploration"
RULES = {
    "conv": "exhaustive: every string of length <= 4 over the alphabet {0 1 9 . - a / LF ٣ A} x 6 convertor types (+default) x 3 "
    "templates ('/{x:T}', '/v{x:T}.json', '/{x:T}/t'): membership, converted value and to_string round-trip against "
    "explicit per-type languages; non-trivial = the string is within one character class of the type's language (contains a digit "
    "or matches)",
    "table": "Hypothesis: route tables of 1..6 routes (literals with regex metacharacters and Unicode, all placeholder types, mixed "
    "and adjacent placeholders, overlapping routes in every order) x paths sampled from a route's language and mutated into "
    "near-misses, dispatched through the real WSGI and ASGI routers; non-trivial = >= 2 routes match the path, or the path is a "
    "near-miss mutation of a matching path",
}
ASSUMPTIONS = [
    "which decomposition is chosen when adjacent placeholders make several possible is left open",
    "integers of more than 4000 digits may be answered 404 or with the exact value; with adjacent placeholders the split is ambiguous, so this "
    "applies to any path with a run of more than 4000 ASCII digits on a route that has an int placeholder",
    "route authors do not repeat a placeholder name within one route and do not put braces in literal text",
]

TYPES = ["str", "int", "decimal", "uuid", "date", "any", None]
PYTYPE = {"str": str, None: str, "any": str, "int": int, "decimal": decimal.Decimal, "uuid": uuid.UUID, "date": datetime.date}


_LONG_DIGITS = __import__("re").compile("[0-9]{4001,}")


def _huge_int(route, decs_raw, path=""):
    """An int placeholder may have to take more digits than the interpreter converts (default limit
    4300).  With adjacent placeholders the split is ambiguous, so the test is on the path: a digit run
    of more than 4000 characters in front of a route that has an int placeholder."""
    types = {tok[1]: tok[2] for tok in route if tok[0] == "p"}
    if any(types[k] == "int" and len(v) > 4000 for d in decs_raw for k, v in d.items()):
        return True
    return "int" in types.values() and bool(_LONG_DIGITS.search(path))


def check_roundtrip(r: Result, typ, value, ctx: str) -> None:
    conv = CONVERTOR_TYPES[typ or "str"]
    try:
        s = conv.to_string(value)
    except Exception as exc:  # noqa: BLE001
        r.fail(f"C08:to_string-raises:{typ or 'str'}", f"{ctx}: to_string({value!r}) raised {type(exc).__name__}: {exc}")
        return
    if not isinstance(s, str) or not ref.in_language(typ, s):
        r.fail(f"C08:to_string-outside-language:{typ or 'str'}", f"{ctx}: to_string({value!r}) = {s!r}, which the placeholder does not accept")
        return
    try:
        back = conv.to_python(s)
    except Exception as exc:  # noqa: BLE001
        r.fail(f"C08:roundtrip-raises:{typ or 'str'}", f"{ctx}: to_python({s!r}) raised {type(exc).__name__}")
        return
    if back != value or type(back) is not type(value):
        r.fail(f"C08:roundtrip-differs:{typ or 'str'}", f"{ctx}: {value!r} -> {s!r} -> {back!r}")


# ------------------------------------------------------------------------------------------
# exhaustive convertor domain (direct Route.matches)

CONV_TEMPLATES = [
    [["p", "x", "T"]],
    [["lit", "/v"], ["p", "x", "T"], ["lit", ".json"]],
    [["lit", "/"], ["p", "x", "T"], ["lit", "/t"]],
]


def oracle_conv(case) -> Result:
    r = Result()
    typ, s, tno = case["type"], case["s"], case["tpl"]
    route = [[*tok] if tok[0] == "lit" else ["p", "x", typ] for tok in CONV_TEMPLATES[tno]]
    if tno == 0:
        route = [["lit", "/"]] + route
    path = "".join(tok[1] if tok[0] == "lit" else s for tok in route)
    r.key = (typ, s, tno)
    rt = Route(ref.template(route), "endpoint")
    try:
        ok, params = rt.matches(path)
    except Exception as exc:  # noqa: BLE001
        r.fail(f"C08:matches-raises:{typ or 'str'}:{type(exc).__name__}", f"Route({ref.template(route)!r}).matches({path!r}) raised {type(exc).__name__}: {exc}")
        return r
    decs = ref.decompositions(route, path)
    want = bool(decs)
    r.label(f"type={typ or 'default'}", "match" if want else "no-match")
    r.nontrivial = want or any(c.isdigit() for c in s)
    if ok != want:
        r.fail(
            f"C08:membership:{typ or 'str'}:{'accepts-outside-language' if ok else 'rejects-member'}",
            f"template {ref.template(route)!r} path {path!r}: router says {ok}, reference language says {want}",
        )
        return r
    if ok:
        admissible = [{k: ref.convert(typ, v) for k, v in d.items()} for d in decs]
        if not any(params == a and all(type(params[k]) is type(a[k]) for k in a) for a in admissible):
            r.fail(f"C08:param-value:{typ or 'str'}", f"template {ref.template(route)!r} path {path!r}: params {params!r}, expected one of {admissible!r}")
        else:
            check_roundtrip(r, typ, params["x"], f"path {path!r}")
    return r


# ------------------------------------------------------------------------------------------
# tables through both routers


def _apps(routes):
    calls = []

    def wsgi_ep(i):
        def ep(environ, start_response):
            req = bwsgi.Request(environ)
            calls.append(("wsgi", i, dict(req.path_params)))
            start_response("200 OK", [("content-type", "text/plain")])
            return [str(i).encode()]

        return ep

    def asgi_ep(i):
        async def ep(scope, receive, send):
            req = basgi.Request(scope, receive, send)
            calls.append(("asgi", i, dict(req.path_params)))
            await send({"type": "http.response.start", "status": 200, "headers": [(b"content-type", b"text/plain")]})
            await send({"type": "http.response.body", "body": str(i).encode()})

        return ep

    w = bwsgi.Router(*[(ref.template(rt), wsgi_ep(i)) for i, rt in enumerate(routes)])
    a = basgi.Router(*[(ref.template(rt), asgi_ep(i)) for i, rt in enumerate(routes)])
    return w, a, calls


def oracle_table(case) -> Result:
    r = Result()
    routes, path = case["routes"], case["path"]
    tpl = [ref.template(rt) for rt in routes]
    ctx = f"routes {tpl!r} path {path!r}"
    w, a, calls = _apps(routes)
    exp_idx, admissible = None, []
    huge = False
    matching = 0
    for idx, rt in enumerate(routes):
        decs = ref.decompositions(rt, path)
        if decs:
            matching += 1
            if exp_idx is None:
                exp_idx = idx
                huge = _huge_int(rt, decs, path)
                if not huge:
                    types = {tok[1]: tok[2] for tok in rt if tok[0] == "p"}
                    admissible = [{k: ref.convert(types[k], v) for k, v in d.items()} for d in decs]
    rq = gw.areq(path=path)
    runs = {"wsgi": gw.call_wsgi(w, rq), "asgi": gw.call_asgi(a, rq)}
    for side, run in runs.items():
        mine = [c for c in calls if c[0] == side]
        if run.exc is not None:
            r.fail(f"C08:{side}:raises:{type(run.exc).__name__}", f"{ctx}: {side} router raised {type(run.exc).__name__}: {run.exc}")
            continue
        if huge:
            # accepted variation: the over-long integer is delivered exactly, or the route is treated
            # as not matching (404 or a later route); only "no crash" and agreement of both sides apply
            ok404 = run.status_code == 404 and not mine
            ok200 = run.status_code == 200 and len(mine) == 1 and mine[0][1] >= exp_idx
            if not (ok404 or ok200):
                r.fail(f"C08:{side}:huge-int", f"{ctx[:300]}: status {run.status_code} calls {str(mine)[:200]}")
            continue
        if exp_idx is None:
            if run.status_code != 404 or run.body != b"" or mine:
                r.fail(f"C08:{side}:no-route-but-dispatched", f"{ctx}: no route matches, got status {run.status_code} body {run.body!r} endpoint calls {mine!r}")
            continue
        if len(mine) != 1:
            r.fail(f"C08:{side}:endpoint-not-run", f"{ctx}: expected route #{exp_idx}, status {run.status_code}, endpoint calls {mine!r}")
            continue
        _, idx, params = mine[0]
        if idx != exp_idx:
            r.fail(f"C08:{side}:wrong-route", f"{ctx}: route #{idx} ran, first matching route is #{exp_idx}")
            continue
        if not ref.admits(routes[idx], path, params):
            r.fail(f"C08:{side}:param-value", f"{ctx}: path_params {params!r} are not the converted values of any decomposition, e.g. {admissible[:2]!r}")
            continue
        types = {tok[1]: tok[2] for tok in routes[idx] if tok[0] == "p"}
        for k, v in params.items():
            check_roundtrip(r, types[k], v, ctx)
    wc = [c[1:] for c in calls if c[0] == "wsgi"]
    ac = [c[1:] for c in calls if c[0] == "asgi"]
    if not r.failures and (wc != ac or runs["wsgi"].status_code != runs["asgi"].status_code):
        r.fail("C08:interfaces-disagree", f"{ctx}: wsgi {runs['wsgi'].status_code} {wc!r} vs asgi {runs['asgi'].status_code} {ac!r}")
    r.nontrivial = matching >= 2 or case.get("mutation") not in (None, "none", "unrelated")
    r.label(f"matching={min(matching, 3)}", f"mut={case.get('mutation')}", f"routes={len(routes)}")
    for rt in routes:
        for tok in rt:
            if tok[0] == "p":
                r.label(f"has-{tok[2] or 'default'}")
    r.note = {"expected_route": exp_idx, "wsgi": runs["wsgi"].status_code, "asgi": runs["asgi"].status_code}
    return r


SUBS = {"conv": oracle_conv, "table": oracle_table}

# ------------------------------------------------------------------------------------------
# generation

CONV_ALPHABET = ["0", "1", "9", ".", "-", "a", "/", "\n", "٣", "A"]


def conv_shard(rec, k, nshards, maxlen):
    g = core.guarded(oracle_conv)
    i = 0
    extra = [
        "2021-03-07", "2021-13-45", "0000-01-01", "2020-02-29", "2021-02-29", "2021-1-01", "2021-03-7", "2021-3-7", "2021-03-007", "21-03-07", "٢٠٢١-٠٣-٠٧", "2021-03-07\n",
        "90478484-0988-45fc-91fe-757d90136892", "90478484-0988-45FC-91fe-757d90136892", "90478484098845fc91fe757d90136892",
        "9047848-40988-45fc-91fe-757d90136892", "----90478484098845fc91fe757d90136892", "90478484098845fc91fe757d90136892----", "90478484--098845fc-91fe-757d90136892",
        "90478484-0988-45fc-91fe-757d9013689-", "-0478484-0988-45fc-91fe-757d90136892", "90478484-0988-45fc-91fe-757d9013689", "90478484-0988-45fc-91fe-757d901368922",
        "9047848a-0988-45fc-91fe-757d90136892", "9047848A-0988-45fc-91fe-757d90136892", "9047848a-098B-45fc-91fe-757d90136892",
        "9047848a-0988-45fc-91FE-757d90136892", "9047848a-0988-45fc-91fe-757D90136892", "9047848a-0988-45fc-91fe-757d9013689",
        "{9047848a-0988-45fc-91fe-757d90136892}", "urn:uuid:9047848a-0988-45fc-91fe-757d90136892", "9047848g-0988-45fc-91fe-757d90136892",
        "100", "0", "00", "1.50", "1.", ".5", "1x2", "1.2.3", "10.010", "0.0", "123456789012345678901234567890", "１２", "-1",
        "1e5", "1_0", " 1", "1 ", "+1", "0x10", "",
    ]
    strings = [""] + ["".join(t) for n in range(1, maxlen + 1) for t in itertools.product(CONV_ALPHABET, repeat=n)] + extra
    for typ in TYPES:
        for tno in range(len(CONV_TEMPLATES)):
            for s in strings:
                i += 1
                if i % nshards != k:
                    continue
                case = {"type": typ, "s": s, "tpl": tno}
                res = g(case)
                rec.count("conv", case, res)
                new, old = rec.split(res)
                rec.note_known(old)
                for f in new:
                    rec.add_violation("conv", f, case)
                    rec.skip.add(f.bucket)


_LIT = st.one_of(
    st.sampled_from(
        ["/", "/a", "/b", "/api", "/a.b", "/a+b", "/a*", "/a?", "/(x)", "/[x]", "/x|y", "/^a$", "/a\\d", "/v", ".json", "-", "_", "/é", "/中", "/a/", "//", ".", "/a.", "/user"]
    ),
    st.text(alphabet="/ab.+*?()[]|^$\\-_é1", min_size=1, max_size=4),
)
_TYPE = st.sampled_from(TYPES)


@st.composite
def route_strategy(draw):
    n = draw(st.integers(1, 4))
    toks = []
    pcount = 0
    toks.append(["lit", "/" + draw(st.sampled_from(["", "a", "api", "a.b", "x+", "é", "v"]))])
    for _ in range(n):
        kind = draw(st.sampled_from(["lit", "p", "p", "p"]))
        if kind == "p":
            # adjacent placeholders are rare and labelled by the oracle via matching counts
            if toks and toks[-1][0] == "p" and draw(st.integers(0, 9)) > 0:
                toks.append(["lit", draw(st.sampled_from(["/", "-", ".", "/x/", "_"]))])
            toks.append(["p", f"p{pcount}", draw(_TYPE)])
            pcount += 1
        else:
            if toks and toks[-1][0] == "lit":
                toks[-1] = ["lit", toks[-1][1] + draw(_LIT)]
            else:
                toks.append(["lit", draw(_LIT)])
    return toks


def sample_language(draw, typ):
    typ = typ or "str"
    if typ == "str":
        return draw(st.one_of(st.sampled_from(["a", "abc", "1", "a.b", "x y", "é", "a\nb", "123", "2021-03-07"]), st.text(alphabet="ab1.-_é\n", min_size=1, max_size=5)))
    if typ == "int":
        return draw(st.one_of(st.sampled_from(["0", "1", "10", "007", "123456789012345678901234567890"]), st.text(alphabet="0123456789", min_size=1, max_size=6)))
    if typ == "decimal":
        return draw(st.sampled_from(["0", "1", "100", "1.5", "0.0", "10.010", "123.09", "00", "3.14159", "1000000.000001"]))
    if typ == "uuid":
        return draw(st.uuids()).__str__()
    if typ == "date":
        return draw(st.one_of(st.sampled_from(["2021-03-07", "2020-02-29", "0001-01-01", "9999-12-31"]), st.dates().map(lambda d: d.isoformat())))
    return draw(st.one_of(st.sampled_from(["", "a", "a/b", "a/b/c", "x\ny", "/", "a/"]), st.text(alphabet="ab/\n.1", max_size=6)))


MUTATIONS = ["none", "none", "extra-segment", "missing-char", "empty-segment", "trailing-slash", "trailing-newline", "unicode-digit",
             "upper", "dot", "letter-in-number", "bad-date", "bad-uuid", "literal-char", "unrelated", "huge-int", "prefix-junk", "suffix-junk"]


@st.composite
def table_case(draw):
    routes = draw(st.lists(route_strategy(), min_size=1, max_size=6))
    # overlapping routes: sometimes re-type a copy of an existing route, or add a catch-all
    if draw(st.booleans()):
        src = draw(st.sampled_from(routes))
        clone = [list(t) if t[0] == "lit" else ["p", t[1], draw(_TYPE)] for t in src]
        routes.insert(draw(st.integers(0, len(routes))), clone)
    if draw(st.integers(0, 4)) == 0:
        routes.insert(draw(st.integers(0, len(routes))), [["lit", "/"], ["p", "rest", "any"]])
    routes = routes[:6]
    base = draw(st.sampled_from(routes))
    parts = []
    for tok in base:
        parts.append(tok[1] if tok[0] == "lit" else sample_language(draw, tok[2]))
    mutation = draw(st.sampled_from(MUTATIONS))
    path = "".join(parts)
    if mutation == "extra-segment":
        path += "/x"
    elif mutation == "missing-char" and path:
        i = draw(st.integers(0, len(path) - 1))
        path = path[:i] + path[i + 1:]
    elif mutation == "empty-segment":
        i = draw(st.integers(0, len(path)))
        path = path[:i] + "/" + path[i:]
    elif mutation == "trailing-slash":
        path += "/"
    elif mutation == "trailing-newline":
        path += "\n"
    elif mutation == "unicode-digit":
        path = path.replace("1", "١", 1).replace("2", "２", 1) if any(c in path for c in "12") else path + "٣"
    elif mutation == "upper":
        # upper-case one character inside a placeholder value (e.g. one hex digit of a uuid)
        cands = [(tok, val) for tok, val in zip(base, parts) if tok[0] == "p" and any(c.islower() for c in val)]
        if cands:
            tok, val = draw(st.sampled_from(cands))
            idx = [i for i, c in enumerate(val) if c.islower()]
            i = draw(st.sampled_from(idx))
            path = path.replace(val, val[:i] + val[i].upper() + val[i + 1:], 1)
        else:
            path = path.upper()
    elif mutation == "dot":
        path = path.replace(".", "x", 1) if "." in path else path + "."
    elif mutation == "letter-in-number":
        idx = [i for i, c in enumerate(path) if c.isdigit()]
        if idx:
            i = draw(st.sampled_from(idx))
            path = path[:i] + "x" + path[i + 1:]
    elif mutation == "bad-date":
        path = path.replace("-03-07", "-13-45").replace("-02-29", "-02-30") if "-" in path else path
        for tok, val in zip(base, parts):
            if tok[0] == "p" and tok[2] == "date":
                path = path.replace(val, draw(st.sampled_from(["2021-13-45", "0000-01-01", "2021-02-30", "2021-00-10", "2021-03-7", "2021-3-07", "2021-3-7", "202-03-07", "2021-03-007", "2021-003-07", "21-03-07", "2021/03/07", "2021-03-07T00", "+021-03-07", "2021-03--7", "2021-03-0٧"])), 1)
    elif mutation == "bad-uuid":
        # same 36 characters, hyphens or groups in the wrong place / other near-misses of the canonical form
        for tok, val in zip(base, parts):
            if tok[0] == "p" and tok[2] == "uuid" and len(val) == 36:
                h = val.replace("-", "")
                bad = draw(st.sampled_from([
                    h[:7] + "-" + h[7:12] + "-" + h[12:16] + "-" + h[16:20] + "-" + h[20:],  # first hyphen one place early
                    "----" + h, h + "----", h[:8] + "--" + h[8:12] + h[12:16] + "-" + h[16:20] + "-" + h[20:],
                    h[:8] + "-" + h[8:12] + "-" + h[12:16] + "-" + h[16:20] + "-" + h[20:31] + "-",
                    "{" + val[1:-1] + "}", val[:-1], val + "0", h, "urn:uuid:" + val, val.replace("-", "_", 1), val[:8] + "-" + val[8:].replace("-", "", 1) + "-",
                ]))
                path = path.replace(val, bad, 1)
    elif mutation == "literal-char":
        lits = [tok[1] for tok in base if tok[0] == "lit" and len(tok[1]) > 1]
        if lits:
            lit = draw(st.sampled_from(lits))
            i = draw(st.integers(1, len(lit) - 1))
            path = path.replace(lit, lit[:i] + "X" + lit[i + 1:], 1)
    elif mutation == "unrelated":
        path = draw(st.sampled_from(["", "/", "/nothing", "/a", "//", "/a/b/c", "nothing"]))
    elif mutation == "huge-int":
        for tok, val in zip(base, parts):
            if tok[0] == "p" and tok[2] == "int":
                path = path.replace(val, "9" * 5000, 1)
                break
    elif mutation == "prefix-junk":
        path = "/zz" + path
    elif mutation == "suffix-junk":
        path = path + "zz"
    return {"routes": routes, "path": path, "mutation": mutation}


def run(rec, only=None):
    quick = rec.tier == "quick"
    core.run_sharded(rec, conv_shard, 16, core.ncpu(), (3 if quick else 4,))
    rec.exhaustive["conv"] = True
    core.drive_hypothesis(rec, "table", table_case(), oracle_table, 5000 if quick else 60000)
    rec.exhaustive["table"] = False
