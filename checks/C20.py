"""C20 - Middleware is transparent to what it does not change."""
from __future__ import annotations

import re

from hypothesis import strategies as st

from harness import core, gateways as gw, gen, recipes, x_c20
from harness.core import Result

LEVEL = "exploration"
RULES = {
    "stacks": "Hypothesis: inner applications (every response class as app or as view, raw WSGI/ASGI apps returning a list / tuple / "
    "iterator / generator / empty iterable, several Set-Cookie lines, repeated other headers, unassigned status codes, custom reason "
    "phrases, failures before start / after start / mid-body, multi-chunk streams with empty chunks, files incl. empty file and ranges) "
    "x stacks of depth 0..3 of {identity, add-header, replace-header, delete-header} middlewares and view decorators x both "
    "interfaces, compared with the bare application; non-trivial = depth >= 1 and the inner response has >= 2 body chunks, a repeated "
    "header or a status other than 200",
    "grid": "exhaustive: raw inner apps over {0,1,2,3 chunks} x {list, tuple, iter, generator, restarted start_response with exc_info / optional ASGI keys omitted} x {0,1,2 Set-Cookie lines} x {identity depth 1, 2} x both interfaces",
    "shapes": "enumerated (harness/x_c20.py): raw inner apps with legitimate but unusual protocol shapes - Set-Cookie spelled SET-COOKIE / Set-cookie, same-name and identical cookie lines, five "
    "cookies, a field repeated three times / in three spellings / with a value contained in an earlier one, header names with underscore, dot and the other token punctuation, empty and "
    "quoted values; bodies of 0 B .. 64 KiB, 64 KiB + 1, n x 64 KiB, 1 MiB, 1 MiB + 1 (the ASGI relay buffer reads 64 KiB blocks and spools to disk above 1 MiB), 300 chunks, empty "
    "chunks; optional ASGI keys (`body`, `more_body`, `headers`) left out, header items as lists; methods HEAD / OPTIONS / DELETE / PATCH / PROPFIND against apps that send body bytes "
    "- x pass-through stacks (identity x1, x2, observing) and one add-header layer; the bare raw app is also compared with its recipe; non-trivial = depth >= 1 and (>= 2 chunks or a "
    "repeated header or status != 200 or an editing layer)",
    "edits": "enumerated: 7 inner apps (raw with repeated Vary and two cookies, raw without the fields, raw sending x-inner in two spellings, plain / file / stream / redirect views with "
    "cookies) x single edits {set, del, delitem, append, setdefault, if-absent-then-set, set_cookie} by lower / canonical / upper-case names on present, absent and repeated fields, "
    "8-bit / empty / comma values, Content-Type / Content-Length / ETag / Location (middleware only: response classes compute those at render time) x the layer being a middleware, a "
    "view decorator, below / above a pass-through layer, and pairs of edits; file views x every kind of Range answer (200, 206, multipart, 400, 416) x GET / HEAD; expected headers come "
    "from a list-of-pairs reference model of the edits applied to the bare answer; non-trivial = every case (depth >= 1 with an editing layer)",
    "mounted": "enumerated: a layer around Router / Subpaths / nested mounts / Hosts / Files / Pages (application objects without __name__ that write path parameters, SCRIPT_NAME / "
    "root_path into the environ / scope they are handed) with echo views, static files and plain views as leaves x matching, non-matching and redirecting paths x requests with query, "
    "cookies, repeated headers, JSON body, Range, If-Modified-Since, HEAD x pass-through and editing stacks; the echo (what the view sees of the request incl. path_params and URL) "
    "must be equal; non-trivial = every case",
    "errors": "enumerated: views raising HTTPException (7 status / headers / content shapes; the server model turns an escaping HTTPException into that answer) or an ordinary exception, "
    "stream views failing at step 0..3, raw apps failing before / after start, at the first next() and mid-body x decorator / middleware / mixed / observing stacks; same exception class "
    "and nothing different emitted before it (status, headers under pass-through stacks, wrapped body a prefix of the bare one); non-trivial = every case",
    "zerocopy": "enumerated: the server offers the ASGI http.response.zerocopysend extension (key `zerocopy` of the request; also a drawn dimension of stacks and xstacks and "
    "part of the file cases of edits and mounted) - file views / file response apps of 0, 64, 200, 70000, 140000 bytes x {no Range, single, suffix, open, two and three "
    "ranges, unsatisfiable, malformed} x GET / HEAD x stacks of 1..3 middlewares (identity, observing, editing), view decorators, decorators below middlewares; Files / Pages / "
    "mounts behind layers; apps with no use for the extension; status, header multiset and body bytes as everywhere; non-trivial = every case",
    "zcraw": "enumerated: raw ASGI applications and views returning a response object of a foreign class that use the zero-copy send extension themselves when the scope offers "
    "it (x_c20 `file_ops`: a file of position-identifying bytes the application opens): one event with offset+count / offset only / count only after a seek or a read of a preamble / "
    "neither, several count-only events in sequence, reads and seeks between events, events mixed with ordinary body chunks, count beyond the end of the file, count 0, at EOF, files "
    "above 64 KiB; last event final or followed by an empty body message; correct Content-Length x 1..3 identity / observing / editing middlewares, view decorators (also below "
    "middlewares), and the same application without the offer; the bare application is compared with a pure-Python reference of the extension's position semantics; also drawn in xstacks",
    "iterables": "enumerated (WSGI return values; PEP 3333 asks for `an iterable`, and allows start_response to be called by the iterable's first iteration step): raw inner apps "
    "returning a list / tuple / generator / iterator object of a class of its own (with and without close()) / object whose __iter__ makes a fresh generator (with and without close()) / "
    "map object / itertools.chain object (also with a further member) / iter(callable, sentinel) / wsgiref FileWrapper over a file-like object x start_response called eagerly before "
    "the return or lazily in the first next() x {200 without headers, 200 / 404 / 599 with headers, two Set-Cookie lines} x bodies of 0, 1, 3 chunks (one empty) and 2 x 70000 B; a layer of a "
    "foreign package (harness/x_c20.py `xwrap`) that re-packages the return value of raw apps, views of every response kind, response objects used as apps, Router / Files mounts as map / "
    "chain / iterator / closing iterator / closing iterable / iter(callable, sentinel) or calls the inner app only when iterated (class with a generator-method __iter__), also two such "
    "layers; the same failing in the first step / mid-body - x pass-through stacks of depth 1..3 and editing layers; the ASGI side of each recipe runs once (no return values there: the "
    "foreign layer forwards receive / send); non-trivial = depth >= 1 and, measured on the bare WSGI run, the object handed to the innermost baize layer is neither a generator nor a "
    "list / tuple and start_response had not been called when it was handed over, and the answer has a status other than 200 or at least one header (or the app fails)",
    "xstacks": "Hypothesis companion of the enumerated sub-checks: raw apps (header lines drawn from all shape blocks, chunks incl. 64 KiB-boundary sizes, omitted ASGI keys), "
    "raw apps over every return-value shape of `iterables` x eager / lazy start_response, foreign re-packaging layers around raw apps, views and mounted apps, "
    "views of every response class except event streams, mounted apps x 0..2 decorator layers + 0..3 middleware layers with free-form edits x GET / POST / HEAD / DELETE",
}
ASSUMPTIONS = [
    "body chunking, reason phrase and header order are free; a mid-body failure of the inner app may surface before or after the bytes already produced",
    "repeated headers other than Set-Cookie may be combined into one 'a, b' line (RFC 7230 3.2.2 equivalence); Set-Cookie lines must stay separate",
    "every layer's handler is entered exactly once per request; the innermost application runs as often as without layers (once; not at all when a router answers 404 itself)",
    "an HTTPException leaving the inner application passes the layers as an exception (their edits need not show on the answer the server makes of it)",
    "a cookie added by a layer (response.set_cookie) may be serialised in any way that starts with name=value (serialisation is C16's subject)",
    "when bare and wrapped application end with the same exception, the wrapped one may have emitted less (buffering), never a different status / headers / bytes",
    "requests that offer the ASGI zero-copy-send extension: the server model reads the announced (fd, offset, count) itself; whether a layer passes the event on or "
    "turns it into body bytes is free, the bytes are judged",
]

ZEROCOPY = {"http.response.zerocopysend": {}}
EDITS = {"identity": None, "add": ("x-mw", "1"), "replace": ("x-inner", "replaced"), "delete": ("x-inner", None)}


def fold(pairs):
    """Header multiset with RFC 7230 combination of repeated fields, except Set-Cookie."""
    out = {}
    cookies = []
    for k, v in pairs:
        k = k.lower()
        if k == "set-cookie":
            # Expires is computed from the wall clock when the recipe is built: bare and wrapped
            # builds may fall into different seconds
            cookies.append(re.sub(r"expires=[^;]+", "expires=<T>", v))
        elif k in out:
            out[k] = out[k] + ", " + v
        else:
            out[k] = v
    return sorted(out.items()) + sorted(("set-cookie", c) for c in cookies)


def apply_edits(pairs, stack):
    pairs = [(k.lower(), v) for k, v in pairs]
    for kind in stack:
        e = EDITS[kind]
        if e is None:
            continue
        name, val = e
        if val is None:
            pairs = [(k, v) for k, v in pairs if k != name]
        else:
            pairs = [(k, v) for k, v in pairs if k != name] + [(name, val)]
    return pairs


def wrap(inner, stack, decorators):
    app = dict(inner)
    if decorators:
        app["decorators"] = list(decorators)
    for kind in stack:
        app = {"app": "middleware", "kind": kind, "inner": app}
    return app


def started(side, run):
    """Did the server see the beginning of a response (status and headers)?"""
    return run.start_calls > 0 if side == "wsgi" else bool(run.events)


def before_failure(r, side, ctx, bare, wrapped, want_heads, got_heads):
    """Both runs ended with the same exception class.  What the wrapped application emitted before the
    exception must not differ from what the bare one emitted: it may have emitted less (a layer that buffers
    - accepted variation), never something else.  want_heads is None when a layer edits headers."""
    if not started(side, wrapped):
        return
    if not started(side, bare):
        r.fail(f"C20:{side}:emitted-before-failure:start", f"{ctx}: the bare application failed without starting a response, wrapped it started one with status {wrapped.status_code}")
        return
    if bare.status_code != wrapped.status_code:
        r.fail(f"C20:{side}:emitted-before-failure:status", f"{ctx}: status before the failure: bare {bare.status_code}, wrapped {wrapped.status_code}")
    if want_heads is not None and want_heads != got_heads:
        r.fail(f"C20:{side}:emitted-before-failure:headers", f"{ctx}: headers before the failure: wrapped {got_heads!r}, bare {want_heads!r}")
    if not bare.body.startswith(wrapped.body):
        r.fail(f"C20:{side}:emitted-before-failure:body", f"{ctx}: body before the failure: bare {bare.body[:80]!r}, wrapped {wrapped.body[:80]!r}")


def observed(side, run):
    heads = [(k, v) for k, v in run.headers] if side == "wsgi" else [(k.decode("latin-1"), v.decode("latin-1")) for k, v in run.headers]
    # the random multipart/byteranges boundary differs from run to run
    for k, v in heads:
        m = re.match(r"^multipart/byteranges; boundary=([a-z0-9]+)(?:, |$)", v) if k.lower() == "content-type" else None  # ", ...": a layer appended to the field
        if m:
            b = m.group(1)
            heads = [(k2, v2.replace(b, "BOUNDARY")) for k2, v2 in heads]
            run.chunks = [b"".join(run.chunks).replace(b.encode(), b"BOUNDARY")]
            return heads
    # a layer may have deleted or replaced the Content-Type of a multipart/byteranges answer: recognise the body itself
    body = b"".join(run.chunks)
    m = re.match(rb"\A--([a-z0-9]{13})\nContent-Type: [^\n]*\nContent-Range: bytes \d+-\d+/\d+\n\n", body)
    if m and body.endswith(b"\n--" + m.group(1) + b"--\n"):
        run.chunks = [body.replace(m.group(1), b"BOUNDARY")]
        heads = [(k, v.replace(m.group(1).decode(), "BOUNDARY")) for k, v in heads]
    return heads


def one(side, app_recipe, rq):
    built = recipes.build_app(app_recipe, side)
    run = gw.call_wsgi(built.app, rq) if side == "wsgi" else gw.call_asgi(built.app, rq)
    return run, observed(side, run), built


def oracle(case) -> Result:
    r = Result()
    inner, stack, decorators = case["inner"], case["stack"], case.get("decorators", [])
    rqd = case.get("request", {})
    headers = [["Range", rqd["range"]]] if rqd.get("range") else []
    depth = len(stack) + len(decorators)
    nontrivial = False
    for side in ("wsgi", "asgi"):
        body = [b"payload"] if rqd.get("method") == "POST" else []
        if rqd.get("body") is not None:
            body = list(rqd["body"])
            headers = headers + [["Content-Type", rqd.get("ctype", "application/octet-stream")]]
        ext = ZEROCOPY if rqd.get("zerocopy") else None  # the server offers ASGI zero-copy send (see x_run)
        rq = gw.areq(method=rqd.get("method", "GET"), path="/m", headers=headers, body=list(body), extensions=ext)
        bare, bheads, bbuilt = one(side, inner, rq)
        rq2 = gw.areq(method=rqd.get("method", "GET"), path="/m", headers=headers, body=list(body), extensions=ext)
        wrapped, wheads, wbuilt = one(side, wrap(inner, stack, decorators), rq2)
        ctx = f"{side} inner {inner!r} stack {stack!r} decorators {decorators!r}" + (f" request body {body!r} as {rqd.get('ctype')!r}" if rqd.get("body") is not None else "")
        if inner["app"] == "echo" and bbuilt.stash != wbuilt.stash:
            # what the view sees of the request (line, headers, body / json / form in the given access order)
            # is the same behind any number of pass-through layers
            diff = []
            for be, we in zip(bbuilt.stash, wbuilt.stash):
                diff += [(k, be.get(k), we.get(k)) for k in sorted(set(be) | set(we)) if be.get(k) != we.get(k)]
            if len(bbuilt.stash) != len(wbuilt.stash):
                diff.append(("views-run", len(bbuilt.stash), len(wbuilt.stash)))
            r.fail(f"C20:{side}:request-view-differs:{','.join(sorted({d[0] for d in diff}))[:50]}", f"{ctx}: (accessor, bare, wrapped) = {diff[:3]!r}")
        leaf = recipes.leaf_calls(wbuilt)
        if len(leaf) != 1:
            r.fail(f"C20:{side}:inner-call-count", f"{ctx}: inner application ran {len(leaf)} times")
        if bare.exc is not None or wrapped.exc is not None:
            bname = type(bare.exc).__name__ if bare.exc is not None else None
            wname = type(wrapped.exc).__name__ if wrapped.exc is not None else None
            if bname != wname:
                r.fail(f"C20:{side}:exception-differs:{bname}-vs-{wname}", f"{ctx}: bare raised {bare.exc!r}, wrapped raised {wrapped.exc!r}")
            else:
                passthrough = all(k == "identity" for k in list(stack) + list(decorators))
                before_failure(r, side, ctx, bare, wrapped, fold(bheads) if passthrough else None, fold(wheads))
            r.label("inner-raises")
            continue
        # what the bare application itself gets wrong (e.g. a hop-by-hop header it chose to send) is not the
        # middleware's doing: only protocol errors that the wrapping introduces count
        bare_codes = {e[0] for e in bare.errors}
        introduced = [e for e in wrapped.errors if e[0] not in bare_codes]
        if introduced:
            r.fail(f"C20:{side}:protocol:{introduced[0][0]}", f"{ctx}: {introduced[:2]!r}")
        if bare.status_code != wrapped.status_code:
            r.fail(f"C20:{side}:status", f"{ctx}: bare {bare.status_code}, wrapped {wrapped.status_code}")
        editing = stack + decorators
        want = fold(apply_edits(bheads, list(decorators) + list(stack)))
        got = fold(wheads)
        if want != got:
            wc = [v for k, v in want if k == "set-cookie"]
            gc = [v for k, v in got if k == "set-cookie"]
            what = "set-cookie" if wc != gc else "headers"
            r.fail(f"C20:{side}:{what}", f"{ctx}: wrapped headers {got!r}, expected {want!r}")
        if bare.body != wrapped.body:
            r.fail(
                f"C20:{side}:body",
                f"{ctx}: bare body {bare.body[:80]!r} ({len(bare.body)} bytes, chunks {[len(c) for c in bare.chunks][:8]}), wrapped body {wrapped.body[:80]!r} ({len(wrapped.body)} bytes)",
            )
        nchunks = len([c for c in bare.chunks if c])
        repeated = len({k.lower() for k, _ in bheads}) < len(bheads)
        if depth >= 1 and (nchunks >= 2 or repeated or bare.status_code != 200):
            nontrivial = True
        if repeated:
            r.label("repeated-header")
        if nchunks >= 2:
            r.label("multi-chunk")
        if side == "asgi" and bare.zerocopy_events:
            r.label("zerocopy-events-bare")
        _ = editing
    r.nontrivial = nontrivial
    r.label(f"depth={depth}", f"inner={inner['app']}" + (":" + inner["response"]["kind"] if "response" in inner else ""))
    r.weight = 4
    return r


# ------------------------------------------------------------------------------------------------
# sub-checks over the wider recipe interpreter harness/x_c20.py: free-form header edits, unusual but
# legitimate protocol shapes of the inner application, routers / mounts / static files behind a layer,
# failing views and applications

PASS_THROUGH = ("identity", "observe")


def expected_heads(bheads, layers):
    """Reference model of the edits (list-of-pairs header store, names case-insensitive): what the response
    of the bare application looks like after the layers' edits, innermost layer first."""
    pairs = [(k.lower(), v) for k, v in bheads]
    cookies = []
    for ly in layers:
        e = ly["edit"]
        op = e["op"]
        if op in PASS_THROUGH:
            continue
        if op == "cookie":
            cookies.append((e["name"], e["value"]))
            continue
        name = e["name"].lower()
        if op == "set":
            pairs = [(k, v) for k, v in pairs if k != name] + [(name, e["value"])]
        elif op in ("del", "delitem"):
            pairs = [(k, v) for k, v in pairs if k != name]
        elif op in ("setdefault", "ifabsent"):
            if not any(k == name for k, _ in pairs):
                pairs.append((name, e["value"]))
        elif op == "append":
            pairs.append((name, e["value"]))  # a further line of the field = one more list member (fold joins them in order)
        else:
            raise core.HarnessError(f"edit {e!r}")
    return pairs, cookies


def x_run(side, inner, layers, rqd):
    built = x_c20.build(inner, layers, side)
    # "zerocopy": the server offers the ASGI `http.response.zerocopysend` extension (a WSGI server has no such thing; the
    # key is ignored there).  The server model reads the announced (fd, offset, count) itself, so body bytes are judged as
    # always.  A FileResponse behind a middleware used to lose its body here (repaired by 4a80be4,
    # replays/C20/reg-zerocopy-behind-middleware.json).
    rq = gw.areq(method=rqd.get("method", "GET"), path=rqd.get("path", "/m"), query=rqd.get("query", "").encode("latin-1"),
                 headers=[list(h) for h in rqd.get("headers", [])], body=list(rqd.get("body", [])),
                 extensions=ZEROCOPY if rqd.get("zerocopy") else None)
    run = gw.call_wsgi(built.app, rq) if side == "wsgi" else gw.call_asgi(built.app, rq)
    return run, observed(side, run), built


def oracle_x(case) -> Result:
    r = Result()
    inner, layers, rqd = case["inner"], case["layers"], case.get("request", {})
    depth = len(layers)
    passthrough = all(ly["edit"]["op"] in PASS_THROUGH for ly in layers)
    nontrivial = False
    lazy_seen = lazy_answer = False
    core_app = inner
    while core_app["app"] == "xwrap":
        core_app = core_app["inner"]
    for side in case.get("sides", ("wsgi", "asgi")):
        bare, bheads, bbuilt = x_run(side, inner, [], rqd)
        wrapped, wheads, wbuilt = x_run(side, inner, layers, rqd)
        ctx = f"{side} inner {inner!r} layers {layers!r} request {rqd!r}"
        # WSGI: what kind of object the inner application handed back and whether it had called start_response by then (measured
        # by the raw / foreign applications of x_c20; PEP 3333 allows the call to happen in the first iteration step)
        ret = getattr(bbuilt, "returned", None) if side == "wsgi" else None
        if ret is not None:
            lazy_ng = not ret["generator"] and not ret["sequence"] and not ret["started"]
            r.label("returns=" + ret["type"], "start=" + ("eager" if ret["started"] else "lazy"), *(["lazy-non-generator"] if lazy_ng else []))
            if depth >= 1 and ret["closable"] and wrapped.exc is None:
                # close() of the object the inner application returned (a server calls it once; bare run: checked here).  What
                # the layers do about it is not part of the property: a label only
                if getattr(bbuilt, "closes", []).count("outer") != 1:
                    raise core.HarnessError(f"server model called close() {getattr(bbuilt, 'closes', [])!r} on the bare application's iterable: {ctx}")
                r.label(f"inner-close-calls-behind-layers={min(getattr(wbuilt, 'closes', []).count('outer'), 2)}")
            if lazy_ng and depth >= 1:
                lazy_seen = True
        if inner["app"] == "xraw" and not inner.get("raises"):
            # the bare raw application involves no code under test: it must come out as written in the recipe
            ref = (int(inner["status"][:3]), fold([(k, v) for k, v in inner["headers"]]), x_c20.reference_body(inner))
            if bare.exc is not None or (bare.status_code, fold(bheads), bare.body) != ref:
                raise core.HarnessError(f"bare raw application differs from its recipe: {ctx}: {bare.exc!r} {bare.status_code} {fold(bheads)!r}")
        if inner["app"] == "xview" and inner.get("file_ops") and (bare.exc is not None or bare.body != x_c20.reference_body(inner)):
            raise core.HarnessError(f"bare file_ops view differs from the reference of its recipe: {ctx}: {bare.exc!r} {bare.body[:60]!r}")
        # every layer's handler is entered exactly once, the innermost application (view, raw application,
        # response object; none when a router answers 404 itself) as often as without layers and at most once
        ran = sorted(c[1] for c in wbuilt.calls if c[0] == "mw")
        if ran != list(range(depth)):
            r.fail(f"C20:{side}:layer-call-count", f"{ctx}: handlers entered (by layer index) {ran!r}, expected each of {depth} once")
        bleaf, wleaf = recipes.leaf_calls(bbuilt), recipes.leaf_calls(wbuilt)
        if len(bleaf) > 1:
            raise core.HarnessError(f"bare application ran {len(bleaf)} leaves: {ctx}")
        if len(wleaf) != len(bleaf):
            r.fail(f"C20:{side}:inner-call-count", f"{ctx}: inner application ran {len(wleaf)} times, bare {len(bleaf)}")
        if bbuilt.stash != wbuilt.stash:
            diff = []
            for be, we in zip(bbuilt.stash, wbuilt.stash):
                diff += [(k, be.get(k), we.get(k)) for k in sorted(set(be) | set(we)) if be.get(k) != we.get(k)]
            if len(bbuilt.stash) != len(wbuilt.stash):
                diff.append(("views-run", len(bbuilt.stash), len(wbuilt.stash)))
            r.fail(f"C20:{side}:request-view-differs:{','.join(sorted({d[0] for d in diff}))[:50]}", f"{ctx}: (accessor, bare, wrapped) = {diff[:3]!r}")
        if bare.exc is not None or wrapped.exc is not None:
            bname = type(bare.exc).__name__ if bare.exc is not None else None
            wname = type(wrapped.exc).__name__ if wrapped.exc is not None else None
            if bname != wname:
                r.fail(f"C20:{side}:exception-differs:{bname}-vs-{wname}", f"{ctx}: bare raised {bare.exc!r}, wrapped raised {wrapped.exc!r}; wrapped answered {wrapped.status_code}")
            else:
                before_failure(r, side, ctx, bare, wrapped, fold(bheads) if passthrough else None, fold(wheads))
            r.label("inner-raises")
            if depth >= 1:
                nontrivial = True
            if side == "wsgi":
                lazy_answer = True
            continue
        if side == "wsgi" and (bare.status_code != 200 or bheads):
            lazy_answer = True
        bare_codes = {e[0] for e in bare.errors}
        introduced = [e for e in wrapped.errors if e[0] not in bare_codes]
        if introduced:
            r.fail(f"C20:{side}:protocol:{introduced[0][0]}", f"{ctx}: {introduced[:2]!r}")
        if bare.status_code != wrapped.status_code:
            r.fail(f"C20:{side}:status", f"{ctx}: bare {bare.status_code}, wrapped {wrapped.status_code}")
        if bare.via_http_exception:
            r.label("http-exception")
        pairs, new_cookies = expected_heads(bheads, layers)
        if bare.via_http_exception and fold(wheads) == fold(bheads):
            # an HTTPException of the inner application passes the layers as an exception: their handlers never
            # hold a response to edit.  (A layer that turned it into a response and edited that would be fine, too.)
            pairs, new_cookies = [(k.lower(), v) for k, v in bheads], []
        rest = list(wheads)
        for name, value in new_cookies:
            # how a cookie is serialised is C16's subject: any Set-Cookie line for that name and value will do
            at = [i for i, (k, v) in enumerate(rest) if k.lower() == "set-cookie" and (v == f"{name}={value}" or v.startswith(f"{name}={value};"))]
            if not at:
                r.fail(f"C20:{side}:edit-cookie-missing", f"{ctx}: no Set-Cookie line for {name}={value} in {wheads!r}")
            else:
                rest.pop(at[0])
        want, got = fold(pairs), fold(rest)
        if want != got:
            wc = [v for k, v in want if k == "set-cookie"]
            gc = [v for k, v in got if k == "set-cookie"]
            what = "set-cookie" if wc != gc else "headers"
            r.fail(f"C20:{side}:{what}", f"{ctx}: wrapped headers {got!r}, expected {want!r}")
        if bare.body != wrapped.body:
            first = next((i for i, (a, b) in enumerate(zip(bare.body, wrapped.body)) if a != b), min(len(bare.body), len(wrapped.body)))
            r.fail(f"C20:{side}:body", f"{ctx}: bare body {bare.body[:60]!r} ({len(bare.body)} bytes), wrapped body {wrapped.body[:60]!r} ({len(wrapped.body)} bytes), first difference at offset {first}")
        nchunks = len([c for c in bare.chunks if c])
        repeated = len({k.lower() for k, _ in bheads}) < len(bheads)
        if depth >= 1 and (nchunks >= 2 or repeated or bare.status_code != 200 or not passthrough or core_app["app"] not in ("xraw", "xview")):
            nontrivial = True
        if repeated:
            r.label("repeated-header")
        if nchunks >= 2:
            r.label("multi-chunk")
        if len(bare.body) > 65536:
            r.label("body>64KiB")
        if side == "asgi" and bare.zerocopy_events:
            r.label("zerocopy-events-bare")
    if case.get("nt") == "lazy":
        # sub-check `iterables`: only what the sub-check is about counts
        nontrivial = lazy_seen and lazy_answer
    r.nontrivial = nontrivial
    r.label(f"depth={depth}", f"inner={inner['app']}" + (":" + core_app["app"] if core_app is not inner else ""), *sorted({"edit=" + ly["edit"]["op"] for ly in layers}))
    r.weight = 2 * len(case.get("sides", ("wsgi", "asgi")))
    return r


def mw(op="identity", **kw):
    return {"layer": "middleware", "edit": dict(op=op, **kw)}


def deco(op="identity", **kw):
    return {"layer": "decorator", "edit": dict(op=op, **kw)}


def xraw(headers, chunks=(b"hello", b"world"), status="200 OK", **kw):
    return dict({"app": "xraw", "status": status, "headers": [list(h) for h in headers], "chunks": list(chunks), "returns": "list"}, **kw)


IDENTITY_STACKS = [[mw()], [mw(), mw()], [mw("observe")]]

# header blocks a legitimate inner application may send and the random raw applications never did
SHAPE_HEADERS = {
    "cookie-spellings": [["Content-Type", "text/plain"], ["SET-COOKIE", "a=1; Path=/"], ["Set-cookie", "b=2"], ["set-cookie", "c=3; HttpOnly"]],
    "cookie-upper-twice": [["SET-COOKIE", "a=1"], ["SET-COOKIE", "b=2"]],
    "cookie-same-name": [["Set-Cookie", "a=1; Path=/"], ["Set-Cookie", "a=2; Path=/admin"], ["Set-Cookie", "a=; Max-Age=0; Domain=example.com"]],
    "cookie-same-line": [["Set-Cookie", "a=1; Path=/"], ["Set-Cookie", "b=2"], ["Set-Cookie", "a=1; Path=/"]],
    "cookie-five": [["Set-Cookie", f"c{i}=v{i}; Path=/p{i}"] for i in range(5)],
    "three-fold": [["Vary", "Accept"], ["Vary", "Cookie"], ["Vary", "Origin"], ["Link", "<a>; rel=next"], ["Link", "<a>"], ["Link", "<a>; rel=next"]],
    "mixed-case-repeat": [["Cache-Control", "no-cache"], ["cache-control", "no-store"], ["CACHE-CONTROL", "private"]],
    "token-names": [["X_Trace", "1"], ["x.dot", "2"], ["X-Tok!#$%&'*+^`|~", "3"], ["x-trace", "4"], ["X_TRACE", "5"]],
    "odd-values": [["X-Empty", ""], ["X-Quote", "\"a, b\""], ["Expires", "Wed, 21 Oct 2026 07:28:00 GMT"], ["X-Latin", "d\xe9j\xe0"], ["X-Inner-Space", "a  b\tc"], ["X-Empty", ""]],
    "none": [],
}
SHAPE_BODIES = {
    "empty": [], "one": [b"x"], "64KiB": [{"pat": 65536}], "64KiB+1": [{"pat": 65537}], "3x64KiB": [{"pat": 3 * 65536}], "200k": [{"pat": 200000}],
    "2x70k": [{"pat": 70000}, {"pat": 70000}], "1MiB": [{"pat": 1 << 20}], "1MiB+1": [{"pat": (1 << 20) + 1}], "1MiB+64KiB": [{"pat": 1 << 20}, {"pat": 65536}],
    "300-chunks": [b"ab"] * 300, "empties": [b"", b"", b"tail", b""],
}


def shape_cases(quick=True):
    plain = [["Content-Type", "text/plain"]]
    for hname, heads in SHAPE_HEADERS.items():
        for layers in IDENTITY_STACKS + [[mw("set", name="x-mw", value="1")]]:
            yield {"inner": xraw(heads, label=hname), "layers": layers, "request": {"method": "GET"}}
    for bname, chunks in SHAPE_BODIES.items():
        for layers in IDENTITY_STACKS[: (2 if quick and bname.startswith("1MiB") else 3)]:
            for returns in ("list", "generator"):
                yield {"inner": xraw(plain, chunks, label=bname, returns=returns), "layers": layers, "request": {"method": "GET"}}
    # optional ASGI keys left out (they have defaults); on WSGI these are ordinary cases
    for omit in (["body"], ["more_body"], ["body", "more_body"], ["headers"], ["headers", "body", "more_body"]):
        for chunks in ([], [b"hello"], [b"hello", b"", b"world"]):
            for items in ("tuple", "list"):
                for layers in IDENTITY_STACKS[:2]:
                    yield {"inner": xraw([] if "headers" in omit else plain + [["Set-Cookie", "a=1"]], chunks, omit=omit, header_items=items, status="201 Created"),
                           "layers": layers, "request": {"method": "GET"}}
    # methods: the layers have no opinion on the method; an application that answers HEAD / OPTIONS / DELETE with
    # body bytes hands them to the server with or without layers
    for method in ("HEAD", "OPTIONS", "DELETE", "PATCH", "PROPFIND"):
        for layers in IDENTITY_STACKS + [[mw("set", name="x-mw", value="1")]]:
            yield {"inner": xraw(plain + [["Content-Length", "10"]]), "layers": layers, "request": {"method": method}}
            yield {"inner": {"app": "xview", "response": {"kind": "plain", "content": "text", "status": 200}}, "layers": [deco()] + layers, "request": {"method": method}}
            yield {"inner": {"app": "xview", "response": {"kind": "stream", "chunks": [b"a", b"b"]}}, "layers": layers, "request": {"method": method}}
            yield {"inner": {"app": "xview", "response": {"kind": "file", "size": 64, "name": "f.txt", "chunk": 16}}, "layers": layers, "request": {"method": method}}


EDIT_INNERS = [
    xraw([["Content-Type", "text/plain"], ["X-Inner", "orig"], ["Vary", "Accept"], ["Vary", "Cookie"], ["Set-Cookie", "a=1; Path=/"], ["Set-Cookie", "b=2"]]),
    xraw([["Content-Type", "text/plain"]], [b"only"]),
    xraw([["x-inner", "one"], ["X-INNER", "two"], ["vary", "Accept"]], [], status="404 Not Found"),
    {"app": "xview", "response": {"kind": "plain", "content": "hi", "headers": {"x-inner": "orig", "Vary": "Accept"}, "cookies": [{"name": "sid", "value": "v"}, {"name": "t", "value": "w", "httponly": True}]}},
    {"app": "xview", "response": {"kind": "file", "size": 64, "name": "f.txt", "chunk": 16, "headers": {"X-Inner": "orig"}}},
    {"app": "xview", "response": {"kind": "stream", "chunks": [b"a", b"", b"bc"], "headers": {"vary": "Accept"}, "status": 202}},
    {"app": "xview", "response": {"kind": "redirect", "url": "/next", "headers": {"X-Inner": "orig"}, "cookies": [{"name": "sid", "value": "v"}]}},
]
# names no response class computes when it is rendered (a view decorator edits the response object itself)
EDITS_ANY_LAYER = (
    [{"op": "set", "name": n, "value": "replaced"} for n in ("x-inner", "X-Inner", "X-INNER", "x-new", "X-New")]
    + [{"op": "set", "name": n, "value": "Origin"} for n in ("vary", "Vary")]
    + [{"op": "del", "name": n} for n in ("x-inner", "X-Inner", "Vary", "x-absent", "X-Absent")]
    + [{"op": "delitem", "name": n} for n in ("X-Inner", "VARY")]
    + [{"op": "append", "name": n, "value": "Origin"} for n in ("vary", "Vary", "VARY")]
    + [{"op": "append", "name": n, "value": "more"} for n in ("X-Inner", "X-New", "x-new")]
    + [{"op": op, "name": n, "value": "default"} for op in ("setdefault", "ifabsent") for n in ("X-Inner", "x-inner", "Vary", "X-New")]
    + [{"op": "set", "name": "X-New", "value": v} for v in ("d\xe9j\xe0 vu", "a\tb", "", "a, b", "\xff")]
    + [{"op": "cookie", "name": "mw_c", "value": "1"}]
)
# a middleware sees the finished header block of the inner response: it may edit any field
EDITS_MIDDLEWARE_ONLY = [
    {"op": "set", "name": "Content-Type", "value": "text/html"}, {"op": "del", "name": "Content-Type"}, {"op": "append", "name": "Content-Type", "value": "x"},
    {"op": "set", "name": "content-length", "value": "99"}, {"op": "del", "name": "Content-Length"}, {"op": "set", "name": "ETag", "value": "\"mw\""},
    {"op": "del", "name": "Last-Modified"}, {"op": "set", "name": "Location", "value": "/elsewhere"},
]


def edit_cases():
    for inner in EDIT_INNERS:
        view = inner["app"] == "xview"
        for e in EDITS_ANY_LAYER + EDITS_MIDDLEWARE_ONLY:
            yield {"inner": inner, "layers": [{"layer": "middleware", "edit": e}], "request": {"method": "GET"}}
        for e in EDITS_ANY_LAYER:
            yield {"inner": inner, "layers": [mw(), {"layer": "middleware", "edit": e}], "request": {"method": "GET"}}
            yield {"inner": inner, "layers": [{"layer": "middleware", "edit": e}, mw("observe")], "request": {"method": "GET"}}
            if view:
                yield {"inner": inner, "layers": [{"layer": "decorator", "edit": e}], "request": {"method": "GET"}}
                yield {"inner": inner, "layers": [{"layer": "decorator", "edit": e}, deco(), mw()], "request": {"method": "GET"}}
        # two edits of the same field, and of two fields
        pairs = [
            ({"op": "append", "name": "Vary", "value": "Origin"}, {"op": "append", "name": "vary", "value": "Accept-Language"}),
            ({"op": "set", "name": "X-Inner", "value": "first"}, {"op": "append", "name": "x-inner", "value": "second"}),
            ({"op": "del", "name": "X-Inner"}, {"op": "set", "name": "x-inner", "value": "again"}),
            ({"op": "cookie", "name": "mw_c", "value": "1"}, {"op": "cookie", "name": "mw_d", "value": "2"}),
            ({"op": "cookie", "name": "mw_c", "value": "1"}, {"op": "del", "name": "Vary"}),
            ({"op": "append", "name": "X-New", "value": "1"}, {"op": "delitem", "name": "x-new"}),
        ]
        for e1, e2 in pairs:
            yield {"inner": inner, "layers": [{"layer": "middleware", "edit": e1}, {"layer": "middleware", "edit": e2}], "request": {"method": "GET"}}
            if view:
                yield {"inner": inner, "layers": [{"layer": "decorator", "edit": e1}, {"layer": "middleware", "edit": e2}], "request": {"method": "GET"}}


def edit_range_cases():
    """File responses take a different path for every kind of Range answer (200, 206 single, 206 multipart, 400, 416):
    what a layer adds or changes must arrive on each of them, and nothing else may change."""
    inner = EDIT_INNERS[4]
    edits = [{"op": "set", "name": "X-Inner", "value": "replaced"}, {"op": "cookie", "name": "mw_c", "value": "1"}, {"op": "append", "name": "Vary", "value": "Origin"}, {"op": "del", "name": "x-inner"},
             {"op": "identity"}]
    for rng in ("bytes=0-0", "bytes=2-", "bytes=0-0,2-3", "bytes=9999-", "bytes=3-1", "bogus", "bytes=1-\xff"):
        for method in ("GET", "HEAD"):
            for e in edits:
                for layers in ([{"layer": "decorator", "edit": e}], [{"layer": "middleware", "edit": e}], [{"layer": "decorator", "edit": e}, mw()]):
                    for zc in (False, True):
                        yield {"inner": inner, "layers": layers, "request": {"method": method, "headers": [["Range", rng]], "zerocopy": zc}}
            # the multipart Content-Type (it names the random boundary) deleted, extended or replaced by a middleware
            for e in ({"op": "del", "name": "Content-Type"}, {"op": "append", "name": "Content-Type", "value": "x"}, {"op": "set", "name": "content-type", "value": "text/html"}):
                for zc in (False, True):
                    yield {"inner": inner, "layers": [{"layer": "middleware", "edit": e}, mw()], "request": {"method": method, "headers": [["Range", rng]], "zerocopy": zc}}


def zerocopy_cases(quick=True):
    """The server offers the ASGI zero-copy send extension: file applications answer with `http.response.zerocopysend`
    events ((fd, offset, count) instead of bytes).  Behind layers the answer must still carry the file's bytes."""
    ranges = [None, "bytes=0-0", "bytes=5-40", "bytes=-7", "bytes=3-", "bytes=0-0,2-3", "bytes=0-9,20-29,60-", "bytes=9999999-", "bogus"]
    mws = [mw(), mw("observe"), mw("set", name="X-Inner", value="replaced")]
    for size, chunk in ((64, 16), (0, 16), (200, 4096), (70000, 4096), (140000, 65536)):
        file_r = {"kind": "file", "size": size, "name": "f.bin" if size % 2 else "f.txt", "chunk": chunk, "headers": {"x-inner": "orig"}}
        apps = [({"app": "xview", "response": file_r}, True), ({"app": "response", "response": file_r}, False), ({"app": "view", "response": file_r}, False)]
        for inner, decorable in apps:
            stacks = [mws[:1], mws[:2], mws[:3], [mws[2]]]
            if decorable:
                stacks += [[deco()], [deco("cookie", name="mw_c", value="1")], [deco(), mw()], [deco("observe"), mw(), mw("append", name="Vary", value="Origin")]]
            big = size > 65536  # more than one 64 KiB block of the relay buffer; building such a file recipe is slow, so fewer of them
            if big:
                stacks = [mws[:1], mws[:3]] + ([[deco(), mw()]] if decorable else [])
            if size == 64 or (size == 70000 and not quick):
                rngs = ranges
            elif big:
                rngs = [None, "bytes=5-69000", "bytes=0-9,20-29,66000-"]
            else:
                rngs = [None, "bytes=0-0,2-3"]
            for rng in rngs:
                for method in ("GET",) if big and quick else ("GET", "HEAD"):
                    for layers in stacks:
                        yield {"inner": inner, "layers": layers, "request": {"method": method, "headers": [["Range", rng]] if rng else [], "zerocopy": True}}
    # static file applications and mounts behind layers
    for name in ("files", "pages", "subpaths"):
        inner, paths = MOUNTED[name]
        for path in paths:
            for layers in ([mw()], [mw(), mw(), mw("observe")]):
                yield {"inner": inner, "layers": layers, "request": {"method": "GET", "path": path, "headers": [["Range", "bytes=2-5"]], "zerocopy": True}}
    # applications that have no use for the extension
    for inner in EDIT_INNERS[:1] + EDIT_INNERS[5:6]:
        for layers in ([mw()], [mw(), mw()]):
            yield {"inner": inner, "layers": layers, "request": {"method": "GET", "zerocopy": True}}


def _zc(offset=None, count=None):
    return {"zc": {k: v for k, v in (("offset", offset), ("count", count)) if v is not None}}


# (file size, ops): how a raw / foreign ASGI application may use the zero-copy send extension itself
ZC_OPS = {
    "offset+count": (100, [_zc(10, 30)]),
    "offset-only": (100, [_zc(40)]),
    "offset-0": (100, [_zc(0, 100)]),
    "count-after-seek": (100, [{"seek": 16}, _zc(None, 24)]),
    "count-after-read": (100, [{"read": 16}, _zc(None, 24)]),
    "neither-after-seek": (100, [{"seek": 16}, _zc()]),
    "neither-after-read": (100, [{"read": 7}, _zc()]),
    "neither-from-start": (100, [_zc()]),
    "count-only-sequence": (100, [{"seek": 8}, _zc(None, 10), _zc(None, 20), _zc(None, 5)]),
    "count-then-rest": (100, [_zc(None, 10), _zc()]),
    "sequence-with-reads-between": (100, [_zc(None, 8), {"read": 8}, _zc(None, 8), {"seek": 64}, _zc(None, 8)]),
    "mixed-with-body-chunks": (100, [{"body": b"head:"}, {"seek": 5}, _zc(None, 10), {"body": b"|mid|"}, _zc(None, 10), {"body": b"tail"}]),
    "body-offset-body": (100, [{"body": b"pre"}, _zc(50, 10), {"body": b"post"}]),
    "two-offsets": (100, [_zc(60, 10), _zc(20, 10)]),
    "count-beyond-end": (100, [{"seek": 90}, _zc(None, 50)]),
    "offset-count-beyond-end": (100, [_zc(95, 50)]),
    "count-zero-first": (100, [{"seek": 30}, _zc(None, 0), _zc(None, 10)]),
    "offset-count-zero": (100, [_zc(10, 0), {"body": b"x"}]),
    "at-eof": (100, [{"seek": 100}, _zc()]),
    "big-rest-after-seek": (200000, [{"seek": 1000}, _zc()]),
    "big-count-sequence": (200000, [{"read": 3}, _zc(None, 70000), _zc(None, 70000), _zc()]),
    "big-offset+count": (200000, [_zc(65536, 65537)]),
}


def zc_inner(name, final="op", view=False, extra_headers=()):
    size, ops = ZC_OPS[name]
    spec = {"size": size, "ops": ops, "final": final}
    n = len(x_c20.reference_body({"file_ops": spec}))
    if view:
        return {"app": "xview", "file_ops": spec, "status": 200, "headers": dict([["content-type", "application/octet-stream"], ["content-length", str(n)], ["x-inner", "orig"]] + [list(h) for h in extra_headers]), "label": name}
    return xraw([["Content-Type", "application/octet-stream"], ["Content-Length", str(n)], ["X-Inner", "orig"], ["Set-Cookie", "a=1"], ["Set-Cookie", "b=2"]] + [list(h) for h in extra_headers], [], file_ops=spec, label=name)


def zcraw_cases(quick=True):
    """Inner applications that use the zero-copy send extension themselves (baize's own FileResponse always names an
    offset; the extension also allows `from the descriptor's current position` and `to the end of the file`)."""
    stacks_raw = [[mw()], [mw(), mw()], [mw(), mw("observe"), mw()], [mw("set", name="X-Inner", value="replaced")], [mw("cookie", name="mw_c", value="1"), mw()]]
    stacks_view = [[deco()], [deco("set", name="X-Inner", value="replaced")], [deco(), mw()], [deco("cookie", name="mw_c", value="1"), mw(), mw()], [mw()]]
    for name in ZC_OPS:
        big = name.startswith("big")
        for final in ("op", "empty-body"):
            for stacks, view in ((stacks_raw, False), (stacks_view, True)):
                for i, layers in enumerate(stacks[:2] if big and quick else stacks):
                    yield {"inner": zc_inner(name, final, view), "layers": layers, "request": {"method": "GET", "zerocopy": True}}
                    if i == 0 and final == "op":
                        # the same application when the server does not offer the extension (it sends the bytes itself)
                        yield {"inner": zc_inner(name, final, view), "layers": layers, "request": {"method": "GET", "zerocopy": False}}


@st.composite
def zc_ops(draw):
    size = draw(st.sampled_from([1, 64, 100, 100, 65537]))
    pos = st.integers(0, size)
    if draw(st.booleans()):
        # offset-less messages: the descriptor's position matters
        ops = draw(st.lists(st.one_of(pos.map(lambda k: {"seek": k}), st.integers(0, 9).map(lambda k: {"read": k}), st.integers(0, size + 5).map(lambda c: _zc(None, c)),
                                      st.sampled_from([b"", b"chunk"]).map(lambda b: {"body": b})), min_size=1, max_size=5))
        if draw(st.booleans()):
            ops.append(_zc())
    else:
        ops = draw(st.lists(st.one_of(st.tuples(pos, st.one_of(st.none(), st.integers(0, size + 5))).map(lambda t: _zc(*t)), st.sampled_from([b"", b"chunk"]).map(lambda b: {"body": b})),
                            min_size=1, max_size=4))
    return {"size": size, "ops": ops, "final": draw(st.sampled_from(["op", "empty-body"]))}


_TREE = {"a.txt": b"hello file", "sub/index.html": b"<p>index</p>", "sub/b.bin": bytes(range(64))}
_ECHO = {"app": "echo", "order": ["body"]}
MOUNTED = {
    "router": ({"app": "router", "routes": [["/items/{id:int}", _ECHO], ["/files/{p:any}", {"app": "echo", "order": ["stream"]}],
                                            ["/plain", {"app": "view", "response": {"kind": "plain", "content": "plain", "cookies": [{"name": "a", "value": "1"}, {"name": "b", "value": "2"}]}}],
                                            ["/", {"app": "response", "response": {"kind": "html", "content": "<p>home</p>"}}]]},
               ["/items/42", "/items/-1", "/items/abc", "/files/a/b.txt", "/files/", "/plain", "/", "/nowhere", "/items/7/"]),
    "subpaths": ({"app": "subpaths", "mounts": [["/api", _ECHO], ["/static", {"app": "files", "tree": _TREE}], ["", {"app": "view", "response": {"kind": "plain", "content": "root", "status": 203}}]]},
                 ["/api/users", "/api", "/api/", "/apix", "/static/a.txt", "/static/sub/b.bin", "/static/missing", "/static/sub", "/other", "/"]),
    "nested": ({"app": "subpaths", "mounts": [["/v1", {"app": "router", "routes": [["/u/{name}", _ECHO], ["/d/{d:date}", _ECHO]]}], ["/v2", {"app": "subpaths", "mounts": [["/deep", _ECHO]]}]]},
               ["/v1/u/caf\xe9", "/v1/d/2024-02-29", "/v1/d/nope", "/v2/deep/x/y", "/v2/shallow", "/v3"]),
    "hosts": ({"app": "hosts", "table": [["a\\.example\\.com", _ECHO], ["b\\.example\\.com(:\\d+)?", {"app": "view", "response": {"kind": "json", "content": {"host": "b"}}}]]},
              ["/h"]),
    "files": ({"app": "files", "tree": _TREE}, ["/a.txt", "/sub/b.bin", "/sub/index.html", "/missing.txt", "/sub", "/../a.txt"]),
    "pages": ({"app": "pages", "tree": _TREE}, ["/a.txt", "/sub/", "/sub", "/sub/index", "/missing"]),
}
_RQ_HEADERS = [["Cookie", "sid=abc; theme=dark"], ["Accept", "text/html, application/json;q=0.8"], ["X-Custom", "d\xe9j\xe0"], ["X-Custom", "again"], ["Referer", "http://example.org/from?x=1"]]


def mounted_cases():
    stacks = IDENTITY_STACKS + [[mw("set", name="x-mw", value="1")], [mw("append", name="Vary", value="Origin"), mw()]]
    for name, (inner, paths) in MOUNTED.items():
        for path in paths:
            variants = [{"method": "GET", "path": path, "query": "x=1&x=2&y=%C3%A9", "headers": _RQ_HEADERS}]
            if name in ("router", "subpaths", "nested"):
                variants.append({"method": "POST", "path": path, "headers": [["Content-Type", "application/json"]], "body": [b'{"a": ', b"1}"]})
            if name in ("files", "pages", "subpaths"):
                variants.append({"method": "GET", "path": path, "headers": [["Range", "bytes=1-3,5-6"]]})
                variants.append({"method": "HEAD", "path": path})
                variants.append({"method": "GET", "path": path, "zerocopy": True})
                variants.append({"method": "GET", "path": path, "headers": [["Range", "bytes=1-3,5-6"]], "zerocopy": True})
                variants.append({"method": "HEAD", "path": path, "zerocopy": True})
                variants.append({"method": "GET", "path": path, "headers": [["If-Modified-Since", "Wed, 21 Oct 2037 07:28:00 GMT"], ["If-None-Match", "\"nope\", *"]]})
            if name == "hosts":
                variants = [{"method": "GET", "path": path, "headers": [["Host", h]] + _RQ_HEADERS[:1]} for h in ("a.example.com", "b.example.com:8000", "c.example.com", "")]
            for rq in variants:
                for layers in stacks:
                    yield {"inner": inner, "layers": layers, "request": rq}


def error_cases():
    stacks_view = [[deco()], [deco(), deco("observe")], [mw()], [mw(), mw()], [deco(), mw()], [deco("observe"), mw("observe"), mw()]]
    stacks_app = [s for s in stacks_view if all(ly["layer"] == "middleware" for ly in s)] + [[mw("observe")]]
    https = [[404, None, None], [403, {"X-Reason": "no"}, "forbidden"], [503, {"Retry-After": "5", "Cache-Control": "no-store"}, "later"], [418, {"Set-Cookie": "a=1"}, None],
             [301, {"Location": "/moved"}, None], [299, None, "custom"], [400, {}, ""]]
    for h in https:
        for layers in stacks_view:
            yield {"inner": {"app": "xview", "raise_http": h}, "layers": layers, "request": {"method": "GET"}}
    for layers in stacks_view:
        yield {"inner": {"app": "xview", "raise_exc": "ViewError"}, "layers": layers, "request": {"method": "POST", "body": [b"x"]}}
        for raise_at in (0, 1, 2, 3):
            yield {"inner": {"app": "xview", "response": {"kind": "stream", "chunks": [b"a", b"bc", b"def"], "raise_at": raise_at, "status": 201, "headers": {"x-inner": "orig"}}}, "layers": layers,
                   "request": {"method": "GET"}}
    for layers in stacks_app:
        for n in (0, 1, 2, 4):
            yield {"inner": xraw([["Content-Type", "text/plain"], ["Set-Cookie", "a=1"], ["Set-Cookie", "b=2"]], [b"c%d" % i for i in range(n)], status="201 Created", returns="generator", raises="mid"),
                   "layers": layers, "request": {"method": "GET"}}
        for raises in ("before", "after", "mid"):
            for returns in ("list", "generator"):
                for exc in (None, "TypeError", "AttributeError", "KeyError", "ValueError", "OSError", "RuntimeError", "LookupError"):
                    raw = {"app": "raw", "status": "202 Accepted", "headers": [["X-A", "1"], ["Set-Cookie", "a=1"]], "chunks": [b"one", b"two", b"three"], "returns": returns, "raises": raises}
                    if exc:
                        raw["exc"] = exc  # the application fails with a built-in exception class: it must still run exactly once
                    yield {"inner": raw, "layers": layers, "request": {"method": "GET"}}
        # a failing mid-body application behind an editing layer: the exception class and what was emitted before
        yield {"inner": xraw([["X-Inner", "orig"]], [b"one", b"two"], returns="generator", raises="mid"), "layers": layers + [mw("set", name="x-inner", value="replaced")], "request": {"method": "GET"}}


_COOKIE_HEADS = [["Content-Type", "text/plain"], ["X-Inner", "orig"], ["Set-Cookie", "a=1; Path=/"], ["Set-Cookie", "b=2"]]
ITER_ANSWERS = [("200 OK", []), ("200 OK", _COOKIE_HEADS), ("404 Not Found", [["Content-Type", "text/plain"]]), ("599 Custom", _COOKIE_HEADS[1:])]
ITER_BODIES = [[], [b"one"], [b"hello", b"", b"world"], [{"pat": 70000}, {"pat": 70000}]]


def returns_x_start():
    for returns in x_c20.RETURNS:
        for start in ("eager",) if returns in x_c20.RETURNS_EAGER_ONLY else ("eager", "lazy"):
            yield returns, start


def _wrap_inners():
    cookies = [{"name": "sid", "value": "v"}, {"name": "t", "value": "w", "httponly": True}]
    plain = {"kind": "plain", "content": "hi", "status": 404, "headers": {"x-inner": "orig", "Vary": "Accept"}, "cookies": cookies}
    yield xraw(_COOKIE_HEADS, [b"a", b"bc"], status="201 Created", returns="generator", start="lazy"), ["/m"]
    yield xraw(_COOKIE_HEADS, [b"a", b"bc"], status="201 Created", returns="list"), ["/m"]
    yield xraw([], [], status="204 No Content", returns="iterator-close", start="lazy"), ["/m"]
    yield {"app": "xview", "response": plain}, ["/m"]
    yield {"app": "xview", "response": {"kind": "stream", "chunks": [b"a", b"", b"bc"], "headers": {"vary": "Accept"}, "status": 202}}, ["/m"]
    yield {"app": "xview", "response": {"kind": "file", "size": 64, "name": "f.txt", "chunk": 16, "headers": {"X-Inner": "orig"}}}, ["/m"]
    yield {"app": "xview", "response": {"kind": "redirect", "url": "/next", "headers": {"X-Inner": "orig"}, "cookies": cookies[:1]}}, ["/m"]
    yield {"app": "xview", "response": {"kind": "empty", "status": 204}}, ["/m"]
    yield {"app": "response", "response": plain}, ["/m"]
    yield {"app": "response", "response": {"kind": "json", "content": {"a": [1, 2]}, "status": 201, "cookies": cookies}}, ["/m"]
    yield {"app": "echo", "order": ["body"]}, ["/m"]
    yield MOUNTED["router"][0], ["/plain", "/items/42", "/nowhere"]
    yield MOUNTED["files"][0], ["/a.txt", "/missing.txt"]


def iterable_cases():
    """What a WSGI application hands back is `an iterable`: PEP 3333 knows nothing of generators, and start_response may
    be called as late as in the iterable's first iteration step."""
    edit = mw("set", name="x-mw", value="1")
    stacks = IDENTITY_STACKS + [[edit], [mw(), mw("cookie", name="mw_c", value="1"), mw("observe")]]
    for case in _iterable_cases(edit, stacks):
        # "returns", "start" and the re-packaging of a foreign layer exist on WSGI only: the ASGI side of a recipe is the same
        # for all their values and runs once (with the first value)
        i = case["inner"]
        first = i["how"] == x_c20.WRAP_HOWS[0] and i["inner"].get("how", x_c20.WRAP_HOWS[0]) == x_c20.WRAP_HOWS[0] if i["app"] == "xwrap" else (i["returns"], i["start"]) == ("list", "eager")
        case["sides"] = ["wsgi", "asgi"] if first else ["wsgi"]
        yield case


def _iterable_cases(edit, stacks):
    for returns, start in returns_x_start():
        for status, heads in ITER_ANSWERS:
            for chunks in ITER_BODIES:
                big = any(isinstance(c, dict) for c in chunks)
                for layers in stacks[:2] if big else stacks:
                    yield {"inner": xraw(heads, chunks, status=status, returns=returns, start=start), "layers": layers, "request": {"method": "GET"}, "nt": "lazy"}
        # methods the layers have no opinion on
        for method in ("HEAD", "POST", "DELETE"):
            yield {"inner": xraw(_COOKIE_HEADS, [b"a", b"bc"], status="201 Created", returns=returns, start=start), "layers": [mw()], "request": {"method": method}, "nt": "lazy"}
        # the application fails in the first iteration step (a lazy one: before it has called start_response) or mid-body
        for raises in ("first", "mid"):
            for chunks in ([b"one"], [b"one", b"two", b"three"]):
                for layers in ([mw()], [mw(), mw("observe")], [edit]):
                    yield {"inner": xraw(_COOKIE_HEADS, chunks, status="202 Accepted", returns=returns, start=start, raises=raises), "layers": layers, "request": {"method": "GET"}, "nt": "lazy"}
    # a layer of a foreign package between the baize layers and the application
    for inner, paths in _wrap_inners():
        for how in x_c20.WRAP_HOWS:
            for path in paths:
                for layers in stacks[:1] + stacks[3:] if len(paths) > 1 else stacks:
                    rq = {"method": "GET", "path": path}
                    if inner["app"] == "echo":
                        rq = {"method": "POST", "path": path, "headers": [["Content-Type", "application/json"]], "body": [b'{"a": ', b"1}"]}
                    yield {"inner": {"app": "xwrap", "how": how, "inner": inner}, "layers": layers, "request": rq, "nt": "lazy"}
    # two foreign layers
    for inner, paths in list(_wrap_inners())[:4]:
        for how1, how2 in (("map", "map"), ("map", "deferred-call"), ("deferred-call", "chain"), ("iterator-close", "iterable-close"), ("callable-iter", "map")):
            for layers in stacks[:2]:
                yield {"inner": {"app": "xwrap", "how": how2, "inner": {"app": "xwrap", "how": how1, "inner": inner}}, "layers": layers, "request": {"method": "GET", "path": paths[0]}, "nt": "lazy"}


@st.composite
def x_case(draw):
    """Random companion of the enumerated sub-checks: raw / view / mounted inner applications x layer stacks of
    depth 0..3 with free-form edits."""
    kind = draw(st.sampled_from(["xraw", "xraw", "xview", "mounted"]))
    rq = {"method": draw(st.sampled_from(["GET", "GET", "POST", "HEAD", "DELETE"]))}
    # a foreign layer (or two) that re-packages what the application returns (WSGI; a forwarding wrapper on ASGI)
    hows = draw(st.lists(st.sampled_from(x_c20.WRAP_HOWS), max_size=2)) if draw(st.integers(0, 3)) == 0 else []
    if kind == "xraw" and draw(st.integers(0, 3)) == 0:
        spec = draw(zc_ops())
        view = draw(st.booleans())
        n = str(len(x_c20.reference_body({"file_ops": spec})))
        if view:
            kind = "xview"
            inner = {"app": "xview", "file_ops": spec, "status": draw(st.sampled_from([200, 206, 299])), "headers": {"content-length": n, "x-inner": "orig"}}
        else:
            inner = xraw([["Content-Length", n], ["X-Inner", "orig"], ["Set-Cookie", "a=1"]], [], file_ops=spec, status=draw(st.sampled_from(["200 OK", "206 Partial Content"])))
    elif kind == "xraw":
        heads = draw(st.lists(st.sampled_from([h for hs in SHAPE_HEADERS.values() for h in hs] + [["Content-Type", "text/plain"], ["X-Inner", "orig"], ["x-inner", "lower"], ["Vary", "Accept"]]), max_size=6))
        chunks = draw(st.lists(st.one_of(st.sampled_from([b"", b"hello", b"\x00\xff"]), st.sampled_from([1, 65535, 65536, 65537, 131072]).map(lambda n: {"pat": n})), max_size=3))
        returns, start = draw(st.sampled_from([("list", "eager"), ("generator", "eager")] + list(returns_x_start())))
        inner = xraw(heads, chunks, status=draw(st.sampled_from(["200 OK", "201 Created", "404 Not Found", "599 Custom", "204 No Content"])), returns=returns, start=start,
                     omit=draw(st.lists(st.sampled_from(["body", "more_body", "headers"]), unique=True, max_size=3)), header_items=draw(st.sampled_from(["tuple", "list"])))
    elif kind == "xview":
        rr = draw(gen.response_recipes(kinds=("empty", "plain", "html", "json", "redirect", "stream", "file")))
        if draw(st.booleans()):
            rr.setdefault("headers", {})["x-inner"] = "orig"
        inner = {"app": "xview", "response": rr}
        if rr["kind"] == "file":
            r_ = draw(st.sampled_from(gen.RANGE_HEADERS))
            if r_:
                rq["headers"] = [["Range", r_]]
    else:
        name = draw(st.sampled_from(sorted(MOUNTED)))
        inner, paths = MOUNTED[name]
        rq["path"] = draw(st.sampled_from(paths))
        rq["query"] = draw(st.sampled_from(["", "x=1", "a=1&a=2"]))
        rq["headers"] = draw(st.lists(st.sampled_from(_RQ_HEADERS + [["Host", "a.example.com"], ["Host", "b.example.com"]]), unique_by=lambda h: h[0], max_size=3))
    rq["zerocopy"] = draw(st.booleans())
    names_any = ["x-inner", "X-Inner", "Vary", "vary", "X-New", "Cache-Control", "LINK"]
    names_mw = names_any + ["Content-Type", "content-length", "ETag", "X_Trace"]

    def edit(names):
        op = draw(st.sampled_from(["identity", "identity", "observe", "set", "del", "delitem", "append", "setdefault", "ifabsent", "cookie"]))
        if op in PASS_THROUGH:
            return {"op": op}
        if op == "cookie":
            return {"op": op, "name": draw(st.sampled_from(["mw_c", "mw_d"])), "value": draw(st.sampled_from(["1", "two"]))}
        e = {"op": op, "name": draw(st.sampled_from(names))}
        if op in ("set", "append", "setdefault", "ifabsent"):
            e["value"] = draw(st.sampled_from(["v", "Origin", "a, b", "", "d\xe9j\xe0"]))
        return e

    layers = []
    for how in hows:
        inner = {"app": "xwrap", "how": how, "inner": inner}
    if kind == "xview" and not hows:
        layers += [{"layer": "decorator", "edit": edit(names_any)} for _ in range(draw(st.sampled_from([0, 0, 1, 2])))]
    layers += [{"layer": "middleware", "edit": edit(names_mw)} for _ in range(draw(st.sampled_from([0, 1, 1, 2, 3])))]
    return {"inner": inner, "layers": layers, "request": rq}


SUBS = {"stacks": oracle, "grid": oracle, "zerocopy": oracle_x, "zcraw": oracle_x, "shapes": oracle_x, "edits": oracle_x, "mounted": oracle_x, "errors": oracle_x, "iterables": oracle_x, "xstacks": oracle_x}


_raw_headers = st.lists(
    st.sampled_from(
        [["Content-Type", "text/plain"], ["Set-Cookie", "a=1; Path=/"], ["Set-Cookie", "b=2; HttpOnly"], ["Set-Cookie", "c=3; Expires=Wed, 21 Oct 2026 07:28:00 GMT"],
         ["Link", "<a>; rel=next"], ["Link", "<b>; rel=prev"], ["Vary", "Accept"], ["Vary", "Cookie"], ["x-inner", "orig"], ["X-A", "1"], ["Cache-Control", "no-store"],
         ["Set-Cookie", "name=caf\xe9; Path=/"], ["Set-Cookie", "u=\xfc\xf1\xef"], ["X-Latin", "d\xe9j\xe0 vu"], ["Content-Disposition", "attachment; filename=\"r\xe9sum\xe9.txt\""],
         # headers a gateway-aware application sends with 426 / 503 / 401-style answers; passing them on is the server's business
         ["Connection", "close"], ["Upgrade", "h2c"], ["Connection", "Upgrade"], ["Keep-Alive", "timeout=5"], ["Proxy-Authenticate", "Basic realm=x"], ["Retry-After", "120"],
         ["WWW-Authenticate", "Basic realm=\"a\""], ["WWW-Authenticate", "Bearer"], ["Content-Length", "0"], ["Trailer", "X-Sum"]]
    ),
    max_size=5,
)


@st.composite
def raw_app(draw):
    chunks = draw(st.lists(st.one_of(st.just(b""), st.sampled_from([b"hello", b"world", b"\x00\xff", b"a"])), max_size=4))
    return {
        "app": "raw",
        "status": draw(st.sampled_from(["200 OK", "200 Fine", "201 Created", "404 Not Found", "599 Custom", "299 Whatever", "302 Found", "426 Upgrade Required", "503 Service Unavailable", "204 No Content", "304 Not Modified", "205 Reset Content", "103 Early Hints"])),
        "headers": draw(_raw_headers),
        "chunks": chunks,
        "returns": draw(st.sampled_from(["list", "tuple", "iter", "generator", "generator-late-start", "restart"])),
        "raises": draw(st.sampled_from([None, None, None, None, "before", "after", "mid"])),
        "exc": draw(st.sampled_from([None, None, "TypeError", "AttributeError", "KeyError", "ValueError", "OSError", "RuntimeError"])),
    }


@st.composite
def stack_case(draw):
    kind = draw(st.sampled_from(["response", "view", "raw", "raw", "echo"]))
    decorators = []
    if kind == "echo":
        inner = {"app": "echo", "order": draw(st.lists(st.sampled_from(["body", "json", "form", "stream"]), min_size=1, max_size=3, unique=True))}
        decorators = draw(st.lists(st.sampled_from(["identity", "identity", "add"]), max_size=2))
        depth = draw(st.sampled_from([0, 1, 1, 2, 3]))
        stack = [draw(st.sampled_from(["identity", "identity", "add", "replace", "delete"])) for _ in range(depth)]
        ctype, body = draw(st.sampled_from([
            ("application/json", [b'{"a": [1, 2, 3], "b": "\xc3\xa9"}']), ("application/json", [b'{"a": ', b"1}"]), ("application/json", [b"{bad"]),
            ("application/x-www-form-urlencoded", [b"a=1&b=2&a=3"]), ("application/x-www-form-urlencoded", [b"a=1", b"&b=%C3%A9"]),
            ('multipart/form-data; boundary="XbX"', [b'--XbX\r\nContent-Disposition: form-data; name="f"\r\n\r\nvalue\r\n--XbX\r\nContent-Disposition: form-data; name="u"; filename="u.bin"\r\n\r\n\x00\x01\r\n--XbX--\r\n']),
            ("text/plain", [b"plain ", b"", b"text"]), ("application/octet-stream", []),
        ]))
        return {"inner": inner, "stack": stack, "decorators": decorators, "request": {"method": draw(st.sampled_from(["POST", "PUT", "GET"])), "body": body, "ctype": ctype}}
    if kind == "raw":
        inner = draw(raw_app())
    else:
        rr = draw(gen.response_recipes())
        if draw(st.integers(0, 3)) == 0:
            rr.setdefault("headers", {})["x-inner"] = "orig"
        inner = {"app": kind, "response": rr}
        if kind == "view":
            decorators = draw(st.lists(st.sampled_from(["identity", "identity", "add", "replace", "delete"]), max_size=2))
    depth = draw(st.sampled_from([0, 1, 1, 1, 2, 2, 3]))
    stack = [draw(st.sampled_from(["identity", "identity", "identity", "add", "replace", "delete"])) for _ in range(depth)]
    rq = {"method": draw(st.sampled_from(["GET", "GET", "POST"]))}
    if inner.get("response", {}).get("kind") == "file":
        rq["range"] = draw(st.sampled_from(gen.RANGE_HEADERS))
        rq["zerocopy"] = draw(st.booleans())
    elif draw(st.integers(0, 5)) == 0:
        rq["zerocopy"] = True  # offered to an application that has no use for it
    return {"inner": inner, "stack": stack, "decorators": decorators, "request": rq}


def grid_cases():
    cookies = [["Set-Cookie", "a=1; Path=/"], ["Set-Cookie", "b=caf\xe9; HttpOnly"]]
    for n in range(0, 4):
        for returns in ("list", "tuple", "iter", "generator", "restart"):
            for nc in range(0, 3):
                for depth in (1, 2):
                    yield {
                        "inner": {"app": "raw", "status": "200 OK", "headers": [["Content-Type", "text/plain"]] + cookies[:nc],
                                  "chunks": [b"hello", b"world", b"!"][:n], "returns": returns, "raises": None},
                        "stack": ["identity"] * depth,
                        "decorators": [],
                        "request": {"method": "GET"},
                    }


def run(rec, only=None):
    quick = rec.tier == "quick"
    core.drive_cases(rec, "grid", grid_cases(), oracle)
    rec.exhaustive["grid"] = True
    for sub, cases in (("shapes", shape_cases(quick)), ("edits", edit_cases()), ("mounted", mounted_cases()), ("errors", error_cases()), ("iterables", iterable_cases()), ("zerocopy", zerocopy_cases(quick)), ("zcraw", zcraw_cases(quick))):
        core.drive_cases(rec, sub, cases, oracle_x)
        rec.exhaustive[sub] = True
    core.drive_cases(rec, "edits", edit_range_cases(), oracle_x)
    core.drive_hypothesis(rec, "stacks", stack_case(), oracle, 1200 if quick else 200000)
    rec.exhaustive["stacks"] = False
    core.drive_hypothesis(rec, "xstacks", x_case(), oracle_x, 500 if quick else 100000)
    rec.exhaustive["xstacks"] = False
