"""C20 - Middleware is transparent to what it does not change."""
from __future__ import annotations

import re

from hypothesis import strategies as st

from harness import core, gateways as gw, gen, recipes
from harness.core import Result

LEVEL = "exploration"
RULES = {
    "stacks": "Hypothesis: inner applications (every response class as app or as view, raw WSGI/ASGI apps returning a list / tuple / "
    "iterator / generator / empty iterable, several Set-Cookie lines, repeated other headers, unassigned status codes, custom reason "
    "phrases, failures before start / after start / mid-body, multi-chunk streams with empty chunks, files incl. empty file and ranges) "
    "x stacks of depth 0..3 of {identity, add-header, replace-header, delete-header} middlewares and view decorators x both "
    "interfaces, compared with the bare application; non-trivial = depth >= 1 and the inner response has >= 2 body chunks, a repeated "
    "header or a status other than 200",
    "grid": "exhaustive: raw inner apps over {0,1,2,3 chunks} x {list, tuple, iter, generator, restarted start_response with exc_info / optional ASGI keys omitted} x {0,1,2 Set-Cookie lines} x {identity depth 1, 2} x both interfaces",
}
ASSUMPTIONS = [
    "body chunking, reason phrase and header order are free; a mid-body failure of the inner app may surface before or after the bytes already produced",
    "repeated headers other than Set-Cookie may be combined into one 'a, b' line (RFC 7230 3.2.2 equivalence); Set-Cookie lines must stay separate",
]

EDITS = {"identity": None, "add": ("x-mw", "1"), "replace": ("x-inner", "replaced"), "delete": ("x-inner", None)}


def fold(pairs):
    """Header multiset with RFC 7230 combination of repeated fields, except Set-Cookie."""
    out = {}
    cookies = []
    for k, v in pairs:
        k = k.lower()
        if k == "set-cookie":
            # Expires is computed from the wall clock when the recipe is built: bare and wrapped
            # builds may fall into different seconds
            cookies.append(re.sub(r"expires=[^;]+", "expires=<T>", v))
        elif k in out:
            out[k] = out[k] + ", " + v
        else:
            out[k] = v
    return sorted(out.items()) + sorted(("set-cookie", c) for c in cookies)


def apply_edits(pairs, stack):
    pairs = [(k.lower(), v) for k, v in pairs]
    for kind in stack:
        e = EDITS[kind]
        if e is None:
            continue
        name, val = e
        if val is None:
            pairs = [(k, v) for k, v in pairs if k != name]
        else:
            pairs = [(k, v) for k, v in pairs if k != name] + [(name, val)]
    return pairs


def wrap(inner, stack, decorators):
    app = dict(inner)
    if decorators:
        app["decorators"] = list(decorators)
    for kind in stack:
        app = {"app": "middleware", "kind": kind, "inner": app}
    return app


def one(side, app_recipe, rq):
    built = recipes.build_app(app_recipe, side)
    run = gw.call_wsgi(built.app, rq) if side == "wsgi" else gw.call_asgi(built.app, rq)
    heads = [(k, v) for k, v in run.headers] if side == "wsgi" else [(k.decode("latin-1"), v.decode("latin-1")) for k, v in run.headers]
    # the random multipart/byteranges boundary differs from run to run
    import re

    for k, v in heads:
        m = re.match(r"^multipart/byteranges; boundary=([a-z0-9]+)$", v) if k.lower() == "content-type" else None
        if m:
            b = m.group(1)
            heads = [(k2, v2.replace(b, "BOUNDARY")) for k2, v2 in heads]
            run.chunks = [b"".join(run.chunks).replace(b.encode(), b"BOUNDARY")]
    return run, heads, built


def oracle(case) -> Result:
    r = Result()
    inner, stack, decorators = case["inner"], case["stack"], case.get("decorators", [])
    rqd = case.get("request", {})
    headers = [["Range", rqd["range"]]] if rqd.get("range") else []
    depth = len(stack) + len(decorators)
    nontrivial = False
    for side in ("wsgi", "asgi"):
        body = [b"payload"] if rqd.get("method") == "POST" else []
        if rqd.get("body") is not None:
            body = list(rqd["body"])
            headers = headers + [["Content-Type", rqd.get("ctype", "application/octet-stream")]]
        rq = gw.areq(method=rqd.get("method", "GET"), path="/m", headers=headers, body=list(body))
        bare, bheads, bbuilt = one(side, inner, rq)
        rq2 = gw.areq(method=rqd.get("method", "GET"), path="/m", headers=headers, body=list(body))
        wrapped, wheads, wbuilt = one(side, wrap(inner, stack, decorators), rq2)
        ctx = f"{side} inner {inner!r} stack {stack!r} decorators {decorators!r}" + (f" request body {body!r} as {rqd.get('ctype')!r}" if rqd.get("body") is not None else "")
        if inner["app"] == "echo" and bbuilt.stash != wbuilt.stash:
            # what the view sees of the request (line, headers, body / json / form in the given access order)
            # is the same behind any number of pass-through layers
            diff = []
            for be, we in zip(bbuilt.stash, wbuilt.stash):
                diff += [(k, be.get(k), we.get(k)) for k in sorted(set(be) | set(we)) if be.get(k) != we.get(k)]
            if len(bbuilt.stash) != len(wbuilt.stash):
                diff.append(("views-run", len(bbuilt.stash), len(wbuilt.stash)))
            r.fail(f"C20:{side}:request-view-differs:{','.join(sorted({d[0] for d in diff}))[:50]}", f"{ctx}: (accessor, bare, wrapped) = {diff[:3]!r}")
        leaf = recipes.leaf_calls(wbuilt)
        if len(leaf) != 1:
            r.fail(f"C20:{side}:inner-call-count", f"{ctx}: inner application ran {len(leaf)} times")
        if bare.exc is not None or wrapped.exc is not None:
            bname = type(bare.exc).__name__ if bare.exc is not None else None
            wname = type(wrapped.exc).__name__ if wrapped.exc is not None else None
            if bname != wname:
                r.fail(f"C20:{side}:exception-differs:{bname}-vs-{wname}", f"{ctx}: bare raised {bare.exc!r}, wrapped raised {wrapped.exc!r}")
            elif inner.get("raises") != "mid" and bare.start_calls if side == "wsgi" else False:
                pass
            r.label("inner-raises")
            continue
        # what the bare application itself gets wrong (e.g. a hop-by-hop header it chose to send) is not the
        # middleware's doing: only protocol errors that the wrapping introduces count
        bare_codes = {e[0] for e in bare.errors}
        introduced = [e for e in wrapped.errors if e[0] not in bare_codes]
        if introduced:
            r.fail(f"C20:{side}:protocol:{introduced[0][0]}", f"{ctx}: {introduced[:2]!r}")
        if bare.status_code != wrapped.status_code:
            r.fail(f"C20:{side}:status", f"{ctx}: bare {bare.status_code}, wrapped {wrapped.status_code}")
        editing = stack + decorators
        want = fold(apply_edits(bheads, list(decorators) + list(stack)))
        got = fold(wheads)
        if want != got:
            wc = [v for k, v in want if k == "set-cookie"]
            gc = [v for k, v in got if k == "set-cookie"]
            what = "set-cookie" if wc != gc else "headers"
            r.fail(f"C20:{side}:{what}", f"{ctx}: wrapped headers {got!r}, expected {want!r}")
        if bare.body != wrapped.body:
            r.fail(
                f"C20:{side}:body",
                f"{ctx}: bare body {bare.body[:80]!r} ({len(bare.body)} bytes, chunks {[len(c) for c in bare.chunks][:8]}), wrapped body {wrapped.body[:80]!r} ({len(wrapped.body)} bytes)",
            )
        nchunks = len([c for c in bare.chunks if c])
        repeated = len({k.lower() for k, _ in bheads}) < len(bheads)
        if depth >= 1 and (nchunks >= 2 or repeated or bare.status_code != 200):
            nontrivial = True
        if repeated:
            r.label("repeated-header")
        if nchunks >= 2:
            r.label("multi-chunk")
        _ = editing
    r.nontrivial = nontrivial
    r.label(f"depth={depth}", f"inner={inner['app']}" + (":" + inner["response"]["kind"] if "response" in inner else ""))
    r.weight = 4
    return r


SUBS = {"stacks": oracle, "grid": oracle}


_raw_headers = st.lists(
    st.sampled_from(
        [["Content-Type", "text/plain"], ["Set-Cookie", "a=1; Path=/"], ["Set-Cookie", "b=2; HttpOnly"], ["Set-Cookie", "c=3; Expires=Wed, 21 Oct 2026 07:28:00 GMT"],
         ["Link", "<a>; rel=next"], ["Link", "<b>; rel=prev"], ["Vary", "Accept"], ["Vary", "Cookie"], ["x-inner", "orig"], ["X-A", "1"], ["Cache-Control", "no-store"],
         ["Set-Cookie", "name=caf\xe9; Path=/"], ["Set-Cookie", "u=\xfc\xf1\xef"], ["X-Latin", "d\xe9j\xe0 vu"], ["Content-Disposition", "attachment; filename=\"r\xe9sum\xe9.txt\""],
         # headers a gateway-aware application sends with 426 / 503 / 401-style answers; passing them on is the server's business
         ["Connection", "close"], ["Upgrade", "h2c"], ["Connection", "Upgrade"], ["Keep-Alive", "timeout=5"], ["Proxy-Authenticate", "Basic realm=x"], ["Retry-After", "120"],
         ["WWW-Authenticate", "Basic realm=\"a\""], ["WWW-Authenticate", "Bearer"], ["Content-Length", "0"], ["Trailer", "X-Sum"]]
    ),
    max_size=5,
)


@st.composite
def raw_app(draw):
    chunks = draw(st.lists(st.one_of(st.just(b""), st.sampled_from([b"hello", b"world", b"\x00\xff", b"a"])), max_size=4))
    return {
        "app": "raw",
        "status": draw(st.sampled_from(["200 OK", "200 Fine", "201 Created", "404 Not Found", "599 Custom", "299 Whatever", "302 Found", "426 Upgrade Required", "503 Service Unavailable", "204 No Content", "304 Not Modified", "205 Reset Content", "103 Early Hints"])),
        "headers": draw(_raw_headers),
        "chunks": chunks,
        "returns": draw(st.sampled_from(["list", "tuple", "iter", "generator", "generator-late-start", "restart"])),
        "raises": draw(st.sampled_from([None, None, None, None, "before", "after", "mid"])),
    }


@st.composite
def stack_case(draw):
    kind = draw(st.sampled_from(["response", "view", "raw", "raw", "echo"]))
    decorators = []
    if kind == "echo":
        inner = {"app": "echo", "order": draw(st.lists(st.sampled_from(["body", "json", "form", "stream"]), min_size=1, max_size=3, unique=True))}
        decorators = draw(st.lists(st.sampled_from(["identity", "identity", "add"]), max_size=2))
        depth = draw(st.sampled_from([0, 1, 1, 2, 3]))
        stack = [draw(st.sampled_from(["identity", "identity", "add", "replace", "delete"])) for _ in range(depth)]
        ctype, body = draw(st.sampled_from([
            ("application/json", [b'{"a": [1, 2, 3], "b": "\xc3\xa9"}']), ("application/json", [b'{"a": ', b"1}"]), ("application/json", [b"{bad"]),
            ("application/x-www-form-urlencoded", [b"a=1&b=2&a=3"]), ("application/x-www-form-urlencoded", [b"a=1", b"&b=%C3%A9"]),
            ('multipart/form-data; boundary="XbX"', [b'--XbX\r\nContent-Disposition: form-data; name="f"\r\n\r\nvalue\r\n--XbX\r\nContent-Disposition: form-data; name="u"; filename="u.bin"\r\n\r\n\x00\x01\r\n--XbX--\r\n']),
            ("text/plain", [b"plain ", b"", b"text"]), ("application/octet-stream", []),
        ]))
        return {"inner": inner, "stack": stack, "decorators": decorators, "request": {"method": draw(st.sampled_from(["POST", "PUT", "GET"])), "body": body, "ctype": ctype}}
    if kind == "raw":
        inner = draw(raw_app())
    else:
        rr = draw(gen.response_recipes())
        if draw(st.integers(0, 3)) == 0:
            rr.setdefault("headers", {})["x-inner"] = "orig"
        inner = {"app": kind, "response": rr}
        if kind == "view":
            decorators = draw(st.lists(st.sampled_from(["identity", "identity", "add", "replace", "delete"]), max_size=2))
    depth = draw(st.sampled_from([0, 1, 1, 1, 2, 2, 3]))
    stack = [draw(st.sampled_from(["identity", "identity", "identity", "add", "replace", "delete"])) for _ in range(depth)]
    rq = {"method": draw(st.sampled_from(["GET", "GET", "POST"]))}
    if inner.get("response", {}).get("kind") == "file":
        rq["range"] = draw(st.sampled_from(gen.RANGE_HEADERS))
    return {"inner": inner, "stack": stack, "decorators": decorators, "request": rq}


def grid_cases():
    cookies = [["Set-Cookie", "a=1; Path=/"], ["Set-Cookie", "b=caf\xe9; HttpOnly"]]
    for n in range(0, 4):
        for returns in ("list", "tuple", "iter", "generator", "restart"):
            for nc in range(0, 3):
                for depth in (1, 2):
                    yield {
                        "inner": {"app": "raw", "status": "200 OK", "headers": [["Content-Type", "text/plain"]] + cookies[:nc],
                                  "chunks": [b"hello", b"world", b"!"][:n], "returns": returns, "raises": None},
                        "stack": ["identity"] * depth,
                        "decorators": [],
                        "request": {"method": "GET"},
                    }


def run(rec, only=None):
    quick = rec.tier == "quick"
    core.drive_cases(rec, "grid", grid_cases(), oracle)
    rec.exhaustive["grid"] = True
    core.drive_hypothesis(rec, "stacks", stack_case(), oracle, 1200 if quick else 25000)
    rec.exhaustive["stacks"] = False
