"""C15 - Multipart limits are exact and enforced with bounded buffering."""
from __future__ import annotations

from hypothesis import strategies as st

import baize.asgi as basgi
import baize.wsgi as bwsgi
from baize.datastructures import UploadFile
from baize.exceptions import HTTPException, RequestEntityTooLarge
from baize.multipart import Data, Epilogue, MultipartDecoder, NeedData
from baize.multipart_helper import parse_async_stream, parse_stream

from harness import core, gateways as gw, gen
from harness.core import Result
from harness.refs import multipart as ref

LEVEL = "exploration"
RULES = {
    "spool": "enumerated: uploads below / at / just above / far above UploadFile.spool_max_size x two chunk sizes x sync/async helper with the library's own "
    "file sink: above the spool size the upload must have left process memory, and the content reads back exactly; non-trivial = above the spool size",
    "limits": "Hypothesis: forms as in C01 (smaller) x max_form_parts in {n-1, n, n+1} x max_form_memory_size in {T-1, T, T+1, None} "
    "for the exact totals n (parts) and T (bytes of non-file content) x partitions {whole, bytewise, drawn cuts} x sync and async "
    "helper; 413 must be raised exactly when a limit is exceeded; non-trivial = a limit within +-1 of the exact total",
    "default": "the default limit of 324 parts through Request.form on both interfaces with 323/324/325 parts",
    "lag": "buffering: one part (file or field) whose content has an early lone CR or LF (or none, or CR...LF mirror cases) and then "
    "64 KiB - 2 MiB without another line break, fed in chunks of 1-64 KiB with boundary lengths 1-70: (a) sink lag of the sync and "
    "async helper, (b) bytes supplied before an over-limit field is rejected, (c) event-level fed-minus-emitted; bound = one chunk + "
    "len(CRLF--boundary) + 8; non-trivial = an early lone CR/LF is present",
}
ASSUMPTIONS = [
    "T counts the bytes of field (non-file) content as they appear on the wire",
    "the bound on retained bytes is what bounds the re-scan cost; no clock enters an oracle",
]


def drive(coro):
    try:
        coro.send(None)
    except StopIteration as e:
        return e.value
    raise core.HarnessError("coroutine suspended in a loop-less drive")


def totals(form):
    n = len(form["parts"])
    t = sum(len(p["content"]) for p in form["parts"] if p.get("filename") is None)
    return n, t


def run_helper(which, chunks, boundary, charset, **limits):
    """-> 'ok' | 413 | ('other', repr)"""
    try:
        if which == "sync":
            items = parse_stream(iter(chunks), boundary, charset, file_factory=UploadFile, **limits)
        else:

            async def stream():
                for c in chunks:
                    yield c

            items = drive(parse_async_stream(stream(), boundary, charset, file_factory=UploadFile, **limits))
        for _, v in items:
            if not isinstance(v, str):
                v.close()
        return "ok", len(items)
    except RequestEntityTooLarge as exc:
        return (413 if exc.status_code == 413 else ("other", repr(exc))), None
    except HTTPException as exc:
        return ("other", repr(exc)), None


def oracle_limits(case) -> Result:
    r = Result()
    form = case["form"]
    body = ref.encode(form)
    boundary = form["boundary"].encode("ascii")
    n, t = totals(form)
    runs = 0
    near = False
    parts_opts = [max(n - 1, 0), n, n + 1]
    mem_opts = [max(t - 1, 0), t, t + 1, None]
    partitions = [("whole", []), ("drawn", sorted(min(c, len(body)) for c in case["cuts"]))]
    if len(body) <= 400:
        partitions.append(("bytewise", list(range(1, len(body)))))
    for mp in parts_opts:
        for mm in mem_opts:
            want = 413 if (n > mp or (mm is not None and t > mm)) else "ok"
            if mp in (n - 1, n) or (mm is not None and mm in (t - 1, t)):
                near = True
            for label, cuts in partitions:
                chunks = ref.chunks_from_cuts(body, cuts)
                for which in ("sync", "async"):
                    runs += 1
                    got, count = run_helper(which, chunks, boundary, form["charset"], max_form_parts=mp, max_form_memory_size=mm)
                    if got != want:
                        edge = "parts" if (n > mp) != (got == 413) and not (mm is not None and t > mm) else "memory"
                        r.fail(
                            f"C15:limits:{which}:{edge}:expected-{want}-got-{got if not isinstance(got, tuple) else 'other'}",
                            f"n={n} parts, T={t} field bytes, max_form_parts={mp}, max_form_memory_size={mm}, partition {label} {cuts[:10]!r}: "
                            f"{which} helper -> {got!r}, expected {want!r}; body {body[:300]!r}",
                        )
                    elif got == "ok" and count != n:
                        r.fail(f"C15:limits:{which}:item-count", f"{count} items for {n} parts")
            if len(r.failures) >= 3:
                break
    r.weight = runs
    r.nontrivial = near
    r.label(f"parts={min(n, 6)}", "has-field" if t else "no-field-bytes")
    return r


def big_form(nparts):
    parts = [{"name": f"f{i}", "filename": None if i % 3 else "u.bin", "headers": [], "content": b"v%d" % i} for i in range(nparts)]
    return {"boundary": "BoUnD", "charset": "utf-8", "preamble": None, "epilogue": None, "padding": b"", "parts": parts}


def oracle_default(case) -> Result:
    r = Result()
    nparts = case["parts"]
    form = big_form(nparts)
    body = ref.encode(form)
    want = 413 if nparts > 324 else "ok"
    chunks = ref.chunks_from_cuts(body, list(range(case["chunk"], len(body), case["chunk"])))
    rq = gw.areq(method="POST", headers=[["Content-Type", 'multipart/form-data; boundary="BoUnD"']], body=chunks)
    for side in ("wsgi", "asgi"):
        try:
            if side == "wsgi":
                items = bwsgi.Request(gw.make_environ(rq)).form.multi_items()
            else:

                async def go():
                    script = [{"type": "http.request", "body": c, "more_body": i < len(chunks) - 1} for i, c in enumerate(chunks)]
                    it = iter(script)

                    async def receive():
                        return dict(next(it))

                    return (await basgi.Request(gw.make_scope(rq), receive).form).multi_items()

                items = gw.run_sync(go())
            got = "ok"
            if len(items) != nparts:
                r.fail(f"C15:default:{side}:item-count", f"{len(items)} items for {nparts} parts")
        except HTTPException as exc:
            got = exc.status_code
        if got != want:
            r.fail(f"C15:default:{side}:expected-{want}-got-{got}", f"{nparts} parts through {side} Request.form with the default limit (324): {got!r}")
    r.nontrivial = abs(nparts - 324) <= 1
    r.label(f"parts={nparts}")
    return r


# ------------------------------------------------------------------------------------------
# buffering


def lag_body(case):
    boundary = case["boundary"]
    fill = case["fill"]
    lead = case["lead"]  # bytes at the start of the content, e.g. b"\r", b"\n", b"ab\rcd", b""
    # "@B" stands for the boundary text: lines that merely start like a delimiter (a nested
    # multipart whose boundary extends the outer one) are ordinary content
    lead = lead.replace(b"@B", boundary.encode("ascii"))
    content = lead + (b"A" * fill) + case.get("trail", b"")
    part = {"name": "big", "filename": "big.bin" if case["kind"] == "file" else None, "headers": [], "content": content}
    form = {"boundary": boundary, "charset": "utf-8", "preamble": None, "epilogue": None, "padding": b"", "parts": [part]}
    body = ref.encode(form)
    hb = ref.part_header_block(part, "utf-8")
    cstart = body.index(hb) + len(hb)
    return form, body, cstart, cstart + len(content), content


class Sink:
    written = 0
    chunks = None

    def __init__(self, filename, headers):
        Sink.written = 0
        Sink.chunks = []

    def write(self, data):
        Sink.written += len(data)
        Sink.chunks.append(bytes(data))

    async def awrite(self, data):
        self.write(data)

    def seek(self, offset):
        pass

    async def aseek(self, offset):
        pass

    def close(self):
        pass


def oracle_lag(case) -> Result:
    r = Result()
    form, body, cstart, cend, content = lag_body(case)
    boundary = form["boundary"].encode("ascii")
    chunk = case["chunk"]
    bound = chunk + len(b"\r\n--" + boundary) + 8
    ctx = f"kind={case['kind']} lead={case['lead']!r} fill={case['fill']} chunk={chunk} boundary-len={len(boundary)}"
    pieces = [body[i:i + chunk] for i in range(0, len(body), chunk)]
    runs = 0

    if case["kind"] == "file":
        # (a) sink lag of both helpers: checked every time the helper asks for the next chunk
        for which in ("sync", "async"):
            runs += 1
            worst = [0]
            supplied = [0]

            def note():
                lag = max(0, min(supplied[0], cend) - cstart) - Sink.written
                worst[0] = max(worst[0], lag)

            if which == "sync":

                def stream():
                    for p in pieces:
                        note()
                        supplied[0] += len(p)
                        yield p
                    note()

                Sink.written = 0
                items = parse_stream(stream(), boundary, "utf-8", file_factory=Sink)
            else:

                async def astream():
                    for p in pieces:
                        note()
                        supplied[0] += len(p)
                        yield p
                    note()

                Sink.written = 0
                items = drive(parse_async_stream(astream(), boundary, "utf-8", file_factory=Sink))
            if b"".join(Sink.chunks) != content or len(items) != 1:
                r.fail(f"C15:lag:{which}:content", f"{ctx}: sink received {Sink.written} bytes, content has {len(content)}")
            if worst[0] > bound:
                r.fail(f"C15:lag:{which}:sink-lag", f"{ctx}: up to {worst[0]} content bytes were received but not yet written to the file sink (bound {bound})")
    else:
        # (b) early rejection of an over-limit field
        limit = case["limit"]
        for which in ("sync", "async"):
            runs += 1
            supplied = [0]

            def gen_sync():
                for p in pieces:
                    supplied[0] += len(p)
                    yield p

            async def gen_async():
                for p in pieces:
                    supplied[0] += len(p)
                    yield p

            try:
                if which == "sync":
                    parse_stream(gen_sync(), boundary, "utf-8", file_factory=UploadFile, max_form_memory_size=limit)
                else:
                    drive(parse_async_stream(gen_async(), boundary, "utf-8", file_factory=UploadFile, max_form_memory_size=limit))
                got = "ok"
            except RequestEntityTooLarge:
                got = 413
            want = 413 if len(content) > limit else "ok"
            if got != want:
                r.fail(f"C15:lag:{which}:verdict", f"{ctx} limit={limit}: {got}, expected {want}")
            elif got == 413:
                used = max(0, min(supplied[0], cend) - cstart)
                allowed = limit + bound
                if used > allowed:
                    r.fail(
                        f"C15:lag:{which}:late-rejection",
                        f"{ctx} limit={limit}: the 413 came only after {used} content bytes had been supplied (allowed {allowed})",
                    )
    # (c) event level
    runs += 1
    dec = MultipartDecoder(boundary, "utf-8")
    fed = emitted = 0
    worst = 0
    done = False
    for p in pieces:
        dec.receive_data(p)
        fed += len(p)
        while True:
            ev = dec.next_event()
            if isinstance(ev, NeedData):
                break
            if isinstance(ev, Data):
                emitted += len(ev.data)
            if isinstance(ev, Epilogue):
                done = True
                break
        content_fed = max(0, min(fed, cend) - cstart)
        worst = max(worst, content_fed - emitted)
        if len(dec.buffer) > bound + chunk:
            r.fail("C15:lag:events:buffer", f"{ctx}: decoder buffer holds {len(dec.buffer)} bytes after draining (bound {bound})")
            break
    if not done:
        dec.receive_data(None)
    if worst > bound:
        r.fail("C15:lag:events:retained", f"{ctx}: {worst} content bytes fed but not emitted as Data after draining (bound {bound})")
    r.weight = runs
    r.nontrivial = b"\r" in case["lead"] or b"\n" in case["lead"]
    r.label(f"kind={case['kind']}", "early-newline" if r.nontrivial else "no-newline", f"lead={case['lead'][:4]!r}")
    return r


def oracle_spool(case) -> Result:
    """The library's own file sink: an upload larger than UploadFile.spool_max_size must not stay in
    process memory (the anchored mechanism 'memory up to the spool size, then disk'), one below it may;
    the content reads back exactly either way."""
    from harness import gateways as gw

    r = Result()
    limit = UploadFile.spool_max_size
    size = {"below": max(limit // 4, 1), "at": limit, "above": limit + 1, "far-above": 3 * limit + 17}[case["size"]]
    chunk = case["chunk"]
    boundary = b"BoUnD"
    head = b'--BoUnD\r\nContent-Disposition: form-data; name="f"; filename="big.bin"\r\nContent-Type: application/octet-stream\r\n\r\n'
    tail = b"\r\n--BoUnD--\r\n"
    unit = bytes(range(256)) * 16

    def chunks():
        yield head
        sent = 0
        while sent < size:
            n = min(chunk, size - sent)
            piece = (unit * (n // len(unit) + 1))[sent % len(unit):][:n]
            sent += n
            yield piece
        yield tail

    def expected_content():
        return b"".join(list(chunks())[1:-1])

    ctx = f"{case!r} (spool_max_size {limit}, upload {size} bytes)"
    try:
        if case["route"] == "sync":
            items = parse_stream(chunks(), boundary, "utf-8", file_factory=UploadFile)
        else:

            async def stream():
                for c in chunks():
                    yield c

            items = gw.run_sync(parse_async_stream(stream(), boundary, "utf-8", file_factory=UploadFile))
    except HTTPException as exc:
        r.fail(f"C15:spool:{case['route']}:raised", f"{ctx}: {exc!r}")
        return r
    if len(items) != 1 or isinstance(items[0][1], str):
        r.fail(f"C15:spool:{case['route']}:items", f"{ctx}: {[(k, type(v).__name__) for k, v in items]!r}")
        return r
    up = items[0][1]
    try:
        if size > limit and up.in_memory:
            r.fail(f"C15:spool:{case['route']}:large-upload-held-in-memory", f"{ctx}: after parsing, the upload is still an in-memory buffer")
        up.seek(0)
        data = up.read()
        if data != expected_content():
            r.fail(f"C15:spool:{case['route']}:content", f"{ctx}: read back {len(data)} bytes, differs from what was sent")
    finally:
        up.close()
    r.nontrivial = size > limit
    r.label(f"size={case['size']}", f"route={case['route']}", f"chunk={chunk}")
    return r


SUBS = {"spool": oracle_spool, "limits": oracle_limits, "default": oracle_default, "lag": oracle_lag, "lag_grid": oracle_lag}


def limits_case():
    return st.fixed_dictionaries({"form": gen.forms(max_parts=4, max_pieces=4), "cuts": gen.cut_lists(200)})


LEADS = [b"", b"\r", b"\n", b"\r\n", b"ab\rcd", b"ab\ncd", b"\rx\n", b"\nx\r", b"\r\r", b"\n\n", b"--", b"\r\n-", b"\r-", b"\n--",
         b"\r\n--@B-inner\r\n", b"\r\n--@BX", b"x\n--@B.1\n", b"\r\n--@B-", b"\r\n--@Bx--\r\n"]


def lag_grid():
    for kind in ("file", "field"):
        for lead in LEADS:
            for blen, b in ((1, "b"), (13, "BoundaryBound"), (70, "x" * 70)):
                for chunk in (1024, 4096, 65536):
                    case = {"kind": kind, "lead": lead, "fill": 200_000, "chunk": chunk, "boundary": b, "trail": b""}
                    if kind == "field":
                        case["limit"] = 1000
                    yield case
                _ = blen


@st.composite
def lag_case(draw):
    kind = draw(st.sampled_from(["file", "field"]))
    lead = draw(st.one_of(st.sampled_from(LEADS), st.binary(max_size=12)))
    boundary = draw(gen.boundaries())
    if b"@B" not in lead:
        while ("--" + boundary).encode("latin-1") in lead:
            lead = lead.replace(b"-", b"")
    case = {
        "kind": kind,
        "lead": lead,
        "fill": draw(st.sampled_from([65536, 100_000, 300_000, 1_000_000])),
        "chunk": draw(st.sampled_from([1000, 1024, 4096, 8192, 16384, 65536, 7919])),
        "boundary": boundary,
        "trail": draw(st.sampled_from([b"", b"\r", b"\n", b"\r\n", b"-"])),
    }
    if kind == "field":
        case["limit"] = draw(st.sampled_from([0, 1, 1000, 65536, 2_000_000]))
    return case


def run(rec, only=None):
    quick = rec.tier == "quick"
    core.drive_cases(rec, "default", [{"parts": n, "chunk": c} for n in (323, 324, 325, 326) for c in (97, 4096)], oracle_default)
    rec.exhaustive["default"] = True
    core.drive_cases(rec, "spool", [{"size": z, "chunk": c, "route": w} for z in ("below", "at", "above", "far-above") for c in (65536, 1 << 20) for w in ("sync", "async")], oracle_spool)
    rec.exhaustive["spool"] = True
    grid = list(lag_grid())
    core.drive_cases(rec, "lag_grid", grid[::3] if quick else grid, oracle_lag)
    rec.exhaustive["lag_grid"] = not quick
    core.drive_hypothesis(rec, "limits", limits_case(), oracle_limits, 150 if quick else 4000)
    core.drive_hypothesis(rec, "lag", lag_case(), oracle_lag, 40 if quick else 1500, seed_offset=1)
    rec.exhaustive["limits"] = rec.exhaustive["lag"] = False
