"""C15 - Multipart limits are exact and enforced with bounded buffering."""
from __future__ import annotations

import re

from hypothesis import strategies as st

import baize.asgi as basgi
import baize.wsgi as bwsgi
from baize.datastructures import UploadFile
from baize.exceptions import HTTPException
from baize.multipart import Data, Epilogue, MultipartDecoder, NeedData
from baize.multipart_helper import parse_async_stream, parse_stream

from harness import core, gateways as gw, gen
from harness.core import Result
from harness.refs import multipart as ref

LEVEL = "exploration"
RULES = {
    "spool": "enumerated: uploads below / at / just above / far above UploadFile.spool_max_size x two chunk sizes x sync/async helper with the library's own "
    "file sink: above the spool size the upload must have left process memory (judged on the spooled file itself, not only on the in_memory accessor), "
    "and the content reads back exactly; non-trivial = above the spool size",
    "limits": "Hypothesis: forms as in C01 (smaller) x max_form_parts in {n-1, n, n+1} x max_form_memory_size in {T-1, T, T+1, None} "
    "for the exact totals n (parts) and T (bytes of non-file content) x partitions {whole, bytewise, drawn cuts} x sync and async "
    "helper; 413 must be raised exactly when a limit is exceeded; non-trivial = a limit within +-1 of the exact total",
    "exact": "enumerated: fixed forms that the small random forms rarely reach (multi-byte text in utf-8 and gbk in first / middle / last fields, "
    "fields of 50-70 KB spanning many chunks next to 100 KB files, 60 parts with repeated names, files only, fields only) x the same "
    "3 x 4 limit settings x {whole, 1000, 4096, 7919, 65536}-byte chunks x sync/async helper; non-trivial = always (limits sit on the exact totals)",
    "default": "the default limit of 324 parts through Request.form on both interfaces and through both helpers called without limit arguments, with 323/324/325/326 parts",
    "nolimit": "enumerated: no memory limit is configured by default - forms whose field data totals 0.6 / 1.1 / 2.4 / 24 MB through both helpers "
    "(64 MB in the thorough tier) called without limit arguments and through Request.form on both interfaces must parse (every value complete); non-trivial = always",
    "lag": "buffering: one part (file or field) whose content has an early lone CR or LF (or none, or CR...LF mirror cases) and then "
    "64 KiB - 2 MiB without another line break, fed in chunks of 1-64 KiB with boundary lengths 1-70: (a) sink lag of the sync and "
    "async helper, (b) bytes supplied before an over-limit field is rejected, (c) event-level fed-minus-emitted; bound = one chunk + "
    "len(CRLF--boundary) + 8; non-trivial = an early lone CR/LF is present.  Drawn cases also vary the filler (dashes, blanks, CR, LF, CRLF, "
    "proper delimiter prefixes, text lines), put small fields / files before and after the large part, and use chunks of 1-100 bytes",
    "lag_small": "enumerated: the same three buffering measurements with chunks of 1, 5, 16 and 100 bytes (3 KB parts): the bound is relative to "
    "the chunk size, so anything that batches or retains a fixed amount (tens to hundreds of bytes) shows only here",
    "lag_fill": "enumerated: the large part is filled with '-', ' ', TAB, LF, CR, CRLF, CRLF-, CRLF--, text lines instead of one letter (after "
    "no / CR / LF / letter lead): hold-back rules keyed on what the buffer currently ends with",
    "lag_padded": "enumerated, known finding: look-alike lead (CRLF / LF / CR / text+CRLF, '--boundary', optionally '-' or a first blank) followed by "
    "2 000 - 200 000 blanks, tabs or both and then a letter, as file part and as over-limit field, sync / async / event level, chunks of 16 - 65536 "
    "bytes: sink lag, late 413 and event-level retention are reported under C15:known:padded-lookalike:{sink-lag,late-413,buffer}; content, item "
    "count and limit verdict are judged as everywhere else",
    "lag_multi": "enumerated: the large part is not alone: fields and files before and after it; sink lag is summed over all file parts and "
    "the rejection point of an over-limit form is judged on all field bytes supplied so far (a field that nearly fills the limit, then the large field)",
    "formlag": "enumerated: sink lag through Request.form on both interfaces (an instance-registering subclass of UploadFile is put in the place "
    "of the name the request module looks up; what has reached the spooled file is read with tell() whenever the server model is asked "
    "for the next piece of the body): 300 KB / 1.5 MB uploads in pieces of 1000 / 8192 / 65536 bytes; the chunk of the bound is the larger of the piece and the read size the request object asks for (64 KiB); non-trivial = always",
}
ASSUMPTIONS = [
    "T counts the bytes of field (non-file) content as they appear on the wire",
    "the bound on retained bytes is what bounds the re-scan cost; no clock enters an oracle",
    "known finding (KNOWN_FINDINGS.txt, keys C15:known:padded-lookalike:*): a content line 'line break--boundary' (optionally one more '-') "
    "that goes on with blanks / tabs only is an unfinished delimiter with transport padding of unbounded length and is held back whole; the class "
    "is generated (lag_padded, lag) and recognised on the INPUT (look-alike lead and a filler of SP/HTAB only); only its three buffering "
    "measurements carry the known keys, every other clause keeps its ordinary bucket.  'line break--boundary--' is a complete close "
    "delimiter whatever follows and therefore never part content",
]


def drive(coro):
    try:
        coro.send(None)
    except StopIteration as e:
        return e.value
    raise core.HarnessError("coroutine suspended in a loop-less drive")


def totals(form):
    n = len(form["parts"])
    t = sum(len(p["content"]) for p in form["parts"] if p.get("filename") is None)
    return n, t


def run_helper(which, chunks, boundary, charset, **limits):
    """-> 'ok' | 413 | ('other', repr)"""
    try:
        if which == "sync":
            items = parse_stream(iter(chunks), boundary, charset, file_factory=UploadFile, **limits)
        else:

            async def stream():
                for c in chunks:
                    yield c

            items = drive(parse_async_stream(stream(), boundary, charset, file_factory=UploadFile, **limits))
        for _, v in items:
            if not isinstance(v, str):
                v.close()
        return "ok", len(items)
    except HTTPException as exc:  # the statement asks for "413", whatever class carries it
        return (413 if exc.status_code == 413 else ("other", repr(exc))), None


def judge_limits(r: Result, form, body, partitions, show=300) -> int:
    """413 <=> n > max_form_parts or T > max_form_memory_size, for both helpers under every given partition."""
    boundary = form["boundary"].encode("ascii")
    n, t = totals(form)
    runs = 0
    near = False
    parts_opts = [max(n - 1, 0), n, n + 1]
    mem_opts = [max(t - 1, 0), t, t + 1, None]
    for mp in parts_opts:
        for mm in mem_opts:
            want = 413 if (n > mp or (mm is not None and t > mm)) else "ok"
            if mp in (n - 1, n) or (mm is not None and mm in (t - 1, t)):
                near = True
            for label, cuts in partitions:
                chunks = ref.chunks_from_cuts(body, cuts)
                for which in ("sync", "async"):
                    runs += 1
                    got, count = run_helper(which, chunks, boundary, form["charset"], max_form_parts=mp, max_form_memory_size=mm)
                    if got != want:
                        edge = "parts" if (n > mp) != (got == 413) and not (mm is not None and t > mm) else "memory"
                        r.fail(
                            f"C15:limits:{which}:{edge}:expected-{want}-got-{got if not isinstance(got, tuple) else 'other'}",
                            f"n={n} parts, T={t} field bytes, max_form_parts={mp}, max_form_memory_size={mm}, partition {label} {cuts[:10]!r}: "
                            f"{which} helper -> {got!r}, expected {want!r}; body {body[:show]!r}",
                        )
                    elif got == "ok" and count != n:
                        r.fail(f"C15:limits:{which}:item-count", f"{count} items for {n} parts")
            if len(r.failures) >= 3:
                break
    r.weight = runs
    r.nontrivial = near
    return runs


def oracle_limits(case) -> Result:
    r = Result()
    form = case["form"]
    body = ref.encode(form)
    n, t = totals(form)
    partitions = [("whole", []), ("drawn", sorted(min(c, len(body)) for c in case["cuts"]))]
    if len(body) <= 400:
        partitions.append(("bytewise", list(range(1, len(body)))))
    judge_limits(r, form, body, partitions)
    r.label(f"parts={min(n, 6)}", "has-field" if t else "no-field-bytes")
    return r


# ------------------------------------------------------------------------------------------
# exact limits on forms that the small random forms rarely reach


def _p(name, content, filename=None, headers=()):
    return {"name": name, "filename": filename, "headers": [list(h) for h in headers], "content": content}


def exact_form(spec):
    """Fixed forms, named so that a case stays a few bytes of JSON."""
    f = {"boundary": "BoUnD", "charset": "utf-8", "preamble": None, "epilogue": None, "padding": b"", "parts": []}
    if spec == "mb-utf8-first":  # multi-byte text in the first of several fields
        f["parts"] = [_p("a", "é中文ü".encode("utf-8") * 3), _p("u", b"\x00\xff" * 9, "u.bin"), _p("b", b"plain"), _p("c", b"x")]
    elif spec == "mb-utf8-last":
        f["parts"] = [_p("a", b"plain"), _p("u", b"bin", "u.bin"), _p("b", "añb".encode("utf-8")), _p("c", "日本語テキスト".encode("utf-8"))]
    elif spec == "mb-utf8-every":
        f["parts"] = [_p("k", ("é%d" % i).encode("utf-8")) for i in range(12)]
    elif spec == "mb-gbk":
        f["charset"] = "gbk"
        f["parts"] = [_p("a", "中文字段".encode("gbk")), _p("b", b"ascii"), _p("u", "文件".encode("gbk"), "u.txt"), _p("c", "尾".encode("gbk"))]
    elif spec == "mb-latin1":
        f["charset"] = "latin-1"
        f["parts"] = [_p("a", b"\xe9\xff\xa0"), _p("b", b"\xfc")]
    elif spec == "big-fields":  # fields far longer than a chunk, a file in between
        f["boundary"] = "----WebKitFormBoundary7MA4YWxkTrZu0gW"
        big1 = b"x" * 50_000
        big2 = (b"line of text\r\n" * 3000 + b"\r\n------WebKitFormBoundary7MA4YWxkTrZu0g\r\n" + b"y" * 28_000)[:70_001]
        f["parts"] = [_p("first", big1), _p("up", bytes(range(256)) * 400, "up.bin", [("Content-Type", "application/octet-stream")]), _p("second", big2), _p("t", b"")]
    elif spec == "big-file-last":  # usual upload layout: text inputs first, the upload last
        f["parts"] = [_p("title", b"t" * 300), _p("note", b"n\r\n" * 2000), _p("up", b"\r" + b"Z" * 120_000, "z.bin")]
    elif spec == "many-dup-names":  # 60 parts, three names only
        f["parts"] = [_p("abc"[i % 3], b"v%d" % i, None if i % 4 else "f%d.bin" % i) for i in range(60)]
    elif spec == "files-only":
        f["parts"] = [_p("f", b"data%d" % i, "f%d" % i) for i in range(5)]
    elif spec == "fields-only-empty":  # T = 0 with several parts
        f["parts"] = [_p("e%d" % i, b"") for i in range(4)]
    else:
        raise core.HarnessError(f"unknown form spec {spec!r}")
    return f


EXACT_SPECS = ["mb-utf8-first", "mb-utf8-last", "mb-utf8-every", "mb-gbk", "mb-latin1", "big-fields", "big-file-last", "many-dup-names", "files-only",
               "fields-only-empty"]


def oracle_exact(case) -> Result:
    r = Result()
    form = exact_form(case["spec"])
    body = ref.encode(form)
    partitions = []
    for c in case["chunks"]:
        partitions.append(("whole", []) if c == 0 else (f"every-{c}", list(range(c, len(body), c))))
    judge_limits(r, form, body, partitions, show=160)
    r.nontrivial = True
    r.label(f"spec={case['spec']}")
    return r


def big_form(nparts):
    parts = [{"name": f"f{i}", "filename": None if i % 3 else "u.bin", "headers": [], "content": b"v%d" % i} for i in range(nparts)]
    return {"boundary": "BoUnD", "charset": "utf-8", "preamble": None, "epilogue": None, "padding": b"", "parts": parts}


def request_form_items(side, chunks, boundary="BoUnD"):
    """multi_items() of Request.form on one interface, or the HTTPException it raises."""
    rq = gw.areq(method="POST", headers=[["Content-Type", f'multipart/form-data; boundary="{boundary}"']], body=chunks)
    if side == "wsgi":
        return bwsgi.Request(gw.make_environ(rq)).form.multi_items()

    async def go():
        script = [{"type": "http.request", "body": c, "more_body": i < len(chunks) - 1} for i, c in enumerate(chunks)]
        it = iter(script)

        async def receive():
            return dict(next(it))

        return (await basgi.Request(gw.make_scope(rq), receive).form).multi_items()

    return gw.run_sync(go())


def oracle_default(case) -> Result:
    r = Result()
    nparts = case["parts"]
    form = big_form(nparts)
    body = ref.encode(form)
    want = 413 if nparts > 324 else "ok"
    chunks = ref.chunks_from_cuts(body, list(range(case["chunk"], len(body), case["chunk"])))
    for side in ("wsgi", "asgi", "sync-helper", "async-helper"):
        try:
            if side == "sync-helper":  # the helpers' own default, no limit argument
                items = parse_stream(iter(chunks), b"BoUnD", "utf-8", file_factory=UploadFile)
            elif side == "async-helper":

                async def stream():
                    for ch in chunks:
                        yield ch

                items = drive(parse_async_stream(stream(), b"BoUnD", "utf-8", file_factory=UploadFile))
            else:
                items = request_form_items(side, chunks)
            got = "ok"
            if len(items) != nparts:
                r.fail(f"C15:default:{side}:item-count", f"{len(items)} items for {nparts} parts")
        except HTTPException as exc:
            got = exc.status_code
        if got != want:
            r.fail(f"C15:default:{side}:expected-{want}-got-{got}", f"{nparts} parts through {side} ({'Request.form' if side in ('wsgi', 'asgi') else 'called without limit arguments'}) with the default limit (324): {got!r}")
    r.nontrivial = abs(nparts - 324) <= 1
    r.label(f"parts={nparts}")
    return r


def oracle_nolimit(case) -> Result:
    """Nothing configures a memory limit unless the caller does: field data of any size parses, through the
    helpers called without limit arguments and through both Request.form."""
    r = Result()
    sizes = case["sizes"]
    parts = [_p(f"t{i}", bytes([97 + i % 26]) * s) for i, s in enumerate(sizes)]
    parts.insert(1, _p("up", b"u" * 1000, "u.bin"))
    form = {"boundary": "BoUnD", "charset": "utf-8", "preamble": None, "epilogue": None, "padding": b"", "parts": parts}
    body = ref.encode(form)
    c = case["chunk"]
    chunks = [body[i:i + c] for i in range(0, len(body), c)]
    ctx = f"field data {sizes!r} = {sum(sizes)} bytes, no limit configured, chunks of {c}"
    for route in ("sync", "async", "wsgi", "asgi"):
        try:
            if route == "sync":
                items = parse_stream(iter(chunks), b"BoUnD", "utf-8", file_factory=UploadFile)
            elif route == "async":

                async def stream():
                    for ch in chunks:
                        yield ch

                items = drive(parse_async_stream(stream(), b"BoUnD", "utf-8", file_factory=UploadFile))
            else:
                items = request_form_items(route, chunks)
        except HTTPException as exc:
            r.fail(f"C15:nolimit:{route}:raised-{exc.status_code}", f"{ctx}: {route} -> {exc!r}")
            continue
        got = [len(v) if isinstance(v, str) else None for _, v in items]
        for _, v in items:
            if not isinstance(v, str):
                v.close()
        want = [len(p["content"]) if p["filename"] is None else None for p in parts]
        if got != want:
            r.fail(f"C15:nolimit:{route}:items", f"{ctx}: {route} value lengths {got!r}, expected {want!r}")
    r.weight = 4
    r.nontrivial = True
    r.label(f"total={sum(sizes)}")
    return r


# ------------------------------------------------------------------------------------------
# buffering


_PADDED_LEAD = re.compile(rb"(?:\r\n|\r|\n)--@B-?[ \t]*\Z")


def blank_only(pat: bytes) -> bool:
    return bool(pat) and all(b in b" \t" for b in pat)


def padded_lookalike(case) -> bool:
    """The input class of the known finding, decided on the INPUT alone: the lead ends in a delimiter look-alike
    ('line break--boundary', optionally one '-', optionally first blanks) and the filler is SP / HTAB only - an
    unfinished delimiter with transport padding of unbounded length."""
    return case["fill"] > 0 and blank_only(case.get("fillpat") or b"A") and _PADDED_LEAD.search(case["lead"]) is not None


def lag_content(case, boundary: bytes) -> bytes:
    lead = case["lead"]  # bytes at the start of the content, e.g. b"\r", b"\n", b"ab\rcd", b""
    # "@B" stands for the boundary text: lines that merely start like a delimiter (a nested
    # multipart whose boundary extends the outer one) are ordinary content
    lookalike = b"@B" in lead
    padded = padded_lookalike(case)
    lead = lead.replace(b"@B", boundary)
    pat = case.get("fillpat") or b"A"
    needle = b"--" + boundary
    # behind a look-alike lead only letters or blanks/tabs may follow: dashes would complete a close delimiter, a line
    # break a delimiter.  Blanks/tabs directly behind 'line break--boundary[-]' are the known finding (padded_lookalike).
    if lookalike and not blank_only(pat):
        pat = b"A"
    fill = case["fill"]
    body = (pat * (fill // len(pat) + 1))[:fill]
    if padded:
        body += b"x"  # the padding must not run into a line break (that would be a real delimiter): a letter ends it
    content = lead + body + case.get("trail", b"")
    if not lookalike and needle in content:  # the filler completed the boundary text (all-dash boundaries): not a legal content
        content = lead + b"A" * fill + case.get("trail", b"")
    return content


def _small(kind, i, size, where):
    if kind == "field":
        return _p(f"{where}{i}", bytes([112 + i % 8]) * size)
    return _p(f"{where}{i}", bytes([80 + i % 8]) * size, f"{where}{i}.bin")


def lag_body(case):
    """-> form, body, (start, end) of the large part's content, its content, content spans of all file parts,
    content spans of all field parts"""
    boundary = case["boundary"]
    content = lag_content(case, boundary.encode("ascii"))
    part = {"name": "big", "filename": "big.bin" if case["kind"] == "file" else None, "headers": [], "content": content}
    pre = [_small(k, i, s, "p") for i, (k, s) in enumerate(case.get("pre") or [])]
    post = [_small(k, i, s, "s") for i, (k, s) in enumerate(case.get("post") or [])]
    form = {"boundary": boundary, "charset": "utf-8", "preamble": None, "epilogue": None, "padding": b"", "parts": pre + [part] + post}
    body = ref.encode(form)
    spans = []
    at = 0
    for p in form["parts"]:
        hb = ref.part_header_block(p, "utf-8")
        at = body.index(hb, at) + len(hb)
        spans.append((at, at + len(p["content"])))
        at += len(p["content"])
        if body[spans[-1][0]:spans[-1][1]] != p["content"]:
            raise core.HarnessError("lag_body: content span mismatch")
    big = spans[len(pre)]
    file_spans = [s for s, p in zip(spans, form["parts"]) if p["filename"] is not None]
    field_spans = [s for s, p in zip(spans, form["parts"]) if p["filename"] is None]
    return form, body, big, content, file_spans, field_spans


def covered(spans, upto):
    return sum(max(0, min(upto, e) - s) for s, e in spans)


class Sink:
    totals: dict = {}
    chunks: dict = {}

    @classmethod
    def reset(cls):
        cls.totals = {}
        cls.chunks = {}

    @classmethod
    def written(cls):
        return sum(cls.totals.values())

    def __init__(self, filename, headers):
        self.name = filename
        Sink.totals[filename] = 0
        Sink.chunks[filename] = []

    def __len__(self):
        # a sink may well know its size: an empty one is falsy, and still a file
        return Sink.totals[self.name]

    def write(self, data):
        Sink.totals[self.name] += len(data)
        Sink.chunks[self.name].append(bytes(data))

    async def awrite(self, data):
        self.write(data)

    def seek(self, offset):
        pass

    async def aseek(self, offset):
        pass

    def close(self):
        pass


def lag_ctx(case, boundary):
    extra = ""
    if case.get("fillpat") not in (None, b"A"):
        extra += f" filler={case['fillpat']!r}"
    if case.get("pre"):
        extra += f" before={case['pre']!r}"
    if case.get("post"):
        extra += f" after={case['post']!r}"
    return f"kind={case['kind']} lead={case['lead']!r} fill={case['fill']} chunk={case['chunk']} boundary-len={len(boundary)}{extra}"


def oracle_lag(case) -> Result:
    r = Result()
    form, body, (cstart, cend), content, file_spans, field_spans = lag_body(case)
    boundary = form["boundary"].encode("ascii")
    chunk = case["chunk"]
    bound = chunk + len(b"\r\n--" + boundary) + 8
    ctx = lag_ctx(case, boundary)
    pieces = [body[i:i + chunk] for i in range(0, len(body), chunk)]
    nparts = len(form["parts"])
    runs = 0
    known = padded_lookalike(case)  # input class of the known finding; only the three buffering measurements change their key

    def key(ordinary, finding):
        return f"C15:known:padded-lookalike:{finding}" if known else ordinary

    if case["kind"] == "file":
        # (a) sink lag of both helpers: checked every time the helper asks for the next chunk; summed over
        # all file parts (everything of an earlier file part has been written by then)
        for which in ("sync", "async"):
            runs += 1
            worst = [0]
            supplied = [0]

            def note():
                lag = covered(file_spans, supplied[0]) - Sink.written()
                worst[0] = max(worst[0], lag)

            Sink.reset()
            if which == "sync":

                def stream():
                    for p in pieces:
                        note()
                        supplied[0] += len(p)
                        yield p
                    note()

                items = parse_stream(stream(), boundary, "utf-8", file_factory=Sink)
            else:

                async def astream():
                    for p in pieces:
                        note()
                        supplied[0] += len(p)
                        yield p
                    note()

                items = drive(parse_async_stream(astream(), boundary, "utf-8", file_factory=Sink))
            if b"".join(Sink.chunks.get("big.bin", [])) != content or len(items) != nparts:
                r.fail(f"C15:lag:{which}:content", f"{ctx}: sink received {Sink.totals.get('big.bin')} bytes, content has {len(content)}; {len(items)} items for {nparts} parts")
            if worst[0] > bound:
                r.fail(key(f"C15:lag:{which}:sink-lag", "sink-lag"), f"{ctx}: up to {worst[0]} content bytes were received but not yet written to the file sink (bound {bound})")
    else:
        # (b) early rejection of an over-limit form: judged on all field bytes supplied so far
        limit = case["limit"]
        total = covered(field_spans, len(body))
        for which in ("sync", "async"):
            runs += 1
            supplied = [0]

            def gen_sync():
                for p in pieces:
                    supplied[0] += len(p)
                    yield p

            async def gen_async():
                for p in pieces:
                    supplied[0] += len(p)
                    yield p

            try:
                if which == "sync":
                    parse_stream(gen_sync(), boundary, "utf-8", file_factory=UploadFile, max_form_memory_size=limit)
                else:
                    drive(parse_async_stream(gen_async(), boundary, "utf-8", file_factory=UploadFile, max_form_memory_size=limit))
                got = "ok"
            except HTTPException as exc:
                got = exc.status_code
            want = 413 if total > limit else "ok"
            if got != want:
                r.fail(f"C15:lag:{which}:verdict", f"{ctx} limit={limit}: {got}, expected {want}")
            elif got == 413:
                used = covered(field_spans, supplied[0])
                allowed = limit + bound
                if used > allowed:
                    r.fail(
                        key(f"C15:lag:{which}:late-rejection", "late-413"),
                        f"{ctx} limit={limit}: the 413 came only after {used} field bytes had been supplied (allowed {allowed})",
                    )
    # (c) event level
    runs += 1
    dec = MultipartDecoder(boundary, "utf-8")
    fed = emitted = 0
    worst = 0
    done = False
    all_spans = file_spans + field_spans
    for p in pieces:
        dec.receive_data(p)
        fed += len(p)
        while True:
            ev = dec.next_event()
            if isinstance(ev, NeedData):
                break
            if isinstance(ev, Data):
                emitted += len(ev.data)
            if isinstance(ev, Epilogue):
                done = True
                break
        worst = max(worst, covered(all_spans, fed) - emitted)
        # inside the large part's content the buffer can hold nothing but content (before that, an unfinished
        # header block of any length may legitimately sit there)
        if cstart + bound < fed <= cend and len(dec.buffer) > bound + chunk:
            r.fail(key("C15:lag:events:buffer", "buffer"), f"{ctx}: decoder buffer holds {len(dec.buffer)} bytes after draining (bound {bound})")
            break
    if not done:
        dec.receive_data(None)
    if worst > bound:
        r.fail(key("C15:lag:events:retained", "buffer"), f"{ctx}: {worst} content bytes fed but not emitted as Data after draining (bound {bound})")
    r.weight = runs
    r.nontrivial = b"\r" in case["lead"] or b"\n" in case["lead"]
    r.label(f"kind={case['kind']}", "early-newline" if r.nontrivial else "no-newline", f"lead={case['lead'][:4]!r}",
            f"filler={(case.get('fillpat') or b'A')[:4]!r}", "alone" if nparts == 1 else "with-other-parts",
            "chunk<=100" if chunk <= 100 else "chunk>=1000", "padded-lookalike" if known else "ordinary-input")
    return r


# ------------------------------------------------------------------------------------------
# buffering through Request.form


class _Registering(UploadFile):
    """The library's own sink; it only remembers its instances, so that what has reached the spooled file
    can be read from outside while the form is being parsed."""

    __slots__ = ()
    instances: list = []

    def __init__(self, filename, headers):
        super().__init__(filename, headers)
        _Registering.instances.append(self)


class _NotInstrumentable(Exception):
    pass


def _reached_files():
    total = 0
    for up in _Registering.instances:
        inner = getattr(up, "file", None)
        if inner is None or not hasattr(inner, "tell"):
            raise _NotInstrumentable()
        pos = inner.tell()  # the helper rewinds a completed upload, so the position says nothing: look at the size
        inner.seek(0, 2)
        total += inner.tell()
        inner.seek(pos)
    return total


class NotingInput:
    """wsgi.input model that calls note() whenever the application asks for more."""

    def __init__(self, pieces, note):
        self.pieces = list(pieces)
        self.note = note
        self.supplied = 0
        self.largest_request = 0

    def read(self, size=-1):
        self.note()
        if size is not None and size > 0:
            self.largest_request = max(self.largest_request, size)
        if not self.pieces:
            return b""
        head = self.pieces[0]
        if size is None or size < 0 or size >= len(head):
            self.pieces.pop(0)
        else:
            self.pieces[0] = head[size:]
            head = head[:size]
        self.supplied += len(head)
        return head


def oracle_formlag(case) -> Result:
    import importlib

    r = Result()
    side = case["side"]
    lcase = {"kind": "file", "lead": case["lead"], "fill": case["fill"], "chunk": case["chunk"], "boundary": case["boundary"], "trail": b"",
             "pre": case.get("pre") or []}
    form, body, (cstart, cend), content, file_spans, field_spans = lag_body(lcase)
    boundary = form["boundary"].encode("ascii")
    chunk = case["chunk"]
    ctx = f"{side} Request.form, " + lag_ctx(lcase, boundary)
    pieces = [body[i:i + chunk] for i in range(0, len(body), chunk)]
    mod = importlib.import_module(f"baize.{side}.requests")
    r.nontrivial = True
    r.label(f"side={side}", f"chunk={chunk}")
    if getattr(mod, "UploadFile", None) is not UploadFile:
        r.label("not-instrumentable")  # the request module no longer looks the sink up under this name: nothing to judge here
        return r
    rq = gw.areq(method="POST", headers=[["Content-Type", f'multipart/form-data; boundary="{form["boundary"]}"']], body=[])
    worst = [0]
    del _Registering.instances[:]
    mod.UploadFile = _Registering
    try:
        if side == "wsgi":
            env = gw.make_environ(rq)
            inp = NotingInput(pieces, lambda: worst.__setitem__(0, max(worst[0], covered(file_spans, inp.supplied) - _reached_files())))
            env["wsgi.input"] = inp
            items = bwsgi.Request(env).form.multi_items()
            # the request object may regroup what the server delivers into reads of the size it asks for: that is its chunk
            regroup = inp.largest_request
        else:
            supplied = [0]
            regroup = 65536  # tolerated on this side as well (today every message is passed on as it is)

            async def go():
                it = iter(enumerate(pieces))

                async def receive():
                    worst[0] = max(worst[0], covered(file_spans, supplied[0]) - _reached_files())
                    i, p = next(it)
                    supplied[0] += len(p)
                    return {"type": "http.request", "body": p, "more_body": i < len(pieces) - 1}

                return (await basgi.Request(gw.make_scope(rq), receive).form).multi_items()

            items = gw.run_sync(go())
    except _NotInstrumentable:  # the sink no longer keeps its data in a file object called `file`
        r.label("not-instrumentable")
        return r
    finally:
        mod.UploadFile = UploadFile
    ups = []
    bound = max(chunk, regroup) + len(b"\r\n--" + boundary) + 8
    try:
        ups = [v for _, v in items if not isinstance(v, str)]
        big = [v for k, v in items if k == "big"]
        if len(items) != len(form["parts"]) or len(big) != 1 or isinstance(big[0], str):
            r.fail(f"C15:formlag:{side}:items", f"{ctx}: {[(k, type(v).__name__) for k, v in items]!r}")
        else:
            big[0].seek(0)
            if big[0].read() != content:
                r.fail(f"C15:formlag:{side}:content", f"{ctx}: the upload read back differs from what was sent")
        if worst[0] > bound:
            r.fail(f"C15:formlag:{side}:sink-lag",
                   f"{ctx}: up to {worst[0]} bytes of file content had been delivered by the server but had not reached the upload file when the next piece was asked for (bound {bound})")
    finally:
        for up in ups:
            up.close()
        del _Registering.instances[:]
    return r


# ------------------------------------------------------------------------------------------
# the library's own sink


def oracle_spool(case) -> Result:
    """The library's own file sink: an upload larger than UploadFile.spool_max_size must not stay in
    process memory (the anchored mechanism 'memory up to the spool size, then disk'), one below it may;
    the content reads back exactly either way."""
    import tempfile

    r = Result()
    limit = UploadFile.spool_max_size
    size = {"below": max(limit // 4, 1), "at": limit, "above": limit + 1, "far-above": 3 * limit + 17}[case["size"]]
    chunk = case["chunk"]
    boundary = b"BoUnD"
    head = b'--BoUnD\r\nContent-Disposition: form-data; name="f"; filename="big.bin"\r\nContent-Type: application/octet-stream\r\n\r\n'
    tail = b"\r\n--BoUnD--\r\n"
    unit = bytes(range(256)) * 16

    def chunks():
        yield head
        sent = 0
        while sent < size:
            n = min(chunk, size - sent)
            piece = (unit * (n // len(unit) + 1))[sent % len(unit):][:n]
            sent += n
            yield piece
        yield tail

    def expected_content():
        return b"".join(list(chunks())[1:-1])

    ctx = f"{case!r} (spool_max_size {limit}, upload {size} bytes)"
    try:
        if case["route"] == "sync":
            items = parse_stream(chunks(), boundary, "utf-8", file_factory=UploadFile)
        else:

            async def stream():
                for c in chunks():
                    yield c

            items = gw.run_sync(parse_async_stream(stream(), boundary, "utf-8", file_factory=UploadFile))
    except HTTPException as exc:
        r.fail(f"C15:spool:{case['route']}:raised", f"{ctx}: {exc!r}")
        return r
    if len(items) != 1 or isinstance(items[0][1], str):
        r.fail(f"C15:spool:{case['route']}:items", f"{ctx}: {[(k, type(v).__name__) for k, v in items]!r}")
        return r
    up = items[0][1]
    try:
        held = up.in_memory
        inner = getattr(up, "file", None)
        if isinstance(inner, tempfile.SpooledTemporaryFile):
            # the spooled file knows for itself; the accessor may have drifted from it
            held = held or not inner._rolled
        if size > limit and held:
            r.fail(f"C15:spool:{case['route']}:large-upload-held-in-memory", f"{ctx}: after parsing, the upload is still an in-memory buffer")
        up.seek(0)
        data = up.read()
        if data != expected_content():
            r.fail(f"C15:spool:{case['route']}:content", f"{ctx}: read back {len(data)} bytes, differs from what was sent")
    finally:
        up.close()
    r.nontrivial = size > limit
    r.label(f"size={case['size']}", f"route={case['route']}", f"chunk={chunk}")
    return r


class _MinimalSyncSink:
    """Exactly the published sync sink protocol (SyncUploadFileInterface): constructor, write, seek - nothing else."""

    def __init__(self, filename, headers):
        self.filename, self.headers, self.data = filename, headers, bytearray()

    def write(self, data):
        self.data += data

    def seek(self, offset):
        pass


class _MinimalAsyncSink:
    """Exactly the published async sink protocol (AsyncUploadFileInterface): constructor, awrite, aseek."""

    def __init__(self, filename, headers):
        self.filename, self.headers, self.data = filename, headers, bytearray()

    async def awrite(self, data):
        self.data += data

    async def aseek(self, offset):
        pass


def _variant_form(spec):
    """Parts without CR/LF in names and content (so that a body re-written with other line breaks stays unambiguous)."""
    parts = []
    for i, item in enumerate(spec):
        kind, size = item
        content = (b"%c" % (97 + i % 26)) * size
        parts.append({"name": f"n{i}", "filename": (f"f{i}.bin" if kind == "file" else None), "headers": [], "content": content})
    return {"boundary": "XbX", "charset": "utf-8", "preamble": None, "epilogue": None, "padding": b"", "parts": parts}


def oracle_variants(case) -> Result:
    """The limit verdicts again (a) with sinks that implement exactly the published protocol and (b) for bodies whose line
    breaks are bare LF or bare CR, which the decoder documents as tolerated: 413 <=> over a limit; refusing such a body as
    malformed (any other 4xx) is accepted too, parsing it with the wrong verdict is not."""
    r = Result()
    form = _variant_form(case["parts"])
    body = ref.encode(form)
    lb = case.get("linebreak", "crlf")
    if lb != "crlf":
        body = body.replace(b"\r\n", b"\n" if lb == "lf" else b"\r")
    boundary = form["boundary"].encode("ascii")
    n, t = totals(form)
    chunkings = [[body]] + [[body[i:i + k] for i in range(0, len(body), k)] for k in case.get("chunk_sizes", (1, 7))]
    runs = 0
    for mp in (max(n - 1, 0), n, n + 1):
        for mm in (max(t - 1, 0), t, t + 1, None):
            want = 413 if (n > mp or (mm is not None and t > mm)) else "ok"
            for chunks in chunkings:
                for which in ("sync", "async"):
                    factory = {"real": UploadFile, "minimal": _MinimalSyncSink if which == "sync" else _MinimalAsyncSink}[case.get("sink", "real")]
                    runs += 1
                    try:
                        if which == "sync":
                            items = parse_stream(iter(chunks), boundary, "utf-8", file_factory=factory, max_form_parts=mp, max_form_memory_size=mm)
                        else:

                            async def stream(chunks=chunks):
                                for c in chunks:
                                    yield c

                            items = drive(parse_async_stream(stream(), boundary, "utf-8", file_factory=factory, max_form_parts=mp, max_form_memory_size=mm))
                        got = "ok"
                        if len(items) != n:
                            got = f"ok-but-{len(items)}-items"
                        for _, v in items:
                            if isinstance(v, UploadFile):
                                v.close()
                    except HTTPException as exc:
                        got = 413 if exc.status_code == 413 else f"http-{exc.status_code}"
                    if got == want or (lb != "crlf" and isinstance(got, str) and got.startswith("http-4")):
                        continue
                    r.fail(
                        f"C15:variants:{which}:{case.get('sink', 'real')}-sink:{lb}:expected-{want}-got-{got}",
                        f"{case!r}: n={n} parts, T={t} field bytes, max_form_parts={mp}, max_form_memory_size={mm}, {len(chunks)} chunk(s): "
                        f"{which} helper -> {got!r}, expected {want!r}; body {body[:200]!r}",
                    )
        if len(r.failures) >= 3:
            break
    r.weight = runs
    r.nontrivial = True
    r.label(f"sink={case.get('sink', 'real')}", f"linebreak={lb}")
    return r


def variant_cases(quick):
    shapes = [
        [("field", 1)], [("field", 3), ("field", 2)], [("file", 5), ("field", 2)], [("field", 2), ("file", 5)], [("file", 4), ("file", 0), ("field", 1)],
        [("field", 2), ("file", 3), ("field", 4), ("file", 1)], [("file", 3)], [("file", 2), ("file", 2), ("file", 2)], [("field", 0), ("field", 0)],
    ]
    for parts in shapes:
        for sink in ("minimal", "real"):
            for lb in ("crlf", "lf", "cr"):
                if sink == "real" and lb == "crlf":
                    continue  # that combination is what `exact` and `limits` run
                yield {"parts": [list(p) for p in parts], "sink": sink, "linebreak": lb, "chunk_sizes": [1, 7] if quick else [1, 2, 3, 7, 64]}


SUBS = {"variants": oracle_variants, "spool": oracle_spool, "limits": oracle_limits, "exact": oracle_exact, "default": oracle_default, "nolimit": oracle_nolimit,
        "lag": oracle_lag, "lag_grid": oracle_lag, "lag_small": oracle_lag, "lag_fill": oracle_lag, "lag_multi": oracle_lag, "lag_padded": oracle_lag,
        "formlag": oracle_formlag}


def limits_case():
    return st.fixed_dictionaries({"form": gen.forms(max_parts=4, max_pieces=4), "cuts": gen.cut_lists(200)})


LEADS = [b"", b"\r", b"\n", b"\r\n", b"ab\rcd", b"ab\ncd", b"\rx\n", b"\nx\r", b"\r\r", b"\n\n", b"--", b"\r\n-", b"\r-", b"\n--",
         b"\r\n--@B-inner\r\n", b"\r\n--@BX", b"x\n--@B.1\n", b"\r\n--@B-", b"\r\n--@Bx--\r\n"]
FILLERS = [b"-", b" ", b"\t", b"\n", b"\r", b"\r\n", b"\r\n-", b"\r\n--", b"line of text\r\n", b"--", b" \r\n", b"-\n"]


def lag_grid():
    for kind in ("file", "field"):
        for lead in LEADS:
            for blen, b in ((1, "b"), (13, "BoundaryBound"), (70, "x" * 70)):
                for chunk in (1024, 4096, 65536):
                    case = {"kind": kind, "lead": lead, "fill": 200_000, "chunk": chunk, "boundary": b, "trail": b""}
                    if kind == "field":
                        case["limit"] = 1000
                    yield case
                _ = blen


def lag_small_grid(quick):
    leads = [b"", b"\r", b"\n", b"ab\rcd", b"\r\n--@B-inner\r\n", b"\r\n-"]
    for kind in ("file", "field"):
        for lead in leads:
            for b in ("b", "BoundaryBound") if quick else ("b", "BoundaryBound", "x" * 70):
                for chunk in (1, 5, 16, 100):
                    for pat in (b"A", b"line\n"):
                        case = {"kind": kind, "lead": lead, "fill": 3000, "chunk": chunk, "boundary": b, "trail": b"", "fillpat": pat}
                        if kind == "field":
                            case["limit"] = 200
                        yield case


def lag_fill_grid(quick):
    for kind in ("file", "field"):
        for pat in FILLERS:
            for lead in (b"", b"\r", b"\n", b"x"):
                for b in ("b", "BoundaryBound") if quick else ("b", "BoundaryBound", "x" * 70, "-", "--a"):
                    for chunk in (1024, 65536) if quick else (1000, 1024, 4096, 65536):
                        case = {"kind": kind, "lead": lead, "fill": 150_000, "chunk": chunk, "boundary": b, "trail": b"", "fillpat": pat}
                        if kind == "field":
                            case["limit"] = 1000
                        yield case


PADDED_LEADS = [b"\r\n--@B", b"\n--@B", b"\r--@B", b"\r\n--@B-", b"ab\r\n--@B", b"\r\n--@B \t", b"\n--@B-\t"]
BLANK_FILLERS = [b" ", b"\t", b" \t", b"\t\t "]


def lag_padded_grid(quick):
    """The input class of the known finding.  What is retained is re-scanned with every chunk, so sizes are kept moderate."""
    leads = PADDED_LEADS[:5] if quick else PADDED_LEADS
    for kind in ("file", "field"):
        for lead in leads:
            for pat in BLANK_FILLERS[:2] if quick else BLANK_FILLERS:
                for b in ("b", "BoundaryBound") if quick else ("b", "BoundaryBound", "x" * 70):
                    for chunk, fill in ((16, 2000), (1024, 40_000), (4096, 100_000), (65536, 200_000)):
                        case = {"kind": kind, "lead": lead, "fill": fill, "chunk": chunk, "boundary": b, "trail": b"", "fillpat": pat}
                        if kind == "field":
                            case["limit"] = 200 if chunk < 100 else 1000
                        yield case


PRES = [[["field", 4990]], [["file", 5000]], [["field", 100], ["file", 3000], ["field", 4890]], [["file", 70_000], ["field", 4990]]]
POSTS = [[], [["field", 10], ["file", 10]]]


def lag_multi_grid(quick):
    for kind in ("file", "field"):
        for pre in PRES:
            for post in POSTS:
                for lead in (b"\r", b""):
                    for chunk in (1024, 4096) if quick else (100, 1024, 4096, 65536):
                        case = {"kind": kind, "lead": lead, "fill": 100_000, "chunk": chunk, "boundary": "BoundaryBound", "trail": b"", "pre": pre, "post": post}
                        if kind == "field":
                            case["limit"] = 5000  # the fields in front nearly fill it
                        yield case


def formlag_grid(quick):
    for side in ("wsgi", "asgi"):
        for chunk, fill in ((1000, 300_000), (8192, 300_000), (65536, 1_500_000)):
            for lead in (b"", b"\r"):
                for pre in ([], [["field", 2000], ["file", 3000]]):
                    if quick and lead == b"" and pre:
                        continue
                    yield {"side": side, "chunk": chunk, "fill": fill, "lead": lead, "boundary": "BoundaryBound", "pre": pre}


@st.composite
def lag_case(draw):
    kind = draw(st.sampled_from(["file", "field"]))
    lead = draw(st.one_of(st.sampled_from(LEADS), st.binary(max_size=12)))
    boundary = draw(gen.boundaries())
    if b"@B" not in lead:
        while ("--" + boundary).encode("latin-1") in lead:
            lead = lead.replace(b"-", b"")
    small = draw(st.integers(0, 3)) == 0
    case = {
        "kind": kind,
        "lead": lead,
        "fill": draw(st.sampled_from([2000, 5000])) if small else draw(st.sampled_from([65536, 100_000, 300_000, 1_000_000])),
        "chunk": draw(st.sampled_from([1, 2, 3, 7, 16, 50, 100])) if small else draw(st.sampled_from([1000, 1024, 4096, 8192, 16384, 65536, 7919])),
        "boundary": boundary,
        "trail": draw(st.sampled_from([b"", b"\r", b"\n", b"\r\n", b"-"])),
    }
    if draw(st.integers(0, 2)) == 0:
        case["fillpat"] = draw(st.sampled_from(FILLERS))
    if draw(st.integers(0, 7)) == 0:  # the input class of the known finding
        case["lead"] = draw(st.sampled_from(PADDED_LEADS))
        case["fillpat"] = draw(st.sampled_from(BLANK_FILLERS))
        case["trail"] = draw(st.sampled_from([b"", b"\r", b"\n", b"\r\n", b"-", b" "]))
    if padded_lookalike(case):
        # what is held back is scanned again with every chunk: keep fill^2 / chunk small
        case["fill"] = min(case["fill"], 2000 if case["chunk"] <= 100 else 60_000)
    small_part = st.tuples(st.sampled_from(["field", "file"]), st.sampled_from([0, 1, 10, 700, 5000])).map(list)
    if draw(st.integers(0, 2)) == 0:
        case["pre"] = draw(st.lists(small_part, max_size=3))
        case["post"] = draw(st.lists(small_part, max_size=2))
    if kind == "field":
        case["limit"] = draw(st.sampled_from([0, 1, 1000, 65536, 2_000_000]))
    return case


def run(rec, only=None):
    quick = rec.tier == "quick"
    core.drive_cases(rec, "default", [{"parts": n, "chunk": c} for n in (323, 324, 325, 326) for c in (97, 4096)], oracle_default)
    rec.exhaustive["default"] = True
    nolimit = [{"sizes": [600_000], "chunk": 65536}, {"sizes": [1_100_000], "chunk": 4096}, {"sizes": [300_000] * 8, "chunk": 65536},
               {"sizes": [24_000_000], "chunk": 65536}]
    core.drive_cases(rec, "nolimit", nolimit if quick else nolimit + [{"sizes": [64_000_000], "chunk": 1 << 20}], oracle_nolimit, sample=False)
    rec.exhaustive["nolimit"] = True
    core.drive_cases(rec, "spool", [{"size": z, "chunk": c, "route": w} for z in ("below", "at", "above", "far-above") for c in (65536, 1 << 20) for w in ("sync", "async")], oracle_spool)
    rec.exhaustive["spool"] = True
    core.drive_cases(rec, "exact", [{"spec": s, "chunks": [0, 1000, 4096] if quick else [0, 1000, 4096, 7919, 65536]} for s in EXACT_SPECS], oracle_exact)
    rec.exhaustive["exact"] = True
    grid = list(lag_grid())
    core.drive_cases(rec, "lag_grid", grid[::3] if quick else grid, oracle_lag)
    rec.exhaustive["lag_grid"] = not quick
    core.drive_cases(rec, "lag_small", lag_small_grid(quick), oracle_lag)
    core.drive_cases(rec, "lag_fill", lag_fill_grid(quick), oracle_lag)
    core.drive_cases(rec, "lag_multi", lag_multi_grid(quick), oracle_lag)
    core.drive_cases(rec, "lag_padded", lag_padded_grid(quick), oracle_lag)
    rec.exhaustive["lag_padded"] = True
    core.drive_cases(rec, "formlag", formlag_grid(quick), oracle_formlag)
    rec.exhaustive["lag_small"] = rec.exhaustive["lag_fill"] = rec.exhaustive["lag_multi"] = rec.exhaustive["formlag"] = True
    core.drive_cases(rec, "variants", variant_cases(quick), oracle_variants)
    rec.exhaustive["variants"] = True
    core.drive_hypothesis(rec, "limits", limits_case(), oracle_limits, 250 if quick else 20000)
    core.drive_hypothesis(rec, "lag", lag_case(), oracle_lag, 80 if quick else 6000, seed_offset=1)
    rec.exhaustive["limits"] = rec.exhaustive["lag"] = False
