"""Byte-level fuzz targets (coverage-guided, Atheris / libFuzzer) for C12, C03, C01, C13, C16, C19, C08, C17 and C18.

Each target decodes the fuzzer's bytes into a structured case (FuzzedDataProvider-like layer written
here so that the same decoding is used by the replay path without atheris) and evaluates the SAME
oracle as the Hypothesis sub-checks: the semantic oracle sits inside the target.  A failing case
raises `Violation`, libFuzzer stores the input as crash-<sha1>, and checks/<id>.py turns the stored
bytes into an ordinary replay case {"data": bytes} of the sub-check "atheris".
"""
from __future__ import annotations

from typing import Any, Dict, List


class Violation(Exception):
    pass


class Reader:
    """Minimal data provider: consumes from the front, deterministic, never raises."""

    def __init__(self, data: bytes) -> None:
        self.d = data
        self.i = 0

    def byte(self) -> int:
        if self.i >= len(self.d):
            return 0
        b = self.d[self.i]
        self.i += 1
        return b

    def pick(self, seq):
        return seq[self.byte() % len(seq)]

    def take(self, n: int) -> bytes:
        out = self.d[self.i:self.i + n]
        self.i += n
        return out

    def chunk(self, maxlen: int = 40) -> bytes:
        n = self.byte() % (maxlen + 1)
        return self.take(n)

    def rest(self) -> bytes:
        out = self.d[self.i:]
        self.i = len(self.d)
        return out

    def done(self) -> bool:
        return self.i >= len(self.d)


# ------------------------------------------------------------------------------------------
# C12


def c12_case(data: bytes) -> Dict[str, Any]:
    from checks import C12
    from harness import gateways as gw

    r = Reader(data)
    names = sorted(C12.VALID)
    headers: List[List[str]] = []
    seen = set()
    for _ in range(r.byte() % 5):
        name = r.pick(names)
        if name in seen:
            continue
        seen.add(name)
        mode = r.byte() % 4
        if mode == 0:
            v = r.pick(C12.VALID[name])
        elif mode == 1:
            v = r.pick(C12.HOSTILE[name])
        elif mode == 2:
            base = r.pick(C12.VALID[name] + C12.HOSTILE[name])
            cut = r.byte() % (len(base) + 1)
            v = base[:cut] + r.chunk(12).decode("latin-1") + base[cut:]
        else:
            v = r.chunk(30).decode("latin-1")
        v = v.replace("\r", "").replace("\n", "").strip(" \t")
        try:
            v.encode("latin-1")
        except UnicodeEncodeError:
            v = v.encode("utf-8").decode("latin-1")
        headers.append([name, v])
    if r.byte() % 3 == 0:
        media = r.pick(["application/json", "application/x-www-form-urlencoded", 'multipart/form-data; boundary="b"'])
        headers = [h for h in headers if h[0] != "Content-Type"] + [["Content-Type", f"{media}; charset={r.pick(C12.CODEC_NAMES)}"]]
    path = b"/" + r.chunk(24)
    query = r.chunk(16)
    body = r.rest()
    rq = gw.areq(method=r.pick(["GET", "POST"]), headers=headers, body=[body[: len(body) // 2], body[len(body) // 2:]], query=query, path_bytes=path, path="/")
    return {"request": rq, "hostile": True, "labels": ["atheris"]}


def c12_target(data: bytes) -> None:
    from checks import C12

    case = c12_case(data)
    res = C12.oracle_request(case)
    if res.failures:
        raise Violation(res.failures[0].bucket + ": " + res.failures[0].msg[:300])
    res = C12.oracle_apps(case)
    if res.failures:
        raise Violation(res.failures[0].bucket + ": " + res.failures[0].msg[:300])


# ------------------------------------------------------------------------------------------
# C03


def c03_case(data: bytes) -> Dict[str, Any]:
    r = Reader(data)
    size = r.pick([0, 1, 2, 3, 5, 8, 10, 99, 100, 101, 4623, 10**6])
    n = r.byte() % 6
    if r.byte() % 4 == 0:
        text = r.rest().decode("latin-1")
        return {"h": ("bytes=" if r.byte() % 2 else "") + text, "n": size}
    specs = []
    for _ in range(n + 1):
        form = r.byte() % 4
        a, b = r.byte() % 12, r.byte() % 12
        pad = "0" * (r.byte() % 3)
        if form == 0:
            specs.append(f"{pad}{a}-{b}")
        elif form == 1:
            specs.append(f"{a}-{pad}{b}")
        elif form == 2:
            specs.append(f"{pad}{a}-")
        else:
            specs.append(f"-{pad}{b}")
    return {"h": "bytes=" + r.pick([",", ", ", " ,"]).join(specs), "n": size}


def c03_target(data: bytes) -> None:
    from checks import C03

    res = C03.oracle(c03_case(data))
    if res.failures:
        raise Violation(res.failures[0].bucket + ": " + res.failures[0].msg[:300])


# ------------------------------------------------------------------------------------------
# C01


def c01_case(data: bytes) -> Dict[str, Any]:
    r = Reader(data)
    boundary = r.pick(["b", "bZ", "-", "a-b", "X1", "'()+_,-./:=?", "----WebKitFormBoundary7MA4YWxkTrZu0gW"])
    charset = r.pick(["utf-8", "latin-1"])
    parts = []
    needle = ("--" + boundary).encode("latin-1")
    for i in range(r.byte() % 4):
        content = r.chunk(24)
        # hostile pieces chosen by the fuzzer through an index byte
        pieces = [b"\r", b"\n", b"\r\n", b"-", b"--", ("\r\n--" + boundary[:-1]).encode("latin-1"), ("\r\n--" + boundary).encode("latin-1")[:-1], content]
        buf = b""
        for _ in range(r.byte() % 5):
            buf += r.pick(pieces)
        for _ in range(20):
            if needle not in buf:
                break
            buf = buf.replace(needle, b"")
        else:
            buf = buf.replace(b"-", b"")
        is_file = r.byte() % 2 == 0
        if not is_file:
            try:
                buf.decode(charset)
            except UnicodeDecodeError:
                buf = bytes(b for b in buf if b < 0x80)
        parts.append({"name": f"n{i}", "filename": f"f{i}.bin" if is_file else None, "headers": [], "content": buf})
    form = {"boundary": boundary, "charset": charset, "preamble": None, "epilogue": None, "padding": r.pick([b"", b" ", b" \t"]), "parts": parts}
    cuts = [r.byte() * 3 for _ in range(r.byte() % 6)]
    return {"form": form, "cuts": cuts}


def c01_target(data: bytes) -> None:
    from checks import C01

    res = C01.oracle(c01_case(data))
    if res.failures:
        raise Violation(res.failures[0].bucket + ": " + res.failures[0].msg[:300])


# ------------------------------------------------------------------------------------------
# C16 (cookie round trip), C19 (event-stream round trip), C13 (header histories)

_TOKEN = "!#$%&'*+-.^_`|~0123456789ABCDEFGHIJKLMNOPQRSTUVWXYZabcdefghijklmnopqrstuvwxyz"


def c16_case(data: bytes) -> Dict[str, Any]:
    r = Reader(data)
    n = 1 + r.byte() % 3
    foreign = r.byte() % 2 == 0
    cookies, seen = [], set()
    for i in range(n):
        name = "".join(_TOKEN[b % len(_TOKEN)] for b in r.take(1 + r.byte() % 4)) or f"k{i}"
        while name in seen:  # names within one response are distinct (stated assumption of the check)
            name += "_"
        seen.add(name)
        value = (r.chunk(24) if i < n - 1 else r.rest()).decode("latin-1")
        cookies.append({"name": name, "value": value, "expires": None, "max_age": None})
    return {"cookies": cookies, "tz": "UTC0", "foreign": foreign}


def c16_target(data: bytes) -> None:
    from checks import C16

    res = C16.oracle(c16_case(data))
    if res.failures:
        raise Violation(res.failures[0].bucket + ": " + res.failures[0].msg[:300])


def _text(b: bytes) -> str:
    return b.decode("utf-8", "ignore")


def c19_case(data: bytes) -> Dict[str, Any]:
    r = Reader(data)
    n = 1 + r.byte() % 3
    events = []
    for i in range(n):
        shape = r.byte()
        ev: Dict[str, Any] = {}
        if shape & 1:
            ev["event"] = _text(r.chunk(8)).translate({13: None, 10: None, 0: None})
        if shape & 2:
            ev["id"] = _text(r.chunk(8)).translate({13: None, 10: None, 0: None})
        if shape & 4:
            ev["retry"] = r.byte() * 37
        if shape & 8 or not ev:
            ev["data"] = _text(r.chunk(40) if i < n - 1 else r.rest())
        events.append(ev)
    return {"events": events, "charset": "utf-8", "pings": [r.byte() % (n + 1)] if data and data[0] & 0x80 else []}


def c19_target(data: bytes) -> None:
    from checks import C19

    res = C19.oracle_block(c19_case(data))
    if res.failures:
        raise Violation(res.failures[0].bucket + ": " + res.failures[0].msg[:300])


def c13_case(data: bytes) -> Dict[str, Any]:
    r = Reader(data)
    kinds = ["set", "append", "setdefault", "del", "update_map", "update_pairs", "update_headers"]
    reserved = ("set-cookie", "content-length", "content-type", "location", "")
    ops: List[Any] = []
    for _ in range(r.byte() % 6):
        kind = r.pick(kinds)
        key = r.chunk(6).decode("latin-1")
        if key.lower() in reserved:
            key = "x-" + key
        val = r.chunk(12).decode("latin-1")
        if kind == "del":
            ops.append([kind, key])
        elif kind.startswith("update"):
            ops.append([kind, [[key, val]]])
        else:
            ops.append([kind, key, val])
    cookies = []
    for i in range(r.byte() % 3):
        cookies.append({"name": r.chunk(6).decode("latin-1"), "value": r.chunk(16).decode("latin-1"), "delete": r.byte() % 4 == 0})
    return {"response": r.pick(["empty", "plain", "json", "redirect"]), "ops": ops, "cookies": cookies}


def c13_target(data: bytes) -> None:
    from checks import C13

    res = C13.oracle(c13_case(data))
    if res.failures:
        raise Violation(res.failures[0].bucket + ": " + res.failures[0].msg[:300])


# ------------------------------------------------------------------------------------------
# C08 (route tables x paths), C17 (operation histories on a multi-value mapping), C18 (URL replace chains)

_C08_LITS = ["/", "/a", "/api", "/a.b", "/x+", "-", ".", "/v", "_", "/é", ".json", "/(", "/$", "/a|b", "/[x]", "/^"]
_C08_TYPES = ["str", "int", "decimal", "uuid", "date", "any", None]
_C08_PIECES = ["/", "a", "api", "a.b", "aXb", "v", "12", "007", "1.5", "1.", ".5", "1x2", "2021-03-07", "2021-13-45", "2021-3-7", "0000-00-00",
               "00000000-0000-0000-0000-000000000000", "A0000000-0000-0000-0000-00000000000A", "-", ".", "é", "\n", "x+", ".json", "%41", "_", "(", "$", "a|b", "[x]", "^",
               "٣", "３", " ", "\t", "//"]


def c08_case(data: bytes) -> Dict[str, Any]:
    r = Reader(data)
    routes = []
    for _ in range(1 + r.byte() % 4):
        toks: List[Any] = [["lit", r.pick(["/", "/a", "/api/", "/a.b/", "/v", "/x+/"])]]
        pc = 0
        for _ in range(r.byte() % 4):
            if r.byte() % 3 == 0:
                lit = r.pick(_C08_LITS)
                if toks[-1][0] == "lit":
                    toks[-1] = ["lit", toks[-1][1] + lit]
                else:
                    toks.append(["lit", lit])
            else:
                if toks[-1][0] == "p":
                    toks.append(["lit", r.pick(["/", "-", ".", "/x/"])])  # adjacent placeholders are left to the Hypothesis generator
                toks.append(["p", f"p{pc}", r.pick(_C08_TYPES)])
                pc += 1
        routes.append(toks)
    path = ""
    for _ in range(r.byte() % 9):
        if r.byte() % 4 == 0:
            path += r.chunk(6).decode("utf-8", "ignore").replace("{", "").replace("}", "")
        else:
            path += r.pick(_C08_PIECES)
    return {"routes": routes, "path": path}


def c08_target(data: bytes) -> None:
    from checks import C08

    res = C08.oracle_table(c08_case(data))
    if res.failures:
        raise Violation(res.failures[0].bucket + ": " + res.failures[0].msg[:300])


def c17_case(data: bytes) -> Dict[str, Any]:
    from checks import C17

    r = Reader(data)
    keys, vals = C17.K4, C17.V4

    def pair():
        return [r.pick(keys), r.pick(vals)]

    def pairs(n):
        return [pair() for _ in range(r.byte() % (n + 1))]

    form = r.pick(["none", "pairs", "iter", "dict", "multi"] + list(C17.FORMS))
    init = [] if form == "none" else pairs(6)
    ops: List[Any] = []
    for _ in range(r.byte() % 40):
        k = r.byte() % 23
        key = r.pick(keys)
        if k == 0:
            ops.append(["set", key, r.pick(vals)])
        elif k in (1, 2):
            ops.append(["append", key, r.pick(vals)])
        elif k == 3:
            ops.append(["setdefault", key, r.pick(vals)])
        elif k == 4:
            ops.append(["del", key])
        elif k == 5:
            ops.append(["poplist", key])
        elif k == 6:
            ops.append(["pop", key])
        elif k == 7:
            ops.append(["popd", key])
        elif k == 8:
            ops.append(["setlist", key, [r.pick(vals) for _ in range(r.byte() % 4)]])
        elif k == 9:
            ops.append(["popitem"])
        elif k == 10:
            ops.append(["clear"])
        elif k == 11:
            ops.append(["snapshot"])
        elif k == 12:
            ops.append(["mutate_view", key])
        elif k == 13:
            ops.append(["update_dict", pairs(3)])
        elif k == 14:
            ops.append(["update_pairs", pairs(4)])
        elif k == 15:
            ops.append(["update_multi", pairs(4)])
        elif k == 16:
            ops.append(["update_kw", pairs(2)])
        elif k == 17:
            ops.append(["popn", key])
        elif k == 18:
            ops.append(["setdefault0", key])
        elif k == 19:
            ops.append(["update_iter", pairs(4)])
        elif k == 20:
            ops.append(["update_dict_kw", pairs(2), pairs(2)])
        elif k == 21:
            ops.append(["update_self"])
        else:
            ops.append(["setlist", key, [r.pick(vals) for _ in range(r.byte() % 4)], "tuple"])
    return {"form": form, "init": init, "ops": ops, "keys": list(keys) + ["zz"]}


def c17_target(data: bytes) -> None:
    from checks import C17

    res = C17.oracle(c17_case(data))
    if res.failures:
        raise Violation(res.failures[0].bucket + ": " + res.failures[0].msg[:300])


_C18_UNRES = "abcXYZ019-._~"
_C18_HOSTS = ["example.org", "localhost", "a.b.c", "EXAMPLE.com", "127.0.0.1", "10.0.0.5", "xn--bcher-kva.example", "[::1]", "[fe80::1]", "[2001:db8::8a2e:370:7334]", "[fe::2]"]
_C18_PORTS = [None, 80, 443, 8000, 8080, 1, 65535, 8443, 0]
_C18_PWS = ["p:q", "p@ss", "a:b@c", "********", "x", "secret", "example", "path", ""]


def c18_case(data: bytes) -> Dict[str, Any]:
    from checks import C18

    r = Reader(data)

    def unres():
        return "".join(_C18_UNRES[b % len(_C18_UNRES)] for b in r.take(1 + r.byte() % 6)) or "u"

    def pw(allow_empty=True):
        v = r.pick(_C18_PWS) if r.byte() % 2 else unres()
        return v if (v or allow_empty) else "x"

    user = unres() if r.byte() % 2 else None
    base = {
        "scheme": r.pick(["http", "https", "ws", "ftp"]),
        "username": user,
        "password": (pw() if r.byte() % 2 else None) if user is not None else None,
        "host": r.pick(_C18_HOSTS),
        "port": r.pick(_C18_PORTS),
        "path": r.pick(C18.BASE_PATHS),
        "query": r.pick(C18.BASE_QUERIES),
        "fragment": r.pick(C18.BASE_FRAGMENTS),
    }

    def changes(maxn):
        out: Dict[str, Any] = {}
        for _ in range(1 + r.byte() % maxn):
            k = r.pick(["scheme", "path", "query", "fragment", "username", "password", "host", "port"])
            if k in C18.NEW_VALUES:
                out[k] = r.pick(C18.NEW_VALUES[k])
            elif k == "username":
                out[k] = unres() if r.byte() % 3 else None
            elif k == "password":
                out[k] = pw(allow_empty=False) if r.byte() % 3 else None
            elif k == "host":
                out[k] = r.pick(_C18_HOSTS)
            else:
                out[k] = r.pick(_C18_PORTS)
        return out

    case: Dict[str, Any] = {"base": base, "changes": changes(5), "ctor": r.byte() % 2 == 0}
    n_then = r.byte() % 3
    if n_then:
        case["then"] = [changes(2) for _ in range(n_then)]
    return case


def c18_target(data: bytes) -> None:
    from checks import C18

    res = C18.oracle_replace(c18_case(data))
    if res.failures:
        raise Violation(res.failures[0].bucket + ": " + res.failures[0].msg[:300])


TARGETS = {"C12": c12_target, "C03": c03_target, "C01": c01_target, "C16": c16_target, "C19": c19_target, "C13": c13_target,
           "C08": c08_target, "C17": c17_target, "C18": c18_target}
CASES = {"C12": c12_case, "C03": c03_case, "C01": c01_case, "C16": c16_case, "C19": c19_case, "C13": c13_case,
         "C08": c08_case, "C17": c17_case, "C18": c18_case}
