#!/venv/bin/python
"""Subprocess entry of an Atheris campaign:  run_target.py <property id> [libFuzzer args...]

Instruments baize (coverage guidance), installs the same process-wide instruments as vrun.py and
hands control to libFuzzer.  A `Violation` (or any exception that passes through baize) is a crash:
libFuzzer writes the input to <artifact_prefix>crash-<sha1> and exits non-zero."""
import os
import sys

VERIF = os.path.dirname(os.path.dirname(os.path.abspath(__file__)))
REPO = os.environ.get("VERIF_REPO", "/repo")
sys.path[:0] = [REPO, VERIF, os.path.join(VERIF, ".deps")]
sys.setrecursionlimit(3000)


def main() -> None:
    pid = sys.argv[1]
    import atheris

    from harness import vfs

    vfs.install()
    with atheris.instrument_imports(include=["baize"]):
        import baize.asgi  # noqa: F401
        import baize.wsgi  # noqa: F401
    from fuzz import targets

    fn = targets.TARGETS[pid]
    count = {"n": 0}
    stats = os.environ.get("VERIF_FUZZ_STATS")

    def one(data: bytes) -> None:
        count["n"] += 1
        if stats and count["n"] % 200 == 0:
            with open(stats, "w") as fh:
                fh.write(str(count["n"]))
        fn(data)

    atheris.Setup([sys.argv[0]] + sys.argv[2:], one)
    atheris.Fuzz()


if __name__ == "__main__":
    main()
