"""Runs an Atheris campaign as a subprocess and folds its outcome into the recorder."""
from __future__ import annotations

import glob
import os
import shutil
import subprocess
import sys
import tempfile
import time

from harness import core

VERIF = os.path.dirname(os.path.dirname(os.path.abspath(__file__)))


def available() -> bool:
    deps = os.path.join(VERIF, ".deps")
    if not os.path.isdir(os.path.join(deps, "atheris")):
        subprocess.run(
            [sys.executable, "-m", "pip", "install", "--no-index", "--find-links", "/opt/veriftools/wheels", "--target", deps, "atheris"],
            capture_output=True,
        )
    return os.path.isdir(os.path.join(deps, "atheris"))


def campaign(rec, pid: str, oracle, runs: int, seeds=(), max_total_time: int = 900, jobs: int = 1) -> None:
    """`oracle` is the check's replay oracle for cases {"data": bytes} (sub-check "atheris")."""
    if not available():
        rec.labels["atheris:unavailable"] += 1
        rec.extra["atheris"] = "wheel could not be installed; campaign skipped"
        return
    work = tempfile.mkdtemp(prefix="verif_fuzz_")
    total_execs = 0
    t0 = time.time()
    try:
        procs = []
        for j in range(jobs):
            corpus = os.path.join(work, f"corpus{j}")
            os.makedirs(corpus)
            if j % 2 == 1:  # odd jobs start from a few small valid inputs, even jobs from an empty corpus
                for i, s in enumerate(seeds):
                    with open(os.path.join(corpus, f"seed{i}"), "wb") as fh:
                        fh.write(s)
            art = os.path.join(work, f"art{j}") + os.sep
            os.makedirs(art)
            stats = os.path.join(work, f"stats{j}")
            env = dict(os.environ, VERIF_FUZZ_STATS=stats, PYTHONHASHSEED="0")
            cmd = [sys.executable, os.path.join(VERIF, "fuzz", "run_target.py"), pid, f"-runs={runs}", f"-seed={rec.seed * 100 + j + 1}",
                   f"-max_total_time={max_total_time}", "-max_len=512", "-timeout=120", "-print_final_stats=1", f"-artifact_prefix={art}", corpus]
            procs.append((j, art, stats, subprocess.Popen(cmd, stdout=subprocess.DEVNULL, stderr=subprocess.PIPE, env=env, text=True)))
        for j, art, stats, p in procs:
            _, err = p.communicate()
            execs = 0
            for line in err.splitlines():
                if "number_of_executed_units" in line:
                    try:
                        execs = int(line.split(":")[-1])
                    except ValueError:
                        pass
            if not execs and os.path.exists(stats):
                try:
                    execs = int(open(stats).read() or 0)
                except ValueError:
                    pass
            total_execs += execs
            crashes = sorted(glob.glob(art + "crash-*")) + sorted(glob.glob(art + "timeout-*"))
            for path in crashes[:4]:
                data = open(path, "rb").read()
                case = {"data": data}
                res = core.guarded(oracle)(case)
                rec.count("atheris", case, res)
                new, old = rec.split(res)
                rec.note_known(old)
                for f in new:
                    rec.add_violation("atheris", f, case)
                    rec.skip.add(f.bucket)
                if not res.failures and os.path.basename(path).startswith("timeout"):
                    rec.labels["atheris:slow-input"] += 1
            if p.returncode not in (0,) and not crashes:
                raise core.HarnessError(f"atheris campaign for {pid} ended with status {p.returncode}: {err[-600:]}")
    finally:
        shutil.rmtree(work, ignore_errors=True)
    rec.evaluations += total_execs
    rec.sub_evals["atheris"] += total_execs
    rec.labels["atheris:executions"] += total_execs
    rec.extra["atheris"] = f"{total_execs} executions in {jobs} job(s), {round(time.time() - t0, 1)} s, coverage-guided (libFuzzer), oracle inside the target"
    rec.exhaustive["atheris"] = False
